//! ADTs, impls, consts, statics, fn signatures.

use crate::hirdump::span_str;
use crate::json::J;
use rustc_hir as hir;
use rustc_hir::def::DefKind;
use rustc_middle::ty::{self, TyCtxt};

fn attrs_of<'tcx>(tcx: TyCtxt<'tcx>, hir_id: hir::HirId) -> J {
    let mut v = Vec::new();
    for a in tcx.hir_attrs(hir_id) {
        match a {
            hir::Attribute::Unparsed(item) => {
                let snip = tcx
                    .sess
                    .source_map()
                    .span_to_snippet(item.span)
                    .unwrap_or_else(|_| format!("{:?}", item.path));
                v.push(J::Str(snip));
            }
            hir::Attribute::Parsed(k) => {
                let s = format!("{:?}", k);
                if s.starts_with("DocComment") {
                    continue;
                }
                let head: String = s.chars().take(200).collect();
                v.push(J::Str(format!("parsed:{}", head)));
            }
        }
    }
    J::Arr(v)
}

pub fn dump_items<'tcx>(tcx: TyCtxt<'tcx>) -> (J, J, J, J, J) {
    let mut adts = Vec::new();
    let mut impls = Vec::new();
    let mut consts = Vec::new();
    let mut statics = Vec::new();
    let mut fns = Vec::new();

    for ldid in tcx.hir_crate_items(()).definitions() {
        let did = ldid.to_def_id();
        let kind = tcx.def_kind(did);
        match kind {
            DefKind::Struct | DefKind::Enum | DefKind::Union => {
                let adt = tcx.adt_def(did);
                let hir_id = tcx.local_def_id_to_hir_id(ldid);
                let mut variants = Vec::new();
                for v in adt.variants() {
                    let mut fields = Vec::new();
                    for f in &v.fields {
                        let fty = tcx.type_of(f.did).instantiate_identity().skip_norm_wip();
                        let fattrs = match f.did.as_local() {
                            Some(l) => attrs_of(tcx, tcx.local_def_id_to_hir_id(l)),
                            None => J::Arr(vec![]),
                        };
                        fields.push(J::obj(vec![
                            ("name", J::s(f.name.as_str())),
                            ("ty", J::Str(format!("{}", fty))),
                            ("vis", J::Str(format!("{:?}", f.vis))),
                            ("attrs", fattrs),
                        ]));
                    }
                    let vattrs = match v.def_id.as_local() {
                        Some(l) if adt.is_enum() => attrs_of(tcx, tcx.local_def_id_to_hir_id(l)),
                        _ => J::Arr(vec![]),
                    };
                    variants.push(J::obj(vec![
                        ("name", J::s(v.name.as_str())),
                        ("ctor", J::Str(format!("{:?}", v.ctor_kind()))),
                        ("fields", J::Arr(fields)),
                        ("attrs", vattrs),
                    ]));
                }
                adts.push(J::obj(vec![
                    ("def", J::s(&tcx.def_path_str(did))),
                    ("kind", J::Str(format!("{:?}", kind))),
                    ("vis", J::Str(format!("{:?}", tcx.visibility(did)))),
                    ("span", J::Str(span_str(tcx, tcx.def_span(did)))),
                    ("attrs", attrs_of(tcx, hir_id)),
                    ("variants", J::Arr(variants)),
                ]));
            }
            DefKind::Impl { .. } => {
                let self_ty = tcx.type_of(did).instantiate_identity().skip_norm_wip();
                let mut o: Vec<(&'static str, J)> = vec![
                    ("def", J::s(&tcx.def_path_str(did))),
                    ("self_ty", J::Str(format!("{}", self_ty))),
                    ("span", J::Str(span_str(tcx, tcx.def_span(did)))),
                    ("from_expansion", J::Bool(tcx.def_span(did).from_expansion())),
                ];
                if let Some(adt) = self_ty.ty_adt_def() {
                    o.push(("self_adt", J::s(&tcx.def_path_str(adt.did()))));
                }
                if let Some(tr) = tcx.impl_opt_trait_ref(did) {
                    let tr = tr.instantiate_identity().skip_norm_wip();
                    o.push(("trait", J::s(&tcx.def_path_str(tr.def_id))));
                    o.push(("trait_full", J::Str(format!("{}", tr))));
                }
                let hir_id = tcx.local_def_id_to_hir_id(ldid);
                o.push(("attrs", attrs_of(tcx, hir_id)));
                let mut items = Vec::new();
                for it in tcx.associated_items(did).in_definition_order() {
                    items.push(J::obj(vec![
                        ("name", J::s(it.name().as_str())),
                        ("def", J::s(&tcx.def_path_str(it.def_id))),
                        ("kind", J::Str(format!("{:?}", it.kind).split('{').next().unwrap_or("").trim().to_string())),
                    ]));
                }
                o.push(("items", J::Arr(items)));
                impls.push(J::obj(o));
            }
            DefKind::Const { .. } | DefKind::AssocConst { .. } => {
                let t = tcx.type_of(did).instantiate_identity().skip_norm_wip();
                let mut o: Vec<(&'static str, J)> = vec![
                    ("def", J::s(&tcx.def_path_str(did))),
                    ("ty", J::Str(format!("{}", t))),
                    ("span", J::Str(span_str(tcx, tcx.def_span(did)))),
                ];
                if matches!(t.kind(), ty::Int(_) | ty::Uint(_) | ty::Bool)
                    && tcx.generics_of(did).is_empty()
                {
                    if let Ok(val) = tcx.const_eval_poly(did) {
                        if let Some(si) = val.try_to_scalar_int() {
                            let size = si.size();
                            let v = match t.kind() {
                                ty::Int(_) => si.to_int(size).to_string(),
                                _ => si.to_uint(size).to_string(),
                            };
                            o.push(("v", J::Str(v)));
                        }
                    }
                }
                consts.push(J::obj(o));
            }
            DefKind::Static { mutability, .. } => {
                let t = tcx.type_of(did).instantiate_identity().skip_norm_wip();
                statics.push(J::obj(vec![
                    ("def", J::s(&tcx.def_path_str(did))),
                    ("ty", J::Str(format!("{}", t))),
                    ("mut", J::Bool(matches!(mutability, hir::Mutability::Mut))),
                    ("span", J::Str(span_str(tcx, tcx.def_span(did)))),
                ]));
            }
            DefKind::Fn | DefKind::AssocFn => {
                let sig = tcx.fn_sig(did).instantiate_identity().skip_norm_wip().skip_binder();
                let inputs: Vec<J> = sig.inputs().iter().map(|t| J::Str(format!("{}", t))).collect();
                let hir_id = tcx.local_def_id_to_hir_id(ldid);
                fns.push(J::obj(vec![
                    ("def", J::s(&tcx.def_path_str(did))),
                    ("name", J::s(tcx.item_name(did).as_str())),
                    ("inputs", J::Arr(inputs)),
                    ("output", J::Str(format!("{}", sig.output()))),
                    ("vis", J::Str(format!("{:?}", tcx.visibility(did)))),
                    ("attrs", attrs_of(tcx, hir_id)),
                    ("span", J::Str(span_str(tcx, tcx.def_span(did)))),
                ]));
            }
            _ => {}
        }
    }
    (J::Arr(adts), J::Arr(impls), J::Arr(consts), J::Arr(statics), J::Arr(fns))
}
