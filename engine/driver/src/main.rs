//! slx-facts: a rustc_private driver that dumps resolved HIR, MIR, ADT and impl
//! facts of the crate `storage_layout_extractor` as one JSON file, without any
//! interpretation. The python rule engine decides the properties from it.
//!
//! Used as RUSTC_WORKSPACE_WRAPPER: argv[1] is the real rustc path (dropped).
//! Output path: $SLX_FACTS_OUT (one write per process).
#![feature(rustc_private)]
#![allow(clippy::all)]

extern crate rustc_abi;
extern crate rustc_ast;
extern crate rustc_driver;
extern crate rustc_hir;
extern crate rustc_interface;
extern crate rustc_middle;
extern crate rustc_session;
extern crate rustc_span;

mod json;
mod hirdump;
mod mirdump;
mod items;

use json::J;
use rustc_driver::Compilation;
use rustc_hir::def_id::LOCAL_CRATE;
use rustc_middle::ty::TyCtxt;

struct Cb {
    target: String,
}

impl rustc_driver::Callbacks for Cb {
    fn after_analysis<'tcx>(
        &mut self,
        _c: &rustc_interface::interface::Compiler,
        tcx: TyCtxt<'tcx>,
    ) -> Compilation {
        let name = tcx.crate_name(LOCAL_CRATE).to_string();
        if name != self.target {
            return Compilation::Continue;
        }
        let out = match std::env::var("SLX_FACTS_OUT") {
            Ok(o) => o,
            Err(_) => return Compilation::Continue,
        };
        let mut root = Vec::new();
        root.push(("crate".to_string(), J::s(&name)));
        root.push((
            "debug_assertions".to_string(),
            J::Bool(tcx.sess.opts.debug_assertions),
        ));
        root.push((
            "overflow_checks".to_string(),
            J::Bool(tcx.sess.overflow_checks()),
        ));
        root.push(("bodies".to_string(), dump_bodies(tcx)));
        let (adts, impls, consts, statics, fns) = items::dump_items(tcx);
        root.push(("adts".to_string(), adts));
        root.push(("impls".to_string(), impls));
        root.push(("consts".to_string(), consts));
        root.push(("statics".to_string(), statics));
        root.push(("fns".to_string(), fns));
        let mut s = String::with_capacity(64 << 20);
        J::Obj(root).write(&mut s);
        let tmp = format!("{}.tmp.{}", out, std::process::id());
        std::fs::write(&tmp, s).expect("write facts");
        std::fs::rename(&tmp, &out).expect("rename facts");
        Compilation::Continue
    }
}

fn dump_bodies<'tcx>(tcx: TyCtxt<'tcx>) -> J {
    let mut v = Vec::new();
    for ldid in tcx.hir_body_owners() {
        let did = ldid.to_def_id();
        let kind = tcx.def_kind(did);
        let mut o = Vec::new();
        o.push(("def".to_string(), J::s(&tcx.def_path_str(did))));
        o.push(("kind".to_string(), J::s(&format!("{:?}", kind))));
        o.push(("span".to_string(), J::s(&hirdump::span_str(tcx, tcx.def_span(did)))));
        o.push((
            "from_expansion".to_string(),
            J::Bool(tcx.def_span(did).from_expansion()),
        ));
        // parent chain (for closures: the enclosing fn)
        let root = tcx.typeck_root_def_id(did);
        if root != did {
            o.push(("parent".to_string(), J::s(&tcx.def_path_str(root))));
        }
        // impl context
        if let Some(imp) = tcx.impl_of_assoc(root) {
            let self_ty = tcx.type_of(imp).instantiate_identity().skip_norm_wip();
            o.push(("impl_self".to_string(), J::s(&format!("{}", self_ty))));
            if let Some(tr) = tcx.impl_opt_trait_ref(imp) {
                let tr = tr.instantiate_identity().skip_norm_wip();
                o.push(("impl_trait".to_string(), J::s(&tcx.def_path_str(tr.def_id))));
                o.push(("impl_trait_full".to_string(), J::s(&format!("{}", tr))));
            }
        } else if let Some(tr) = tcx.trait_of_assoc(root) {
            o.push(("trait_default".to_string(), J::s(&tcx.def_path_str(tr))));
        }
        if matches!(
            kind,
            rustc_hir::def::DefKind::Fn | rustc_hir::def::DefKind::AssocFn
        ) {
            o.push((
                "vis".to_string(),
                J::s(&format!("{:?}", tcx.visibility(did))),
            ));
            o.push(("name".to_string(), J::s(tcx.item_name(did).as_str())));
        }
        // HIR only for typeck roots (closures are inlined in the parent tree)
        if root == did {
            o.push(("hir".to_string(), hirdump::dump_body(tcx, ldid)));
        }
        // MIR for fns and closures (not for consts: avoid const-eval cycles)
        if matches!(
            kind,
            rustc_hir::def::DefKind::Fn
                | rustc_hir::def::DefKind::AssocFn
                | rustc_hir::def::DefKind::Closure
        ) {
            o.push(("mir".to_string(), mirdump::dump_mir(tcx, ldid)));
        }
        v.push(J::Obj(o));
    }
    J::Arr(v)
}

fn main() {
    let mut args: Vec<String> = std::env::args().collect();
    // RUSTC_WORKSPACE_WRAPPER passes the real rustc as argv[1].
    if args.len() > 1 && (args[1].ends_with("rustc") || args[1].contains("/rustc")) {
        args.remove(1);
    }
    let target = std::env::var("SLX_CRATE").unwrap_or_else(|_| "storage_layout_extractor".into());
    let mut cb = Cb { target };
    rustc_driver::run_compiler(&args, &mut cb);
}
