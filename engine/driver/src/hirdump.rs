//! Resolved HIR expression trees as JSON.

use crate::json::J;
use rustc_hir as hir;
use rustc_hir::def::{DefKind, Res};
use rustc_hir::def_id::{DefId, LocalDefId};
use rustc_middle::ty::{self, TyCtxt, TypeckResults};
use rustc_span::Span;

pub fn span_str(tcx: TyCtxt<'_>, sp: Span) -> String {
    let sm = tcx.sess.source_map();
    // Use the outermost call site for macro-expanded spans so that locations
    // always point into the crate's own files.
    let sp = sp.source_callsite();
    let lo = sm.lookup_char_pos(sp.lo());
    let hi = sm.lookup_char_pos(sp.hi());
    let name = match &lo.file.name {
        rustc_span::FileName::Real(r) => match r.local_path() {
            Some(p) => p.display().to_string(),
            None => format!("{:?}", r),
        },
        other => format!("{:?}", other),
    };
    format!("{}:{}:{}-{}:{}", name, lo.line, lo.col.0 + 1, hi.line, hi.col.0 + 1)
}

pub struct Cx<'a, 'tcx> {
    pub tcx: TyCtxt<'tcx>,
    pub tr: &'a TypeckResults<'tcx>,
    pub owner: LocalDefId,
}

pub fn dump_body<'tcx>(tcx: TyCtxt<'tcx>, ldid: LocalDefId) -> J {
    let body = tcx.hir_body_owned_by(ldid);
    let tr = tcx.typeck(ldid);
    let cx = Cx { tcx, tr, owner: ldid };
    let params: Vec<J> = body.params.iter().map(|p| cx.pat(p.pat)).collect();
    J::obj(vec![("params", J::Arr(params)), ("value", cx.expr(body.value))])
}

impl<'a, 'tcx> Cx<'a, 'tcx> {
    fn sp(&self, sp: Span) -> J {
        J::Str(span_str(self.tcx, sp))
    }

    fn ty_str(&self, t: ty::Ty<'tcx>) -> String {
        format!("{}", t)
    }

    pub fn def_str(&self, d: DefId) -> String {
        self.tcx.def_path_str(d)
    }

    fn res(&self, res: Res, hir_id: hir::HirId, o: &mut Vec<(&'static str, J)>) {
        match res {
            Res::Local(id) => {
                o.push(("res", J::s("local")));
                o.push(("local", J::n(id.local_id.as_u32())));
                o.push(("name", J::s(self.tcx.hir_name(id).as_str())));
            }
            Res::Def(kind, did) => {
                o.push(("res", J::s("def")));
                o.push(("defkind", J::s(&format!("{:?}", kind))));
                o.push(("def", J::s(&self.def_str(did))));
                if let DefKind::Ctor(..) = kind {
                    let parent = self.tcx.parent(did);
                    o.push(("ctor_of", J::s(&self.def_str(parent))));
                }
                if matches!(kind, DefKind::Fn | DefKind::AssocFn) {
                    if let Some(args) = self.tr.node_args_opt(hir_id) {
                        o.push((
                            "def_full",
                            J::s(&self.tcx.def_path_str_with_args(did, args)),
                        ));
                        if let Some(r) = self.resolve(did, args) {
                            o.push(("resolved", J::s(&r)));
                        }
                    }
                }
            }
            Res::SelfTyAlias { alias_to, .. } => {
                o.push(("res", J::s("selfty")));
                o.push(("def", J::s(&self.def_str(alias_to))));
            }
            Res::SelfCtor(did) => {
                o.push(("res", J::s("selfctor")));
                o.push(("def", J::s(&self.def_str(did))));
            }
            other => {
                o.push(("res", J::s(&format!("{:?}", other))));
            }
        }
    }

    fn resolve(&self, did: DefId, args: ty::GenericArgsRef<'tcx>) -> Option<String> {
        let env = ty::TypingEnv::post_analysis(self.tcx, self.owner.to_def_id());
        match ty::Instance::try_resolve(self.tcx, env, did, args) {
            Ok(Some(inst)) => Some(format!(
                "{}",
                self.tcx.def_path_str_with_args(inst.def_id(), inst.args)
            )),
            _ => None,
        }
    }

    fn qpath(&self, q: &hir::QPath<'tcx>, hir_id: hir::HirId, o: &mut Vec<(&'static str, J)>) {
        let res = self.tr.qpath_res(q, hir_id);
        self.res(res, hir_id, o);
    }

    fn lit(&self, l: &hir::Lit, neg: bool) -> J {
        use rustc_ast::LitKind;
        match &l.node {
            LitKind::Int(v, _) => {
                let v = v.get() as i128;
                J::obj(vec![("lit", J::s("int")), ("v", J::Str((if neg { -v } else { v }).to_string()))])
            }
            LitKind::Bool(b) => J::obj(vec![("lit", J::s("bool")), ("v", J::Bool(*b))]),
            LitKind::Str(s, _) => J::obj(vec![("lit", J::s("str")), ("v", J::s(s.as_str()))]),
            LitKind::Char(c) => J::obj(vec![("lit", J::s("char")), ("v", J::s(&c.to_string()))]),
            LitKind::Byte(b) => J::obj(vec![("lit", J::s("int")), ("v", J::Str(b.to_string()))]),
            other => J::obj(vec![("lit", J::s("other")), ("v", J::s(&format!("{:?}", other)))]),
        }
    }

    fn variant_of(&self, q: &hir::QPath<'tcx>, hir_id: hir::HirId, t: Option<ty::Ty<'tcx>>, o: &mut Vec<(&'static str, J)>) {
        // Resolve the ADT and variant named by a struct expression / pattern.
        let res = self.tr.qpath_res(q, hir_id);
        let adt = t.and_then(|t| t.peel_refs().ty_adt_def());
        if let Some(adt) = adt {
            o.push(("adt", J::s(&self.def_str(adt.did()))));
            let v = match res {
                Res::Def(DefKind::Variant, vid) => Some(adt.variant_with_id(vid)),
                Res::Def(DefKind::Ctor(..), cid) => Some(adt.variant_with_ctor_id(cid)),
                _ => {
                    if adt.is_enum() {
                        None
                    } else {
                        Some(adt.non_enum_variant())
                    }
                }
            };
            if let Some(v) = v {
                o.push(("variant", J::s(v.name.as_str())));
            }
        }
        self.res(res, hir_id, o);
    }

    pub fn pat(&self, p: &hir::Pat<'tcx>) -> J {
        let mut o: Vec<(&'static str, J)> = Vec::new();
        let t = self.tr.node_type_opt(p.hir_id);
        use hir::PatKind::*;
        match &p.kind {
            Wild | Missing => o.push(("p", J::s("Wild"))),
            Never => o.push(("p", J::s("Never"))),
            Binding(mode, id, ident, sub) => {
                o.push(("p", J::s("Bind")));
                o.push(("name", J::s(ident.as_str())));
                o.push(("local", J::n(id.local_id.as_u32())));
                o.push(("mode", J::s(&format!("{:?}", mode))));
                if let Some(s) = sub {
                    o.push(("sub", self.pat(s)));
                }
            }
            Struct(q, fields, rest) => {
                o.push(("p", J::s("Struct")));
                self.variant_of(q, p.hir_id, t, &mut o);
                let fs: Vec<J> = fields
                    .iter()
                    .map(|f| J::obj(vec![("field", J::s(f.ident.as_str())), ("pat", self.pat(f.pat))]))
                    .collect();
                o.push(("fields", J::Arr(fs)));
                o.push(("rest", J::Bool(rest.is_some())));
            }
            TupleStruct(q, pats, ddpos) => {
                o.push(("p", J::s("TupleStruct")));
                self.variant_of(q, p.hir_id, t, &mut o);
                o.push(("pats", J::Arr(pats.iter().map(|x| self.pat(x)).collect())));
                if let Some(pos) = ddpos.as_opt_usize() {
                    o.push(("dotdot", J::n(pos as i64)));
                }
            }
            Or(pats) => {
                o.push(("p", J::s("Or")));
                o.push(("pats", J::Arr(pats.iter().map(|x| self.pat(x)).collect())));
            }
            Tuple(pats, ddpos) => {
                o.push(("p", J::s("Tuple")));
                o.push(("pats", J::Arr(pats.iter().map(|x| self.pat(x)).collect())));
                if let Some(pos) = ddpos.as_opt_usize() {
                    o.push(("dotdot", J::n(pos as i64)));
                }
            }
            Box(s) | Deref(s) => {
                o.push(("p", J::s("Deref")));
                o.push(("sub", self.pat(s)));
            }
            Ref(s, _, _) => {
                o.push(("p", J::s("Ref")));
                o.push(("sub", self.pat(s)));
            }
            Expr(e) => match &e.kind {
                hir::PatExprKind::Lit { lit, negated } => {
                    o.push(("p", J::s("Lit")));
                    o.push(("value", self.lit(lit, *negated)));
                }
                hir::PatExprKind::Path(q) => {
                    o.push(("p", J::s("Path")));
                    self.variant_of(q, e.hir_id, t, &mut o);
                }
            },
            Guard(s, g) => {
                o.push(("p", J::s("Guard")));
                o.push(("sub", self.pat(s)));
                o.push(("guard", self.expr(g)));
            }
            Range(lo, hi, end) => {
                o.push(("p", J::s("Range")));
                let f = |e: &Option<&hir::PatExpr<'tcx>>| match e {
                    Some(pe) => match &pe.kind {
                        hir::PatExprKind::Lit { lit, negated } => self.lit(lit, *negated),
                        hir::PatExprKind::Path(q) => {
                            let mut oo = Vec::new();
                            self.qpath(q, pe.hir_id, &mut oo);
                            J::obj(oo)
                        }
                    },
                    None => J::Null,
                };
                o.push(("lo", f(lo)));
                o.push(("hi", f(hi)));
                o.push(("inclusive", J::Bool(matches!(end, hir::RangeEnd::Included))));
            }
            Slice(a, m, b) => {
                o.push(("p", J::s("Slice")));
                o.push(("before", J::Arr(a.iter().map(|x| self.pat(x)).collect())));
                if let Some(m) = m {
                    o.push(("mid", self.pat(m)));
                }
                o.push(("after", J::Arr(b.iter().map(|x| self.pat(x)).collect())));
            }
            Err(_) => o.push(("p", J::s("Err"))),
        }
        if let Some(t) = t {
            o.push(("ty", J::Str(self.ty_str(t))));
        }
        o.push(("span", self.sp(p.span)));
        J::obj(o)
    }

    fn block(&self, b: &hir::Block<'tcx>) -> J {
        let mut stmts = Vec::new();
        for s in b.stmts {
            match &s.kind {
                hir::StmtKind::Let(l) => {
                    let mut o: Vec<(&'static str, J)> = vec![("s", J::s("Let")), ("pat", self.pat(l.pat))];
                    if let Some(i) = l.init {
                        o.push(("init", self.expr(i)));
                    }
                    if let Some(e) = l.els {
                        o.push(("els", self.block(e)));
                    }
                    o.push(("source", J::s(&format!("{:?}", l.source))));
                    o.push(("span", self.sp(l.span)));
                    stmts.push(J::obj(o));
                }
                hir::StmtKind::Expr(e) | hir::StmtKind::Semi(e) => {
                    stmts.push(J::obj(vec![("s", J::s("Expr")), ("e", self.expr(e))]));
                }
                hir::StmtKind::Item(_) => {
                    stmts.push(J::obj(vec![("s", J::s("Item"))]));
                }
            }
        }
        let mut o: Vec<(&'static str, J)> = vec![("stmts", J::Arr(stmts))];
        if let Some(e) = b.expr {
            o.push(("expr", self.expr(e)));
        }
        o.push(("unsafe", J::Bool(!matches!(b.rules, hir::BlockCheckMode::DefaultBlock))));
        J::obj(o)
    }

    pub fn expr(&self, e: &hir::Expr<'tcx>) -> J {
        let mut o: Vec<(&'static str, J)> = Vec::new();
        use hir::ExprKind::*;
        match &e.kind {
            ConstBlock(_) => o.push(("k", J::s("ConstBlock"))),
            Array(xs) => {
                o.push(("k", J::s("Array")));
                o.push(("elems", J::Arr(xs.iter().map(|x| self.expr(x)).collect())));
            }
            Call(f, args) => {
                o.push(("k", J::s("Call")));
                o.push(("f", self.expr(f)));
                o.push(("args", J::Arr(args.iter().map(|x| self.expr(x)).collect())));
            }
            MethodCall(seg, recv, args, _) => {
                o.push(("k", J::s("MethodCall")));
                o.push(("method", J::s(seg.ident.as_str())));
                if let Some(did) = self.tr.type_dependent_def_id(e.hir_id) {
                    o.push(("def", J::s(&self.def_str(did))));
                    let args_ = self.tr.node_args(e.hir_id);
                    o.push(("def_full", J::s(&self.tcx.def_path_str_with_args(did, args_))));
                    if let Some(r) = self.resolve(did, args_) {
                        o.push(("resolved", J::s(&r)));
                    }
                }
                o.push(("recv", self.expr(recv)));
                o.push(("recv_ty", J::Str(self.ty_str(self.tr.expr_ty_adjusted(recv)))));
                o.push(("args", J::Arr(args.iter().map(|x| self.expr(x)).collect())));
            }
            Use(x, _) => {
                o.push(("k", J::s("Use")));
                o.push(("e", self.expr(x)));
            }
            Tup(xs) => {
                o.push(("k", J::s("Tup")));
                o.push(("elems", J::Arr(xs.iter().map(|x| self.expr(x)).collect())));
            }
            Binary(op, l, r) => {
                o.push(("k", J::s("Binary")));
                o.push(("op", J::s(&format!("{:?}", op.node))));
                if let Some(did) = self.tr.type_dependent_def_id(e.hir_id) {
                    o.push(("def", J::s(&self.def_str(did))));
                    let args_ = self.tr.node_args(e.hir_id);
                    if let Some(r) = self.resolve(did, args_) {
                        o.push(("resolved", J::s(&r)));
                    }
                }
                o.push(("l", self.expr(l)));
                o.push(("r", self.expr(r)));
            }
            Unary(op, x) => {
                o.push(("k", J::s("Unary")));
                o.push(("op", J::s(&format!("{:?}", op))));
                if let Some(did) = self.tr.type_dependent_def_id(e.hir_id) {
                    o.push(("def", J::s(&self.def_str(did))));
                }
                o.push(("e", self.expr(x)));
            }
            Lit(l) => {
                o.push(("k", J::s("Lit")));
                o.push(("value", self.lit(l, false)));
            }
            Cast(x, _) => {
                o.push(("k", J::s("Cast")));
                o.push(("e", self.expr(x)));
            }
            Type(x, _) => {
                o.push(("k", J::s("Type")));
                o.push(("e", self.expr(x)));
            }
            DropTemps(x) => {
                // transparent
                return self.expr(x);
            }
            Let(l) => {
                o.push(("k", J::s("Let")));
                o.push(("pat", self.pat(l.pat)));
                o.push(("init", self.expr(l.init)));
            }
            If(c, t, f) => {
                o.push(("k", J::s("If")));
                o.push(("cond", self.expr(c)));
                o.push(("then", self.expr(t)));
                if let Some(f) = f {
                    o.push(("else", self.expr(f)));
                }
            }
            Loop(b, _label, src, _) => {
                o.push(("k", J::s("Loop")));
                o.push(("source", J::s(&format!("{:?}", src))));
                o.push(("body", self.block(b)));
            }
            Match(scrut, arms, src) => {
                o.push(("k", J::s("Match")));
                o.push(("source", J::s(&format!("{:?}", src))));
                o.push(("scrut", self.expr(scrut)));
                let arms_: Vec<J> = arms
                    .iter()
                    .map(|a| {
                        let mut ao: Vec<(&'static str, J)> = vec![("pat", self.pat(a.pat))];
                        if let Some(g) = a.guard {
                            ao.push(("guard", self.expr(g)));
                        }
                        ao.push(("body", self.expr(a.body)));
                        ao.push(("span", self.sp(a.span)));
                        J::obj(ao)
                    })
                    .collect();
                o.push(("arms", J::Arr(arms_)));
            }
            Closure(c) => {
                o.push(("k", J::s("Closure")));
                o.push(("def", J::s(&self.def_str(c.def_id.to_def_id()))));
                let body = self.tcx.hir_body(c.body);
                o.push(("params", J::Arr(body.params.iter().map(|p| self.pat(p.pat)).collect())));
                o.push(("body", self.expr(body.value)));
            }
            Block(b, _) => {
                o.push(("k", J::s("Block")));
                o.push(("block", self.block(b)));
            }
            Assign(l, r, _) => {
                o.push(("k", J::s("Assign")));
                o.push(("l", self.expr(l)));
                o.push(("r", self.expr(r)));
            }
            AssignOp(op, l, r) => {
                o.push(("k", J::s("AssignOp")));
                o.push(("op", J::s(&format!("{:?}", op.node))));
                if let Some(did) = self.tr.type_dependent_def_id(e.hir_id) {
                    o.push(("def", J::s(&self.def_str(did))));
                }
                o.push(("l", self.expr(l)));
                o.push(("r", self.expr(r)));
            }
            Field(x, ident) => {
                o.push(("k", J::s("Field")));
                o.push(("field", J::s(ident.as_str())));
                let bt = self.tr.expr_ty_adjusted(x);
                o.push(("base_ty", J::Str(self.ty_str(bt))));
                if let Some(adt) = bt.peel_refs().ty_adt_def() {
                    o.push(("adt", J::s(&self.def_str(adt.did()))));
                }
                o.push(("e", self.expr(x)));
            }
            Index(x, i, _) => {
                o.push(("k", J::s("Index")));
                o.push(("base_ty", J::Str(self.ty_str(self.tr.expr_ty_adjusted(x)))));
                if let Some(did) = self.tr.type_dependent_def_id(e.hir_id) {
                    o.push(("def", J::s(&self.def_str(did))));
                }
                o.push(("e", self.expr(x)));
                o.push(("index", self.expr(i)));
            }
            Path(q) => {
                o.push(("k", J::s("Path")));
                self.qpath(q, e.hir_id, &mut o);
            }
            AddrOf(_, m, x) => {
                o.push(("k", J::s("AddrOf")));
                o.push(("mut", J::Bool(matches!(m, hir::Mutability::Mut))));
                o.push(("e", self.expr(x)));
            }
            Break(_, x) => {
                o.push(("k", J::s("Break")));
                if let Some(x) = x {
                    o.push(("e", self.expr(x)));
                }
            }
            Continue(_) => o.push(("k", J::s("Continue"))),
            Ret(x) => {
                o.push(("k", J::s("Ret")));
                if let Some(x) = x {
                    o.push(("e", self.expr(x)));
                }
            }
            Become(x) => {
                o.push(("k", J::s("Become")));
                o.push(("e", self.expr(x)));
            }
            Struct(q, fields, tail) => {
                o.push(("k", J::s("Struct")));
                self.variant_of(q, e.hir_id, self.tr.expr_ty_opt(e), &mut o);
                let fs: Vec<J> = fields
                    .iter()
                    .map(|f| {
                        J::obj(vec![
                            ("field", J::s(f.ident.as_str())),
                            ("shorthand", J::Bool(f.is_shorthand)),
                            ("e", self.expr(f.expr)),
                        ])
                    })
                    .collect();
                o.push(("fields", J::Arr(fs)));
                if let hir::StructTailExpr::Base(b) = tail {
                    o.push(("base", self.expr(b)));
                }
            }
            Repeat(x, _) => {
                o.push(("k", J::s("Repeat")));
                o.push(("e", self.expr(x)));
            }
            Yield(x, _) => {
                o.push(("k", J::s("Yield")));
                o.push(("e", self.expr(x)));
            }
            InlineAsm(_) => o.push(("k", J::s("InlineAsm"))),
            OffsetOf(..) => o.push(("k", J::s("OffsetOf"))),
            UnsafeBinderCast(_, x, _) => {
                o.push(("k", J::s("UnsafeBinderCast")));
                o.push(("e", self.expr(x)));
            }
            Err(_) => o.push(("k", J::s("Err"))),
        }
        if let Some(t) = self.tr.expr_ty_opt(e) {
            o.push(("ty", J::Str(self.ty_str(t))));
        }
        o.push(("id", J::n(e.hir_id.local_id.as_u32())));
        o.push(("span", self.sp(e.span)));
        if e.span.from_expansion() {
            let d = e.span.ctxt().outer_expn_data();
            o.push(("exp", J::s(&format!("{:?}", d.kind))));
        }
        J::obj(o)
    }
}
