//! MIR bodies as JSON (optimized_mir at -Zmir-opt-level=0).

use crate::hirdump::span_str;
use crate::json::J;
use rustc_hir::def_id::LocalDefId;
use rustc_middle::mir::{self, *};
use rustc_middle::ty::{self, TyCtxt};

struct M<'tcx> {
    tcx: TyCtxt<'tcx>,
    owner: LocalDefId,
}

pub fn dump_mir<'tcx>(tcx: TyCtxt<'tcx>, ldid: LocalDefId) -> J {
    let body: &Body<'tcx> = tcx.optimized_mir(ldid.to_def_id());
    let m = M { tcx, owner: ldid };
    let mut locals = Vec::new();
    for (l, d) in body.local_decls.iter_enumerated() {
        locals.push(J::obj(vec![
            ("i", J::n(l.as_u32())),
            ("ty", J::Str(format!("{}", d.ty))),
            ("span", J::Str(span_str(tcx, d.source_info.span))),
        ]));
    }
    let mut dbg = Vec::new();
    for v in &body.var_debug_info {
        if let VarDebugInfoContents::Place(p) = &v.value {
            dbg.push(J::obj(vec![
                ("name", J::s(v.name.as_str())),
                ("place", m.place(p)),
            ]));
        }
    }
    let mut blocks = Vec::new();
    for (bb, data) in body.basic_blocks.iter_enumerated() {
        let mut stmts = Vec::new();
        for s in &data.statements {
            if let Some(j) = m.stmt(s) {
                stmts.push(j);
            }
        }
        let term = data.terminator();
        blocks.push(J::obj(vec![
            ("i", J::n(bb.as_u32())),
            ("cleanup", J::Bool(data.is_cleanup)),
            ("stmts", J::Arr(stmts)),
            ("term", m.term(term)),
        ]));
    }
    J::obj(vec![
        ("arg_count", J::n(body.arg_count as i64)),
        ("locals", J::Arr(locals)),
        ("debug", J::Arr(dbg)),
        ("blocks", J::Arr(blocks)),
    ])
}

impl<'tcx> M<'tcx> {
    fn place(&self, p: &Place<'tcx>) -> J {
        let mut proj = Vec::new();
        for e in p.projection.iter() {
            proj.push(match e {
                ProjectionElem::Deref => J::s("*"),
                ProjectionElem::Field(f, t) => J::obj(vec![
                    ("f", J::n(f.as_u32())),
                    ("ty", J::Str(format!("{}", t))),
                ]),
                ProjectionElem::Index(l) => J::obj(vec![("idx", J::n(l.as_u32()))]),
                ProjectionElem::ConstantIndex { offset, from_end, .. } => J::obj(vec![
                    ("cidx", J::n(offset as i64)),
                    ("from_end", J::Bool(from_end)),
                ]),
                ProjectionElem::Subslice { from, to, from_end } => J::obj(vec![
                    ("sub_from", J::n(from as i64)),
                    ("sub_to", J::n(to as i64)),
                    ("from_end", J::Bool(from_end)),
                ]),
                ProjectionElem::Downcast(name, v) => J::obj(vec![
                    ("downcast", J::n(v.as_u32())),
                    (
                        "name",
                        match name {
                            Some(n) => J::s(n.as_str()),
                            None => J::Null,
                        },
                    ),
                ]),
                other => J::Str(format!("{:?}", other)),
            });
        }
        J::obj(vec![("l", J::n(p.local.as_u32())), ("proj", J::Arr(proj))])
    }

    fn konst(&self, c: &ConstOperand<'tcx>) -> J {
        let t = c.const_.ty();
        let mut o: Vec<(&'static str, J)> = vec![("k", J::s("const")), ("ty", J::Str(format!("{}", t)))];
        match t.kind() {
            ty::FnDef(did, args) => {
                o.push(("fn", J::s(&self.tcx.def_path_str(*did))));
                o.push(("fn_full", J::s(&self.tcx.def_path_str_with_args(*did, args))));
                let env = ty::TypingEnv::post_analysis(self.tcx, self.owner.to_def_id());
                if let Ok(Some(inst)) = ty::Instance::try_resolve(self.tcx, env, *did, args) {
                    o.push((
                        "resolved",
                        J::s(&self.tcx.def_path_str_with_args(inst.def_id(), inst.args)),
                    ));
                    o.push(("resolved_def", J::s(&self.tcx.def_path_str(inst.def_id()))));
                }
            }
            ty::Int(_) | ty::Uint(_) | ty::Bool | ty::Char => {
                let env = ty::TypingEnv::post_analysis(self.tcx, self.owner.to_def_id());
                if let Some(si) = c.const_.try_eval_scalar_int(self.tcx, env) {
                    let size = si.size();
                    let v = match t.kind() {
                        ty::Int(_) => si.to_int(size).to_string(),
                        _ => si.to_uint(size).to_string(),
                    };
                    o.push(("v", J::Str(v)));
                }
            }
            _ => {
                o.push(("repr", J::Str(format!("{}", c.const_))));
            }
        }
        J::obj(o)
    }

    fn operand(&self, op: &Operand<'tcx>) -> J {
        match op {
            Operand::Copy(p) => J::obj(vec![("k", J::s("copy")), ("p", self.place(p))]),
            Operand::Move(p) => J::obj(vec![("k", J::s("move")), ("p", self.place(p))]),
            Operand::Constant(c) => self.konst(c),
            other => J::obj(vec![("k", J::s("other")), ("repr", J::Str(format!("{:?}", other)))]),
        }
    }

    fn rvalue(&self, r: &Rvalue<'tcx>) -> J {
        match r {
            Rvalue::Use(op, _) => J::obj(vec![("r", J::s("Use")), ("op", self.operand(op))]),
            Rvalue::Repeat(op, _) => J::obj(vec![("r", J::s("Repeat")), ("op", self.operand(op))]),
            Rvalue::Ref(_, bk, p) => J::obj(vec![
                ("r", J::s("Ref")),
                ("mut", J::Bool(matches!(bk, BorrowKind::Mut { .. }))),
                ("p", self.place(p)),
            ]),
            Rvalue::RawPtr(_, p) => J::obj(vec![("r", J::s("RawPtr")), ("p", self.place(p))]),
            Rvalue::Cast(kind, op, t) => J::obj(vec![
                ("r", J::s("Cast")),
                ("kind", J::Str(format!("{:?}", kind))),
                ("op", self.operand(op)),
                ("from", J::Str(format!("{}", op.ty_of_local_decls(self)))),
                ("to", J::Str(format!("{}", t))),
            ]),
            Rvalue::BinaryOp(op, ab) => J::obj(vec![
                ("r", J::s("BinaryOp")),
                ("op", J::Str(format!("{:?}", op))),
                ("a", self.operand(&ab.0)),
                ("b", self.operand(&ab.1)),
            ]),
            Rvalue::UnaryOp(op, a) => J::obj(vec![
                ("r", J::s("UnaryOp")),
                ("op", J::Str(format!("{:?}", op))),
                ("a", self.operand(a)),
            ]),
            Rvalue::Discriminant(p) => J::obj(vec![("r", J::s("Discriminant")), ("p", self.place(p))]),
            Rvalue::Aggregate(kind, ops) => {
                let mut o: Vec<(&'static str, J)> = vec![("r", J::s("Aggregate"))];
                match &**kind {
                    AggregateKind::Adt(did, vidx, _, _, active) => {
                        let adt = self.tcx.adt_def(*did);
                        let v = adt.variant(*vidx);
                        o.push(("agg", J::s("Adt")));
                        o.push(("adt", J::s(&self.tcx.def_path_str(*did))));
                        o.push(("variant", J::s(v.name.as_str())));
                        let names: Vec<J> = if active.is_some() {
                            vec![]
                        } else {
                            v.fields.iter().map(|f| J::s(f.name.as_str())).collect()
                        };
                        o.push(("field_names", J::Arr(names)));
                    }
                    AggregateKind::Tuple => o.push(("agg", J::s("Tuple"))),
                    AggregateKind::Array(_) => o.push(("agg", J::s("Array"))),
                    AggregateKind::Closure(did, _) => {
                        o.push(("agg", J::s("Closure")));
                        o.push(("closure", J::s(&self.tcx.def_path_str(*did))));
                    }
                    other => {
                        o.push(("agg", J::Str(format!("{:?}", other))));
                    }
                }
                o.push(("ops", J::Arr(ops.iter().map(|x| self.operand(x)).collect())));
                J::obj(o)
            }
            Rvalue::CopyForDeref(p) => J::obj(vec![("r", J::s("CopyForDeref")), ("p", self.place(p))]),
            other => J::obj(vec![("r", J::s("Other")), ("repr", J::Str(format!("{:?}", other)))]),
        }
    }

    fn stmt(&self, s: &Statement<'tcx>) -> Option<J> {
        match &s.kind {
            StatementKind::Assign(b) => {
                let (p, r) = &**b;
                Some(J::obj(vec![
                    ("s", J::s("Assign")),
                    ("p", self.place(p)),
                    ("rv", self.rvalue(r)),
                    ("span", J::Str(span_str(self.tcx, s.source_info.span))),
                    ("exp", J::Bool(s.source_info.span.from_expansion())),
                ]))
            }
            StatementKind::SetDiscriminant { place, variant_index } => Some(J::obj(vec![
                ("s", J::s("SetDiscriminant")),
                ("p", self.place(place)),
                ("variant", J::n(variant_index.as_u32())),
            ])),
            _ => None,
        }
    }

    fn term(&self, t: &Terminator<'tcx>) -> J {
        let mut o: Vec<(&'static str, J)> = Vec::new();
        match &t.kind {
            TerminatorKind::Goto { target } => {
                o.push(("t", J::s("Goto")));
                o.push(("target", J::n(target.as_u32())));
            }
            TerminatorKind::SwitchInt { discr, targets } => {
                o.push(("t", J::s("SwitchInt")));
                o.push(("discr", self.operand(discr)));
                let mut cases = Vec::new();
                for (v, bb) in targets.iter() {
                    cases.push(J::Arr(vec![J::Str(v.to_string()), J::n(bb.as_u32())]));
                }
                o.push(("cases", J::Arr(cases)));
                o.push(("otherwise", J::n(targets.otherwise().as_u32())));
            }
            TerminatorKind::Return => o.push(("t", J::s("Return"))),
            TerminatorKind::Unreachable => o.push(("t", J::s("Unreachable"))),
            TerminatorKind::UnwindResume => o.push(("t", J::s("UnwindResume"))),
            TerminatorKind::UnwindTerminate(_) => o.push(("t", J::s("UnwindTerminate"))),
            TerminatorKind::Drop { place, target, unwind, .. } => {
                o.push(("t", J::s("Drop")));
                o.push(("p", self.place(place)));
                o.push(("target", J::n(target.as_u32())));
                if let UnwindAction::Cleanup(bb) = unwind {
                    o.push(("unwind", J::n(bb.as_u32())));
                }
            }
            TerminatorKind::Call { func, args, destination, target, unwind, .. } => {
                o.push(("t", J::s("Call")));
                o.push(("func", self.operand(func)));
                o.push(("args", J::Arr(args.iter().map(|a| self.operand(&a.node)).collect())));
                o.push(("dest", self.place(destination)));
                match target {
                    Some(bb) => o.push(("target", J::n(bb.as_u32()))),
                    None => o.push(("target", J::Null)),
                }
                if let UnwindAction::Cleanup(bb) = unwind {
                    o.push(("unwind", J::n(bb.as_u32())));
                }
            }
            TerminatorKind::TailCall { func, args, .. } => {
                o.push(("t", J::s("TailCall")));
                o.push(("func", self.operand(func)));
                o.push(("args", J::Arr(args.iter().map(|a| self.operand(&a.node)).collect())));
            }
            TerminatorKind::Assert { cond, expected, msg, target, unwind } => {
                o.push(("t", J::s("Assert")));
                o.push(("cond", self.operand(cond)));
                o.push(("expected", J::Bool(*expected)));
                let (kind, ops): (String, Vec<J>) = match &**msg {
                    AssertKind::BoundsCheck { len, index } => {
                        ("BoundsCheck".into(), vec![self.operand(len), self.operand(index)])
                    }
                    AssertKind::Overflow(op, a, b) => {
                        (format!("Overflow({:?})", op), vec![self.operand(a), self.operand(b)])
                    }
                    AssertKind::OverflowNeg(a) => ("OverflowNeg".into(), vec![self.operand(a)]),
                    AssertKind::DivisionByZero(a) => ("DivisionByZero".into(), vec![self.operand(a)]),
                    AssertKind::RemainderByZero(a) => ("RemainderByZero".into(), vec![self.operand(a)]),
                    other => (format!("{:?}", other).split('(').next().unwrap_or("Other").to_string(), vec![]),
                };
                o.push(("kind", J::Str(kind)));
                o.push(("ops", J::Arr(ops)));
                o.push(("target", J::n(target.as_u32())));
                if let UnwindAction::Cleanup(bb) = unwind {
                    o.push(("unwind", J::n(bb.as_u32())));
                }
            }
            TerminatorKind::FalseEdge { real_target, .. } => {
                o.push(("t", J::s("Goto")));
                o.push(("target", J::n(real_target.as_u32())));
            }
            TerminatorKind::FalseUnwind { real_target, .. } => {
                o.push(("t", J::s("Goto")));
                o.push(("target", J::n(real_target.as_u32())));
            }
            other => {
                o.push(("t", J::s("Other")));
                o.push(("repr", J::Str(format!("{:?}", other))));
            }
        }
        o.push(("span", J::Str(span_str(self.tcx, t.source_info.span))));
        o.push(("exp", J::Bool(t.source_info.span.from_expansion())));
        J::obj(o)
    }
}

// helper so that `op.ty_of_local_decls(self)` works for casts
trait OpTy<'tcx> {
    fn ty_of_local_decls(&self, m: &M<'tcx>) -> ty::Ty<'tcx>;
}
impl<'tcx> OpTy<'tcx> for Operand<'tcx> {
    fn ty_of_local_decls(&self, m: &M<'tcx>) -> ty::Ty<'tcx> {
        let body: &mir::Body<'tcx> = m.tcx.optimized_mir(m.owner.to_def_id());
        self.ty(&body.local_decls, m.tcx)
    }
}
