"""Fact extraction, caching and the report/evidence plumbing shared by all rules."""
import fcntl
import glob
import hashlib
import json
import os
import shutil
import subprocess
import sys
import time

VERIF = os.path.dirname(os.path.dirname(os.path.dirname(os.path.abspath(__file__))))
REPO = os.environ.get("SLX_REPO", "/repo")
WORK = os.path.join(VERIF, ".work")
DRIVER_DIR = os.path.join(VERIF, "engine", "driver")
DRIVER = os.path.join(DRIVER_DIR, "target", "debug", "slx-facts")
CRATE = "storage_layout_extractor"
PKG = "storage-layout-extractor"


def _run(cmd, **kw):
    return subprocess.run(cmd, stdout=subprocess.PIPE, stderr=subprocess.STDOUT, text=True, **kw)


def src_files(repo=None):
    repo = repo or REPO
    files = sorted(glob.glob(os.path.join(repo, "src", "**", "*.rs"), recursive=True))
    for extra in ("Cargo.toml", "Cargo.lock"):
        p = os.path.join(repo, extra)
        if os.path.exists(p):
            files.append(p)
    return files


def src_hash(repo=None):
    repo = repo or REPO
    h = hashlib.sha256()
    for f in src_files(repo):
        h.update(os.path.relpath(f, repo).encode())
        h.update(b"\0")
        with open(f, "rb") as fh:
            h.update(fh.read())
        h.update(b"\0")
    # the driver is part of the key: a rebuilt driver invalidates cached facts
    try:
        st = os.stat(DRIVER)
        h.update(str(int(st.st_mtime)).encode() + str(st.st_size).encode())
    except OSError:
        pass
    return h.hexdigest()[:20]


def nightly_sysroot():
    r = _run(["rustc", "+nightly", "--print", "sysroot"])
    return r.stdout.strip()


def build_driver():
    """Build the fact extractor (setup step; offline)."""
    env = dict(os.environ, CARGO_NET_OFFLINE="true")
    r = _run(["cargo", "build", "--offline"], cwd=DRIVER_DIR, env=env)
    if r.returncode != 0 or not os.path.exists(DRIVER):
        sys.stderr.write(r.stdout)
        raise SystemExit("slx: failed to build the fact extractor")


def extract(profile="dev", repo=None):
    """Run the rustc_private driver over the repo's *current* working tree and return
    the path of the fact file. Cached by the hash of the sources; a changed tree always
    re-extracts. Fails closed if no fresh fact file is produced."""
    repo = repo or REPO
    os.makedirs(WORK, exist_ok=True)
    if not os.path.exists(DRIVER):
        build_driver()
    key = src_hash(repo)
    out = os.path.join(WORK, f"facts-{profile}-{key}.json")
    lock_path = os.path.join(WORK, f"extract-{profile}.lock")
    with open(lock_path, "w") as lock:
        fcntl.flock(lock, fcntl.LOCK_EX)
        if os.path.exists(out) and os.path.getsize(out) > 1000:
            return out
        target = os.path.join(WORK, f"target-{profile}")
        # cargo's freshness cache would skip the wrapper: drop the member's fingerprints
        for sub in ("debug", "release"):
            for fp in glob.glob(os.path.join(target, sub, ".fingerprint", PKG + "-*")):
                shutil.rmtree(fp, ignore_errors=True)
        env = dict(os.environ)
        env.update(
            {
                "LD_LIBRARY_PATH": os.path.join(nightly_sysroot(), "lib"),
                "RUSTFLAGS": "-Zmir-opt-level=0 -Awarnings",
                "RUSTC_WORKSPACE_WRAPPER": DRIVER,
                "CARGO_TARGET_DIR": target,
                "CARGO_NET_OFFLINE": "true",
                "SLX_FACTS_OUT": out,
                "SLX_CRATE": CRATE,
            }
        )
        cmd = ["cargo", "+nightly", "check", "--offline", "--lib"]
        if profile == "release":
            cmd.append("--release")
        t0 = time.time()
        r = _run(cmd, cwd=repo, env=env)
        if r.returncode != 0 or not os.path.exists(out):
            sys.stderr.write(r.stdout[-6000:])
            raise SystemExit(
                f"slx: fact extraction failed (profile={profile}); the tree does not compile under the driver"
            )
        # keep the cache small
        olds = sorted(glob.glob(os.path.join(WORK, f"facts-{profile}-*.json")), key=os.path.getmtime)
        for o in olds[:-16]:
            if o != out:
                try:
                    os.remove(o)
                except OSError:
                    pass
        sys.stderr.write(f"slx: extracted facts ({profile}) in {time.time()-t0:.1f}s -> {os.path.basename(out)}\n")
    return out


_FACT_CACHE = {}


def load_facts(profile="dev", repo=None):
    from . import facts as F

    path = extract(profile, repo)
    if path not in _FACT_CACHE:
        with open(path) as fh:
            _FACT_CACHE[path] = F.Facts(json.load(fh), path)
    return _FACT_CACHE[path]


# --------------------------------------------------------------------------------------
# reporting


def load_known():
    p = os.path.join(VERIF, "known_findings.json")
    if not os.path.exists(p):
        return []
    with open(p) as fh:
        return json.load(fh).get("findings", [])




_IN_PROGRESS = set()


class Retag:
    """View of a Report that files everything a shared rule function reports under one rule id of the importing property."""

    def __init__(self, rep, rule):
        self.rep, self.rule = rep, rule

    def __getattr__(self, k):
        return getattr(self.rep, k)

    def oblige(self, ok, rule, key, where, msg, sample=None):
        return self.rep.oblige(ok, self.rule, key, where, msg, sample)

    def anchor(self, rule, ok, what):
        return self.rep.anchor(self.rule, ok, what)

    def floor(self, rule, count, minimum, what):
        return self.rep.floor(self.rule, count, minimum, what)

    def violation(self, rule, key, where, msg):
        return self.rep.violation(self.rule, key, where, msg)

    def inst(self, rule, desc, nontrivial=True, sample=None):
        return self.rep.inst(self.rule, desc, nontrivial, sample)


_IMPORT_CACHE = {}


def import_rules(rep, fx, source_prop, as_rule, only_rules=None, floor=1, what="", key_filter=None):
    """Re-evaluate another property's rules on the same facts and import their obligations under `as_rule` of this report
    (a necessary clause shared between two properties is checked by one implementation). Fails closed."""
    import importlib

    # properties import each other's rules (C14 <- C01 <- C14 ...): a property that is already being evaluated further up is not
    # evaluated again - its own run reports what it finds
    if source_prop in _IN_PROGRESS:
        return 0
    mod = importlib.import_module(f"slx.rules.{source_prop.lower()}")
    # one evaluation per (property, set of properties being evaluated above it) and process: the rules are deterministic on the facts
    ck = (id(fx), source_prop, frozenset(_IN_PROGRESS))
    r = _IMPORT_CACHE.get(ck)
    if r is None:
        r = Report(source_prop, "quick", 0)
        r.finish = lambda *a, **k: 0
        _IN_PROGRESS.add(source_prop)
        try:
            mod.check(fx, r, "quick")
        except Exception as e:
            _IN_PROGRESS.discard(source_prop)
            rep.oblige(False, as_rule, f"shared-engine:{source_prop}", "-", f"the rules shared with {source_prop} crashed: {e}")
            return 0
        _IN_PROGRESS.discard(source_prop)
        _IMPORT_CACHE[ck] = r
    bad = {}
    for v in r.violations:
        if (only_rules is None or v["rule"] in only_rules) and (key_filter is None or key_filter(v["key"])):
            bad.setdefault(v["key"], v)
    n = 0
    seen = set()
    for rule, keys in sorted(r.instances.items()):
        if only_rules is not None and rule not in only_rules:
            continue
        for key in keys:
            full = f"{rule}|{key}"
            if full in seen or (key_filter is not None and not key_filter(full)):
                continue
            seen.add(full)
            n += 1
            v = bad.pop(full, None)
            rep.oblige(v is None, as_rule, f"{rule}:{key}", v["where"] if v else "-", v["msg"] if v else "", sample={"rule": as_rule, "shared_with": f"{source_prop} {rule}", "instance": key} if n <= 2 else None)
    # violations without an instance record (anchors, floors)
    for full, v in bad.items():
        rep.oblige(False, as_rule, full.replace("|", ":"), v["where"], v["msg"])
    rep.floor(as_rule, n, floor, what or f"obligations shared with {source_prop}")
    return n


class Report:
    """Collects instances, violations and evidence for one property check."""

    def __init__(self, prop, tier, seed):
        self.prop = prop
        self.tier = tier
        self.seed = seed
        self.t0 = time.time()
        self.violations = []  # dicts: key, rule, where, msg
        self.instances = {}  # rule -> list of instance descriptions
        self.obligations = 0
        self.discharged = 0
        self.functions = set()
        self.call_sites = 0
        self.samples = []
        self.notes = []
        self.assumptions = []
        self.nontrivial = set()
        self.extra = {}
        self.exhaustive = None

    # -- recording -------------------------------------------------------------------
    def fn(self, name):
        self.functions.add(name)

    def inst(self, rule, desc, nontrivial=True, sample=None):
        self.instances.setdefault(rule, []).append(desc)
        if nontrivial:
            self.nontrivial.add((rule, desc))
        if sample is not None and len(self.samples) < 40:
            self.samples.append(sample)

    def oblige(self, ok, rule, key, where, msg, sample=None):
        """One obligation: discharged if ok, otherwise a violation."""
        self.obligations += 1
        self.inst(rule, key, sample=sample)
        if ok:
            self.discharged += 1
        else:
            self.violation(rule, key, where, msg)
        return ok

    def violation(self, rule, key, where, msg):
        self.violations.append({"rule": rule, "key": f"{rule}|{key}", "where": where, "msg": msg})

    def floor(self, rule, count, minimum, what):
        """Fail closed when a rule matched fewer instances than were confirmed by hand."""
        self.extra.setdefault("floors", {})[rule] = {"found": count, "floor": minimum, "what": what}
        if count < minimum:
            self.violation(
                rule,
                f"floor:{what}",
                "-",
                f"anchor lost: found {count} instance(s) of '{what}', expected at least {minimum}; the rule cannot be evaluated",
            )

    def anchor(self, rule, ok, what):
        if not ok:
            self.violation(rule, f"anchor:{what}", "-", f"anchor lost: {what}; the rule cannot be evaluated")
        return ok

    # -- finishing ---------------------------------------------------------------------
    def finish(self, explanation, rule_text, level_note_assumptions=()):
        if getattr(self, "deferred", False):
            self._finish_args = (explanation, rule_text, level_note_assumptions)
            return None
        return self._finish(explanation, rule_text, level_note_assumptions)

    def finish_now(self):
        args = getattr(self, "_finish_args", ("engine did not finish", "n/a", ()))
        return self._finish(*args)

    def _finish(self, explanation, rule_text, level_note_assumptions=()):
        known = [k for k in load_known() if k.get("property") == self.prop]
        known_keys = {k["key"]: k for k in known if k.get("status") == "finding"}
        new = []
        seen_known = []
        seen = set()
        for v in self.violations:
            if v["key"] in seen:
                continue
            seen.add(v["key"])
            if v["key"] in known_keys:
                seen_known.append(v)
            else:
                new.append(v)
        for v in seen_known:
            k = known_keys[v["key"]]
            print(f"KNOWN-FINDING: property={self.prop} {k.get('what', v['msg'])} [{v['key']}] at {v['where']}")
        evdir = os.environ.get("SLX_EVIDENCE_DIR") or os.path.join(VERIF, "evidence")
        vdir = os.path.join(evdir, "violations")
        os.makedirs(vdir, exist_ok=True)
        for i, v in enumerate(new):
            safe = hashlib.sha1(v["key"].encode()).hexdigest()[:10]
            path = os.path.join(vdir, f"{self.prop}-{safe}.json")
            with open(path, "w") as fh:
                json.dump({"property": self.prop, **v, "tier": self.tier}, fh, indent=1)
            print(f"  {v['rule']} {v['where']}: {v['msg']}  [key {v['key']}]")
            print(f"VIOLATION property={self.prop} replay={path}")
        n_inst = sum(len(v) for v in self.instances.values())
        cov = {
            "explanation": explanation,
            "rule": rule_text,
            "evaluations": max(n_inst, 1),
            "distinct_nontrivial": len(self.nontrivial),
            "functions_analysed": len(self.functions),
            "call_sites": self.call_sites,
            "rule_instances": {k: len(v) for k, v in sorted(self.instances.items())},
            "obligations": self.obligations,
            "discharged": self.discharged,
            "known_findings": len(seen_known),
            "samples": self.samples[:25] if self.samples else [{"note": "no instance"}],
            "checker_cmd": f"bin/check {self.prop} --tier {self.tier}",
            "trusted_base": [
                "rustc nightly front end (HIR/typeck/MIR) as the reader of /repo",
                "engine/driver fact dumper",
                "tables/*.tsv reviewed entries",
            ],
        }
        if self.exhaustive is not None:
            cov["exhaustive"] = self.exhaustive
        cov.update(self.extra)
        ev = {
            "property_id": self.prop,
            "tier": self.tier,
            "seed": self.seed,
            "level": "other",
            "coverage": cov,
            "assumptions": list(self.assumptions) + list(level_note_assumptions),
            "wall_s": round(time.time() - self.t0, 3),
            "violations": len(new),
        }
        os.makedirs(evdir, exist_ok=True)
        with open(os.path.join(evdir, f"{self.prop}.json"), "w") as fh:
            json.dump(ev, fh, indent=1)
        print(
            f"{self.prop}: {n_inst} instances over {len(self.instances)} rules, "
            f"{self.obligations} obligations ({self.discharged} discharged), "
            f"{len(seen_known)} known finding(s), {len(new)} violation(s)"
        )
        return 1 if new else 0
