"""Entry point: run the rules of one property against /repo's current working tree."""
import argparse
import importlib
import json
import os
import sys
import traceback

from . import core


def run(argv):
    ap = argparse.ArgumentParser()
    ap.add_argument("prop")
    ap.add_argument("--tier", default=os.environ.get("VERIF_TIER", "quick"))
    ap.add_argument("--replay", default=None)
    a = ap.parse_args(argv)
    prop = a.prop.upper()
    tier = a.tier if a.tier in ("quick", "thorough") else "quick"
    try:
        seed = int(os.environ.get("VERIF_SEED", "0"))
    except ValueError:
        seed = 0
    if prop == "SETUP":
        core.build_driver()
        core.extract("dev")
        print("setup ok")
        return 0
    try:
        mod = importlib.import_module(f"slx.rules.{prop.lower()}")
    except ModuleNotFoundError:
        print(f"no rules for {prop}")
        return 2
    rep = core.Report(prop, tier, seed)
    if a.replay:
        with open(a.replay) as fh:
            want = json.load(fh)
        print(f"replaying {want.get('key')} ({want.get('where')})")
    try:
        facts = core.load_facts("dev")
        rep.deferred = True
        facts.__dict__["touched"] = set()
        core._IN_PROGRESS.add(prop)
        mod.check(facts, rep, tier)
        core._IN_PROGRESS.discard(prop)
        for n in facts.__dict__.get("touched", ()):
            rep.fn(n)
        if tier == "thorough" and not os.environ.get("SLX_REPO"):
            from . import thorough

            thorough.extend(prop, mod, rep)
        rc = rep.finish_now()
    except SystemExit:
        raise
    except Exception:
        # fail closed: an engine crash is not a pass
        traceback.print_exc()
        rep.violation("engine", "crash", "-", "rule engine crashed: " + traceback.format_exc().splitlines()[-1])
        rep.deferred = False
        rc = rep.finish("engine crashed", "n/a")
    return rc
