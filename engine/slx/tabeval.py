"""Reading finite match tables out of the source.

A *table function* is a function (or a `match` expression) whose inputs range over a finite set of tokens — unit enum
variants, `None` / `Some(token)` — and whose body only tests them (==, match with literal / variant / or / wildcard /
binding patterns, `if`) and returns one of the inputs, a unit variant, `Some(..)` / `None`. Such code *is* a table; this module
reads the table by enumerating the finite input space and following the first matching arm. Anything outside that fragment
raises NotATable so that the rule fails closed instead of guessing.
"""
from . import facts as F


class NotATable(Exception):
    pass


class Ret(Exception):
    def __init__(self, v):
        self.v = v


NONE = ("none",)


def some(x):
    return ("some", x)


def variant(name):
    return ("v", name)


def match_pat(p, v, env):
    """Does value v match pattern p? Returns True/False; binds into env."""
    k = p.get("p")
    if k == "Wild":
        return True
    if k == "Bind":
        if "sub" in p and not match_pat(p["sub"], v, env):
            return False
        env[p["local"]] = v
        return True
    if k in ("Ref", "Deref"):
        return match_pat(p["sub"], v, env)
    if k == "Or":
        for q in p["pats"]:
            e2 = dict(env)
            if match_pat(q, v, e2):
                env.update(e2)
                return True
        return False
    if k == "Tuple":
        if not (isinstance(v, tuple) and v and v[0] == "tuple" and len(v[1]) == len(p["pats"])):
            raise NotATable("tuple pattern on non-tuple")
        return all(match_pat(q, x, env) for q, x in zip(p["pats"], v[1]))
    if k in ("Path", "Struct", "TupleStruct"):
        name = p.get("variant")
        if name == "None":
            return v == NONE
        if name == "Some":
            if v == NONE:
                return False
            if v[0] != "some":
                raise NotATable("Some pattern on non-option")
            subs = p.get("pats") or [f["pat"] for f in p.get("fields", [])]
            return match_pat(subs[0], v[1], env) if subs else True
        if v[0] == "v":
            return v[1] == name
        raise NotATable(f"variant pattern {name} on {v}")
    raise NotATable(f"pattern kind {k}")


def _strip_dt(e):
    while isinstance(e, dict) and e.get("k") in ("DropTemps", "Use"):
        e = e["e"]
    return e


def ev(e, env):
    k = e.get("k")
    if k in ("AddrOf", "Use", "Type"):
        return ev(e["e"], env)
    if k == "Unary":
        if e["op"] == "Deref":
            return ev(e["e"], env)
        if e["op"] == "Not":
            v = ev(e["e"], env)
            if isinstance(v, bool):
                return not v
        raise NotATable("unary")
    if k == "Path":
        if e.get("res") == "local":
            if e["local"] in env:
                return env[e["local"]]
            raise NotATable(f"unbound local {e.get('name')}")
        d = e.get("def") or ""
        last = d.split("::")[-1]
        if last == "None":
            return NONE
        if str(e.get("defkind", "")).startswith("Ctor") and "Const" in str(e.get("defkind")):
            return variant(last)
        raise NotATable(f"path {d}")
    if k == "Call":
        f = e["f"]
        d = (f.get("def") or "") if f.get("k") == "Path" else ""
        if d.split("::")[-1] == "Some" and len(e["args"]) == 1:
            return some(ev(e["args"][0], env))
        raise NotATable(f"call {d}")
    if k == "Tup":
        return ("tuple", tuple(ev(x, env) for x in e["elems"]))
    if k == "Binary" and e["op"] in ("Eq", "Ne"):
        l, r = ev(e["l"], env), ev(e["r"], env)
        return (l == r) if e["op"] == "Eq" else (l != r)
    if k == "Binary" and e["op"] in ("And", "Or"):
        l = ev(e["l"], env)
        if e["op"] == "And":
            return l and ev(e["r"], env)
        return l or ev(e["r"], env)
    if k == "DropTemps":
        return ev(e["e"], env)
    if k == "If" and isinstance(e.get("cond"), dict) and _strip_dt(e["cond"]).get("k") == "Let":
        # `if let PAT = EXPR { .. } else { .. }`
        c = _strip_dt(e["cond"])
        v = ev(c["init"], env)
        env2 = dict(env)
        if match_pat(c["pat"], v, env2):
            return ev(e["then"], env2)
        if "else" in e:
            return ev(e["else"], env)
        return ("unit",)
    if k == "If":
        c = ev(e["cond"], env)
        if not isinstance(c, bool):
            raise NotATable("non-boolean condition")
        if c:
            return ev(e["then"], env)
        if "else" in e:
            return ev(e["else"], env)
        return ("unit",)
    if k == "Block":
        env2 = dict(env)
        for s in e["block"]["stmts"]:
            if s.get("s") == "Let":
                if "init" not in s or "els" in s:
                    raise NotATable("let without init / let-else")
                v = ev(s["init"], env2)
                if not match_pat(s["pat"], v, env2):
                    raise NotATable("refutable let")
            elif s.get("s") == "Expr":
                ev(s["e"], env2)
        if "expr" in e["block"]:
            return ev(e["block"]["expr"], env2)
        return ("unit",)
    if k == "Ret":
        if "e" not in e:
            raise Ret(("unit",))
        try:
            v = ev(e["e"], env)
        except NotATable:
            v = ("opaque",)
        raise Ret(v)
    if k == "Match":
        v = ev(e["scrut"], env)
        for a in e["arms"]:
            env2 = dict(env)
            if match_pat(a["pat"], v, env2):
                if "guard" in a:
                    g = ev(a["guard"], env2)
                    if not isinstance(g, bool):
                        raise NotATable("non-boolean guard")
                    if not g:
                        continue
                return ev(a["body"], env2)
        raise NotATable("no arm matched")
    if k == "MethodCall" and e["method"] in ("clone", "copied", "cloned") and not e["args"]:
        return ev(e["recv"], env)
    if k == "MethodCall" and e["method"] in ("or", "and", "xor") and len(e["args"]) == 1:
        a, b = ev(e["recv"], env), ev(e["args"][0], env)
        if not ((a == NONE or a[0] == "some") and (b == NONE or b[0] == "some")):
            raise NotATable("Option combinator on non-options")
        if e["method"] == "or":
            return a if a != NONE else b
        if e["method"] == "and":
            return b if a != NONE else NONE
        return a if b == NONE else (b if a == NONE else NONE)
    if k == "MethodCall" and e["method"] in ("is_some", "is_none") and not e["args"]:
        a = ev(e["recv"], env)
        return (a != NONE) if e["method"] == "is_some" else (a == NONE)
    raise NotATable(f"expression kind {k}")


def eval_fn(body, args):
    """Evaluate a table function on token arguments (in parameter order)."""
    hir = body["hir"]
    env = {}
    for p, v in zip(hir["params"], args):
        if not match_pat(p, v, env):
            raise NotATable("parameter pattern")
    try:
        return ev(hir["value"], env)
    except Ret as r:
        return r.v


def eval_expr(e, env):
    try:
        return ev(e, env)
    except Ret as r:
        return ("return", r.v)


def eval_block_prefix(block_expr, env, want_local):
    """Run the statements of a block in order over `env`, skipping statements that are not table-like (their bindings stay
    unbound), and answer the value bound to `want_local` - or ("return", v) if the block leaves the function before that."""
    e = _strip_dt(block_expr)
    if e.get("k") != "Block":
        raise NotATable("not a block")
    env2 = dict(env)
    try:
        for s in e["block"]["stmts"]:
            if want_local in env2:
                break
            try:
                if s.get("s") == "Let" and "init" in s and "els" not in s:
                    v = ev(s["init"], env2)
                    match_pat(s["pat"], v, env2)
                elif s.get("s") == "Expr":
                    ev(s["e"], env2)
            except NotATable:
                continue
    except Ret as r:
        return ("return", r.v)
    if want_local not in env2:
        raise NotATable("the wanted local is never bound by a table-like statement")
    return env2[want_local]
