"""Semantic anchors in the virtual machine, shared by C03/C08/C13/C17."""
from . import facts as F
from . import terms as T

EXEC_ERR = "error::execution::Error"
JUMP_KINDS = {"InvalidOffsetForJump", "InvalidJumpTarget", "NonExistentJumpTarget", "NoConcreteJumpDestination"}
CONFIG = "vm::Config"
PERMISSIVE = "permissive_errors"
ERRORS_ADT = "error::container::Errors"
ADDERS = {"add", "add_located", "add_many", "add_many_located"}


class VMModel:
    def __init__(self, fx, cg=None):
        self.fx = fx
        self.cg = cg or F.CallGraph(fx)
        self.problems = []
        self.main_loop = None  # body containing the dyn Opcode::execute call in a loop
        self.exec_call = None
        self.advance = None  # body calling ExecutionThread::step
        self.opcode_execs = [b for i, b in fx.trait_method_bodies("opcode::Opcode", "execute")]
        for b in fx.fn_bodies():
            hir = b.get("hir")
            if not hir:
                continue
            for n, ps in F.calls(hir["value"]):
                cd = F.callee_def(n) or ""
                res = n.get("resolved") or ""
                if cd == "opcode::Opcode::execute" and "dyn " in res and F.in_loop(ps):
                    self.main_loop = b
                    self.exec_call = (n, ps)
                if cd.endswith("ExecutionThread::step") and b.get("impl_self") != "disassembly::ExecutionThread":
                    self.advance = b
        if self.main_loop is None:
            self.problems.append("no function calling `dyn Opcode::execute` inside a loop (the VM main loop)")
        if self.advance is None:
            self.problems.append("no function calling ExecutionThread::step (the VM advance function)")
        else:
            # the advance function is read together with the private methods of the VM it calls (retiring a thread, looking
            # the current thread up): a step of it that was moved into such a method is still a step of it
            self.advance_own = self.advance
            self.advance = F.inline_module_helpers(fx, self.advance, max_nodes=400, methods=True)
        # error-buffer wrappers: functions whose body is just `self.errors.add(param)`
        self.error_wrappers = set()
        for b in fx.fn_bodies():
            if b.get("impl_self") != "vm::VM":
                continue
            hir = b["hir"]
            sites = [n for n, ps in F.calls(hir["value"]) if self.is_buffer_add(n)]
            # a wrapper records its argument unconditionally; a helper that decides *whether* to record is analysed as
            # ordinary code (its recording sites are sites of their own)
            conditional = any(any(a.get("k") in ("If", "Match") and not a.get("exp") for a, _ in ps) for n, ps in F.calls(hir["value"]) if self.is_buffer_add(n))
            if sites and len(hir["params"]) == 2 and not conditional:
                p = hir["params"][1]
                if p.get("p") == "Bind":
                    for n in sites:
                        if any(F.local_of(a) == p["local"] for a in n["args"]):
                            self.error_wrappers.add(b["def"])

    def is_buffer_add(self, n):
        """A call adding to an execution-error buffer (Errors<Located<execution::Error>>)."""
        if n.get("k") != "MethodCall" or n["method"] not in ADDERS:
            return False
        rt = n.get("recv_ty") or ""
        return ERRORS_ADT in rt and EXEC_ERR in rt

    def buffer_writer_sites(self):
        """(body, call_node, parents, via) for every call that records an execution error in the VM's buffer."""
        out = []
        for b in self.fx.fn_bodies():
            hir = b.get("hir")
            if not hir:
                continue
            if b["def"] in self.error_wrappers:
                continue
            for n, ps in F.calls(hir["value"]):
                if self.is_buffer_add(n) and (b.get("impl_self") or "").startswith("vm::"):
                    out.append((b, n, ps, "direct"))
                else:
                    for l in self.cg.resolve_local(n):
                        if l in self.error_wrappers:
                            out.append((b, n, ps, "wrapper"))
        return out


def permissive_guard(ps, env=None):
    """How the node is guarded by the permissive flag: 'not-permissive', 'permissive' or None."""
    res = None
    for anc, key in ps:
        if anc.get("k") == "If" and key in ("then", "else"):
            pol = flag_polarity(anc["cond"])
            if pol is None:
                continue
            if key == "else":
                pol = not pol
            res = "permissive" if pol else "not-permissive"
        # match guard `if self.config.permissive_errors` on the arm
        if "pat" in anc and "body" in anc and key == "body" and "guard" in anc:
            pol = flag_polarity(anc["guard"])
            if pol is not None:
                res = "permissive" if pol else "not-permissive"
    return res


def flag_polarity(cond):
    """True if cond is `X.permissive_errors`, False if `!X.permissive_errors`, None if unrelated.
    Conjunctions are searched for a flag literal."""
    c = cond
    neg = False
    while c.get("k") == "Unary" and c.get("op") == "Not":
        neg = not neg
        c = c["e"]
    if c.get("k") == "Field" and c["field"] == PERMISSIVE and c.get("adt") == CONFIG:
        return not neg
    if c.get("k") == "MethodCall" and c["method"] == PERMISSIVE:
        return not neg
    if c.get("k") == "Binary" and c["op"] == "And":
        for side in (c["l"], c["r"]):
            p = flag_polarity(side)
            if p is not None:
                return p if not neg else None
    if c.get("k") == "Binary" and c["op"] in ("Eq", "Ne"):
        for a, b in ((c["l"], c["r"]), (c["r"], c["l"])):
            p = flag_polarity(a)
            if p is not None and b.get("k") == "Lit" and b["value"].get("lit") == "bool":
                v = b["value"]["v"]
                r = p if v else not p
                if c["op"] == "Ne":
                    r = not r
                return r if not neg else not r
    return None


def mentions_flag(node):
    for n, _ in F.walk(node):
        if n.get("k") == "Field" and n["field"] == PERMISSIVE and n.get("adt") == CONFIG:
            return True
    return False


def _lit_bool(n):
    n = F.strip(n)
    if n.get("k") == "Lit" and n["value"].get("lit") == "bool":
        return bool(n["value"]["v"])
    return None


def kind_filter(cond, all_kinds, fx=None, depth=0, adt=None, lets=None):
    """The set of execution-error kinds for which `cond` is true, or None if cond is not a pure test of the kind.
    Understands `matches!(e, A | B)` (a match with boolean arms), negation, || and &&, and calls of local predicate
    functions whose body is such a test (e.g. `Error::is_jump_target_error`)."""
    c = cond
    while True:
        k = c.get("k")
        if k == "DropTemps" or k == "Use" or k == "Type":
            c = c["e"]
        elif k == "Block" and not c["block"]["stmts"] and "expr" in c["block"]:
            c = c["block"]["expr"]
        else:
            break
    k = c.get("k")
    allk = set(all_kinds)
    if k == "Path" and c.get("res") == "local" and lets and c.get("local") in lets and depth < 6:
        # a let-bound test (`let is_x = matches!(..); if !is_x { .. }`)
        return kind_filter(lets[c["local"]], all_kinds, fx, depth + 1, adt, lets)
    if k == "Unary" and c.get("op") == "Not":
        r = kind_filter(c["e"], all_kinds, fx, depth, adt, lets)
        return None if r is None else allk - r
    if k == "Binary" and c.get("op") in ("Or", "And"):
        l = kind_filter(c["l"], all_kinds, fx, depth, adt, lets)
        r = kind_filter(c["r"], all_kinds, fx, depth, adt, lets)
        if l is None or r is None:
            return None
        return (l | r) if c["op"] == "Or" else (l & r)
    if k == "Match":
        covered, true = set(), set()
        saw_err = False
        for a in c["arms"]:
            if "guard" in a:
                return None
            pv = F.pat_variants(a["pat"])
            if pv:
                if not all(x == (adt or EXEC_ERR) for x, _ in pv):
                    return None
                saw_err = True
                ks = {v for _, v in pv} - covered
            else:
                ks = allk - covered
            val = _lit_bool(a["body"])
            if val is None:
                return None
            if val:
                true |= ks
            covered |= ks
        return true if saw_err else None
    if k in ("MethodCall", "Call") and fx is not None and depth < 2:
        d = F.callee_def(c)
        b = fx.body(d) if d else None
        if b is not None and b.get("hir") and (fx.fns.get(d, {}).get("output") or "").strip() == "bool":
            return kind_filter(b["hir"]["value"], all_kinds, fx, depth + 1, adt)
    return None


def _diverges(node):
    """Does this branch leave the function on every path (last statement / tail is a return)?"""
    n = node
    while n.get("k") == "Block":
        blk = n["block"]
        if "expr" in blk:
            n = blk["expr"]
        elif blk["stmts"]:
            last = blk["stmts"][-1]
            n = last.get("e") or {}
        else:
            return False
    if n.get("k") == "DropTemps":
        n = n["e"]
    return n.get("k") == "Ret"


def arm_kinds(ps, all_kinds, with_implied=False, fx=None):
    """Error kinds that can reach a node because of the enclosing match arms over execution::Error.
    Returns a set of variant names or None if unconstrained. With with_implied, also the subset of kinds that
    reach the node only when the permissive flag is off (they were intercepted by an earlier arm guarded by the flag)."""
    kinds = None
    implied = set()
    lets = {}
    if ps:
        for n_, _ in F.walk(ps[0][0]):
            if isinstance(n_, dict) and n_.get("s") == "Let" and "init" in n_ and n_.get("els") is None and isinstance(n_.get("pat"), dict) and n_["pat"].get("p") == "Bind" and (n_["pat"].get("ty") or "bool") == "bool":
                lets[n_["pat"]["local"]] = n_["init"]
    for i, (anc, key) in enumerate(ps):
        if "pat" in anc and "body" in anc and key == "body" and i > 0 and ps[i - 1][0].get("k") == "Match":
            m = ps[i - 1][0]
            pv = F.pat_variants(anc["pat"])
            if pv is not None and all(a == EXEC_ERR for a, _ in pv):
                kinds = {v for _, v in pv}
                implied = set()
            elif pv is None:
                # wildcard arm of a match that has EXEC_ERR arms: the complement of the *unguarded* arms before it
                covered = set()
                imp = set()
                is_err_match = False
                for a in m["arms"]:
                    if a is anc:
                        break
                    v = F.pat_variants(a["pat"])
                    if v and all(x == EXEC_ERR for x, _ in v):
                        is_err_match = True
                        if "guard" in a:
                            pol = flag_polarity(a["guard"])
                            if pol is True:
                                imp |= {y for _, y in v}
                        else:
                            covered |= {y for _, y in v}
                if is_err_match:
                    kinds = set(all_kinds) - covered
                    implied = imp & kinds
        # `if <kind test> { .. } else { .. }` around the node
        if anc.get("k") == "If" and key in ("then", "else"):
            f = kind_filter(anc["cond"], all_kinds, fx, 0, None, lets)
            if f is not None:
                f = f if key == "then" else set(all_kinds) - f
                kinds = f if kinds is None else kinds & f
        # an earlier `if <kind test> { return .. }` in the same block: only the other kinds get past it
        if "stmts" in anc and "k" not in anc and key in ("stmts", "expr"):
            nxt = ps[i + 1][0] if i + 1 < len(ps) else None
            before = anc["stmts"]
            if key == "stmts" and nxt is not None:
                idx = next((j for j, st in enumerate(anc["stmts"]) if st is nxt), len(anc["stmts"]))
                before = anc["stmts"][:idx]
            for st in before:
                e = st.get("e") if st.get("s") in ("Expr", "Semi") else None
                if e is not None and e.get("k") == "DropTemps":
                    e = e["e"]
                if e is not None and e.get("k") == "If" and "else" not in e and _diverges(e["then"]):
                    f = kind_filter(e["cond"], all_kinds, fx, 0, None, lets)
                    if f is not None:
                        f = set(all_kinds) - f
                        kinds = f if kinds is None else kinds & f
    if with_implied:
        return kinds, implied
    return kinds


def main_loop_err_arm(vm):
    """The Err arm of the match on the opcode's execute result in the main loop (or None)."""
    root = vm.main_loop["hir"]["value"]
    en, eps = vm.exec_call
    res_local = None
    for anc, key in reversed(eps):
        if anc.get("s") == "Let" and key == "init" and anc["pat"].get("p") == "Bind":
            res_local = anc["pat"]["local"]
            break
    for m, ps in F.exprs(root, "Match"):
        sc = m["scrut"]
        if (res_local is not None and F.local_of(sc) == res_local) or any(x is en for x, _ in F.walk(sc)):
            for a in m["arms"]:
                pv = F.pat_variants(a["pat"])
                if pv and any(v == "Err" for _, v in pv):
                    return a
    return None


def kills_unconditionally(body):
    """Does the thread get killed on every path of this arm body? (kill at top level, or in every arm of an inner
    exhaustive match)"""
    kills = [(n, ps) for n, ps in F.calls(body) if (F.callee_def(n) or "").endswith("kill_current_thread")]
    for n, ps in kills:
        if not any(a.get("k") in ("If", "Match", "Loop", "Closure") for a, _ in ps):
            return True, len(kills)
    if kills:
        for m, ps in F.exprs(body, "Match"):
            if any(a.get("k") in ("If", "Loop", "Closure") for a, _ in ps):
                continue
            if all(
                any((F.callee_def(c) or "").endswith("kill_current_thread") and not any(a.get("k") in ("If", "Match", "Loop", "Closure") for a, _ in cps) for c, cps in F.calls(a["body"]))
                for a in m["arms"]
            ):
                return True, len(kills)
    return False, len(kills)


# --------------------------------------------------------------------------------------------------------------------
# (error kind, permissive flag) evaluation: under which combinations does control reach a node?
# Three-valued: True / False / None (unknown).


def _and3(a, b):
    if a is False or b is False:
        return False
    if a is None or b is None:
        return None
    return True


def _or3(a, b):
    if a is True or b is True:
        return True
    if a is None or b is None:
        return None
    return False


def _not3(a):
    return None if a is None else (not a)


class KindFlagEval:
    """Evaluates conditions of one function body under an assignment (kind of the error being handled, value of the
    permissive flag). Conditions it does not understand evaluate to None."""

    def __init__(self, fx, root, all_kinds):
        self.fx = fx
        self.root = root
        self.all_kinds = list(all_kinds)
        self.mutated = T.mutated_locals(root)
        self.lets = {}
        for n, _ in F.walk(root):
            if n.get("s") == "Let" and n["pat"].get("p") == "Bind" and "init" in n and "els" not in n:
                self.lets.setdefault(n["pat"]["local"], n["init"])

    def ev(self, c, k, p, depth=0):
        if depth > 6 or not isinstance(c, dict):
            return None
        while c.get("k") in ("DropTemps", "Use", "Type") or (c.get("k") == "Block" and not c["block"]["stmts"] and "expr" in c["block"]):
            c = c["e"] if c.get("k") != "Block" else c["block"]["expr"]
        kk = c.get("k")
        if kk == "Lit" and c["value"].get("lit") == "bool":
            return bool(c["value"]["v"])
        if kk == "Field" and c["field"] == PERMISSIVE and c.get("adt") == CONFIG:
            return p
        if kk == "MethodCall" and c["method"] == PERMISSIVE:
            return p
        if kk == "Unary" and c.get("op") == "Not":
            return _not3(self.ev(c["e"], k, p, depth))
        if kk == "Binary" and c["op"] == "And":
            return _and3(self.ev(c["l"], k, p, depth), self.ev(c["r"], k, p, depth))
        if kk == "Binary" and c["op"] == "Or":
            return _or3(self.ev(c["l"], k, p, depth), self.ev(c["r"], k, p, depth))
        if kk == "Binary" and c["op"] in ("Eq", "Ne"):
            l, r = self.ev(c["l"], k, p, depth), self.ev(c["r"], k, p, depth)
            if l is None or r is None:
                return None
            return (l == r) if c["op"] == "Eq" else (l != r)
        if kk == "Match":
            sel = self.select_arm(c, k, p, depth)
            if sel is None:
                return None
            return self.ev(sel["body"], k, p, depth + 1)
        if kk == "If":
            cv = self.ev(c["cond"], k, p, depth)
            if cv is None:
                return None
            br = c["then"] if cv else c.get("else")
            return self.ev(br, k, p, depth + 1) if br is not None else None
        if kk == "Path" and c.get("res") == "local":
            lid = c.get("local")
            if lid in self.lets and lid not in self.mutated:
                return self.ev(self.lets[lid], k, p, depth + 1)
            return None
        if kk in ("MethodCall", "Call"):
            d = F.callee_def(c)
            b = self.fx.body(d) if d else None
            if b is not None and b.get("hir") and (self.fx.fns.get(d, {}).get("output") or "").strip() == "bool" and depth < 3:
                sub = KindFlagEval(self.fx, b["hir"]["value"], self.all_kinds)
                return sub.ev(b["hir"]["value"], k, p, depth + 2)
        return None

    def is_kind_match(self, m):
        return any((F.pat_variants(a["pat"]) or set()) and all(x == EXEC_ERR for x, _ in F.pat_variants(a["pat"])) for a in m["arms"])

    def select_arm(self, m, k, p, depth=0):
        """The arm a match over the error kind selects for (k, p), or None if unknown / not a kind match."""
        if not self.is_kind_match(m) or k is None:
            return None
        for a in m["arms"]:
            pv = F.pat_variants(a["pat"])
            if pv:
                if not all(x == EXEC_ERR for x, _ in pv):
                    return None
                hit = k in {v for _, v in pv}
            else:
                hit = True
            if not hit:
                continue
            if "guard" in a:
                g = self.ev(a["guard"], k, p, depth + 1)
                if g is None:
                    return None
                if not g:
                    continue
            return a
        return None

    def _try_inner_match(self, e):
        """`(match kind { A | B => Ok(x), _ => Err(x) })?` -> the inner match, else None."""
        while e.get("k") in ("DropTemps", "Use"):
            e = e["e"]
        if e.get("k") == "Match" and "TryDesugar" in str(e.get("source", "")):
            sc = e["scrut"]
            inner = sc["args"][0] if sc.get("k") == "Call" and sc.get("args") else None
            while inner is not None and inner.get("k") in ("DropTemps", "Use"):
                inner = inner["e"]
            if inner is not None and inner.get("k") == "Match" and self.is_kind_match(inner):
                return inner
        return None

    def reach(self, ps, node, k, p):
        """Does control reach `node` (with ancestor chain ps) when the handled error has kind k and the flag is p?"""
        val = True
        tk = T._span_key(node.get("span"))
        for i, (anc, key) in enumerate(ps):
            if not isinstance(anc, dict):
                continue
            if anc.get("k") == "If" and key in ("then", "else") and not anc.get("exp"):
                cv = self.ev(anc["cond"], k, p)
                val = _and3(val, cv if key == "then" else _not3(cv))
            if "pat" in anc and "body" in anc and key == "body" and i > 0 and ps[i - 1][0].get("k") == "Match":
                m = ps[i - 1][0]
                if self.is_kind_match(m):
                    sel = self.select_arm(m, k, p)
                    val = _and3(val, None if sel is None else (sel is anc))
            if "stmts" in anc and "k" not in anc:
                for st in anc["stmts"]:
                    sk = T._span_key(st.get("span") or (st.get("e") or {}).get("span"))
                    if not (tk and sk and sk[0] == tk[0] and sk[2] <= tk[1]):
                        continue
                    e = st.get("e") if st.get("s") == "Expr" else st.get("init") if st.get("s") == "Let" else None
                    if e is None:
                        continue
                    x = e
                    while x.get("k") in ("DropTemps", "Use"):
                        x = x["e"]
                    # earlier `if c { return / break / continue }`
                    if x.get("k") == "If" and "else" not in x and T.diverges(x["then"]):
                        val = _and3(val, _not3(self.ev(x["cond"], k, p)))
                    # earlier `(match kind {..=> Ok(..), ..=> Err(..)})?`
                    inner = self._try_inner_match(x)
                    if inner is not None:
                        sel = self.select_arm(inner, k, p)
                        if sel is None:
                            val = _and3(val, None)
                        else:
                            body = F.strip(sel["body"])
                            is_ok = body.get("k") == "Call" and (F.path_def(body["f"]) or "").endswith("Ok")
                            val = _and3(val, is_ok)
        return val


def tests_opcode_type(fx, body, ty):
    """Does `body` test a dynamic opcode for being exactly `ty`: `as_any().is::<ty>()` / `downcast_ref::<ty>()`, directly or
    through a local generic helper instantiated with `ty` whose body performs that test on its type parameter?"""
    from . import facts as F

    TESTS = ("downcast_ref", "is", "downcast", "downcast_mut")
    for c, _ in F.calls(body["hir"]["value"]):
        full = F.callee(c) or ""
        last = F.strip_generics(full).split("::")[-1]
        if ty in full and last in TESTS:
            return True
        if ty in full:
            hb = fx.body(F.strip_generics(full)) or fx.body(F.callee_def(c) or "")
            if hb is not None and hb.get("hir") and any(F.strip_generics(F.callee(c2) or "").split("::")[-1] in TESTS for c2, _ in F.calls(hb["hir"]["value"])):
                return True
    return False
