"""Thorough tier: a second extraction under the release profile's cfg, the type-level witnesses, and the checker's own
self-test (firing mutants / silent benign variants) for the property. Runs only against /repo itself."""
import glob
import json
import os
import re
import subprocess
import time

from . import core

RELEASE_PROPS = {"C01", "C09", "C10", "C18"}
WITNESSES = {
    "C18": ["SizeIsPrivate", "NoStructLiteral"],
    "C12": ["LayoutSlotsPrivate"],
    "C02": ["LayoutSlotsPrivate"],
    "C19": ["VectorMapSizePrivate"],
    "C03": ["InstructionPointerPrivate"],
    "C08": ["InstructionPointerPrivate"],
    "C13": ["ExtractorTypestate"],
}


def run_release(prop, mod, rep):
    t0 = time.time()
    fx = core.load_facts("release")
    r2 = core.Report(prop, "thorough", rep.seed)
    r2.deferred = True
    mod.check(fx, r2, "thorough")
    seen = {v["key"] for v in rep.violations}
    extra = 0
    for v in r2.violations:
        if v["key"] not in seen:
            v = dict(v)
            v["msg"] = "[release profile] " + v["msg"]
            rep.violations.append(v)
            extra += 1
    rep.extra["release_profile"] = {
        "debug_assertions": fx.debug_assertions,
        "obligations": r2.obligations,
        "discharged": r2.discharged,
        "violations_only_in_release": extra,
        "wall_s": round(time.time() - t0, 1),
    }
    rep.obligations += r2.obligations
    rep.discharged += r2.discharged


def run_witnesses(prop, rep):
    names = WITNESSES.get(prop)
    if not names:
        return
    wdir = os.path.join(core.VERIF, "witness")
    lock = os.path.join(core.REPO, "Cargo.lock")
    try:
        import shutil

        shutil.copy(lock, os.path.join(wdir, "Cargo.lock"))
    except OSError:
        pass
    env = dict(os.environ, CARGO_NET_OFFLINE="true")
    r = subprocess.run(["cargo", "+nightly", "test", "--doc", "--offline"], cwd=wdir, env=env, stdout=subprocess.PIPE, stderr=subprocess.STDOUT, text=True)
    out = r.stdout
    res = {}
    for line in out.splitlines():
        m = re.match(r"test src/lib.rs - (\w+) \(line \d+\)( - compile fail)? \.\.\. (\w+)", line)
        if m:
            res.setdefault(m.group(1), []).append((bool(m.group(2)), m.group(3)))
    for n in names:
        got = res.get(n, [])
        cf = [x for x in got if x[0]]
        twin = [x for x in got if not x[0]]
        ok = bool(cf) and bool(twin) and all(x[1] == "ok" for x in got)
        rep.oblige(
            ok,
            "witness",
            f"witness:{n}",
            "witness/src/lib.rs",
            f"type-level witness `{n}` no longer holds ({got or 'did not run'}): an encapsulation boundary the in-crate who-may-write rules rely on is open to external code",
            sample={"rule": "witness", "name": n, "compile_fail": [x[1] for x in cf], "compiling_twin": [x[1] for x in twin]},
        )


def run_selftest(prop, rep):
    base = os.path.join(core.VERIF, "selftest")
    muts = sorted(glob.glob(os.path.join(base, "mutants", f"{prop}-*.patch"))) + sorted(glob.glob(os.path.join(core.VERIF, "seeded", f"{prop}-*", "patch.diff")))
    benign = sorted(glob.glob(os.path.join(base, "benign", f"{prop}-*.patch")))
    wp = os.path.join(core.VERIF, "bin", "with-patch")
    detected, missed, silent, noisy = [], [], [], []
    env = dict(os.environ, VERIF_TIER="quick")
    for p in muts:
        r = subprocess.run([wp, p, prop], env=env, stdout=subprocess.PIPE, stderr=subprocess.STDOUT, text=True)
        name = os.path.relpath(p, core.VERIF)
        if "VIOLATION property=" in r.stdout and r.returncode != 0 and "patch failed" not in r.stdout and "fact extraction failed" not in r.stdout:
            rules = sorted(set(re.findall(r"^  (R\d+\.\d+|witness|engine)", r.stdout, re.M)))
            detected.append({"change": name, "rules": rules})
        else:
            missed.append(name)
    for p in benign:
        r = subprocess.run([wp, p, prop], env=env, stdout=subprocess.PIPE, stderr=subprocess.STDOUT, text=True)
        name = os.path.relpath(p, core.VERIF)
        if r.returncode == 0 and "VIOLATION" not in r.stdout:
            silent.append(name)
        else:
            noisy.append(name)
    rep.extra["selftest"] = {
        "breaking_changes": len(muts),
        "detected": len(detected),
        "missed": missed,
        "benign_variants": len(benign),
        "silent": len(silent),
        "false_alarms": noisy,
        "details": detected,
    }
    for m in missed:
        print(f"SELFTEST-MISS property={prop} {m} (a recorded breaking change is not detected by this check)")
    for n in noisy:
        print(f"SELFTEST-NOISE property={prop} {n} (a behaviour-preserving variant raises an alarm)")


def extend(prop, mod, rep):
    if prop in RELEASE_PROPS:
        run_release(prop, mod, rep)
    run_witnesses(prop, rep)
    run_selftest(prop, rep)
