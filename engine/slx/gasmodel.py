"""Static evaluation of `Opcode::min_gas_cost` for every byte of the disassembler's table: the opcode type built for the byte
(and its field values, linear in the byte) is read from the byte table, the method body is evaluated over literals, named
constants, fields of self, arithmetic and matches on literals. Returns {byte: int | None}."""
from . import facts as F
from . import terms as T
from .disasm import DisasmModel, Lin, impl_method


def _ev(e, fields, fx, self_local, depth=0):
    if e is None or depth > 12:
        return None
    e = F.strip(e)
    k = e.get("k")
    if k == "Block":
        blk = e["block"]
        if blk.get("stmts"):
            return None
        return _ev(blk.get("expr"), fields, fx, self_local, depth + 1)
    if k == "Lit":
        v = e.get("value", {})
        if v.get("lit") == "int":
            try:
                return int(v["v"])
            except (TypeError, ValueError):
                return None
        return None
    if k == "Path":
        if e.get("res") == "local":
            return fields.get(("$local", e.get("local")))
        d = F.path_def(e)
        if d:
            return fx.const_value(d)
        return None
    if k == "Field":
        if F.local_of(F.strip(e["e"])) == self_local:
            return fields.get(e["field"])
        return None
    if k in ("Cast", "Unary") and "e" in e:
        if k == "Unary" and e.get("op") != "Deref":
            return None
        return _ev(e["e"], fields, fx, self_local, depth + 1)
    if k == "Binary":
        l, r = _ev(e["l"], fields, fx, self_local, depth + 1), _ev(e["r"], fields, fx, self_local, depth + 1)
        if l is None or r is None:
            return None
        op = e["op"]
        if op == "Add":
            return l + r
        if op == "Sub":
            return l - r
        if op == "Mul":
            return l * r
        return None
    if k in ("Call", "MethodCall"):
        name = e["method"] if k == "MethodCall" else (F.callee_def(e) or "").split("::")[-1]
        args = ([e["recv"]] if k == "MethodCall" else []) + list(e.get("args", []))
        if name in ("from", "into", "try_from", "try_into", "unwrap", "expect", "clone") and args:
            return _ev(args[0], fields, fx, self_local, depth + 1)
        return None
    if k == "Match":
        sv = _ev(e["scrut"], fields, fx, self_local, depth + 1)
        if sv is None:
            return None
        def lit_of(x):
            try:
                return int(x["v"]) if isinstance(x, dict) and "v" in x else (int(x["value"]["v"]) if isinstance(x, dict) and "value" in x else None)
            except (TypeError, ValueError, KeyError):
                return None

        def matches(p, bound):
            kind = p.get("p")
            if kind == "Lit":
                return str(p["value"].get("v")) == str(sv)
            if kind == "Range":
                lo, hi = lit_of(p.get("lo")), lit_of(p.get("hi"))
                if lo is None or hi is None:
                    return None
                return lo <= sv <= hi if p.get("inclusive") else lo <= sv < hi
            if kind == "Wild":
                return True
            if kind == "Bind":
                sub = p.get("sub")
                ok = True if sub is None else matches(sub, bound)
                if ok:
                    bound[("$local", p.get("local"))] = sv
                return ok
            return None

        for a in e["arms"]:
            pats = a["pat"]["pats"] if a["pat"].get("p") == "Or" else [a["pat"]]
            for p in pats:
                bound = {}
                m = matches(p, bound)
                if m is None:
                    return None
                if m and a.get("guard") is None:
                    return _ev(a["body"], {**fields, **bound} if bound else fields, fx, self_local, depth + 1)
                if m:
                    return None
        return None
    return None


def gas_by_byte(fx):
    dm = DisasmModel(fx)
    if not dm.ok:
        return None, dm.problems
    lin = Lin(fx, {dm.byte_local})
    out = {}
    push_type = None
    match_ids = {id(x) for x, _ in F.walk(dm.match)}
    for t, e in dm.ctors_in(dm.fn["hir"]["value"]):
        if id(e) not in match_ids and t.endswith("PushN"):
            push_type = t

    def cost(t, fields):
        impl = dm.optypes.get(t)
        body = impl_method(fx, impl, "min_gas_cost") if impl else None
        if body is None:
            return None
        ps = body["hir"]["params"]
        self_local = ps[0].get("local") if ps else None
        return _ev(body["hir"]["value"], fields, fx, self_local)

    for a in dm.arms:
        bs = a["bytes"]
        if not bs:
            continue
        ctors = a["ctors"]
        types = sorted({t for t, _ in ctors})
        if not ctors:
            for x in bs:
                out[x] = cost(push_type, {}) if push_type else None
            continue
        if len(types) != 1:
            for x in bs:
                out[x] = None
            continue
        t = types[0]
        lf = dm.ctor_fields(t, ctors[0][1], lin)
        for x in bs:
            fields = {}
            for k, v in (lf or {}).items():
                if v is not None:
                    fields[k[1]] = v[0] * x + v[1]
            out[x] = cost(t, fields)
    return out, []
