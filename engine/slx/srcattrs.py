"""Derive-helper attributes (#[serde(..)], #[derivative(..)]) are not kept in HIR by this compiler version,
so they are read from the item's source text: the attribute lines above the item header and, inside the item's
braces, the attributes attached to each field / variant."""
import os
import re

from . import core
from .facts import line_of


def _read(path, repo=None):
    p = os.path.join(repo or core.REPO, path)
    with open(p) as fh:
        return fh.read().split("\n")


def item_attrs(span, repo=None):
    """(outer_attrs, members) where members maps field/variant name -> [attr text] for the item whose header
    span is given. Nested braces (struct-like variants) are handled: fields of variants are keyed 'Variant.field'."""
    path, line, _ = line_of(span)
    lines = _read(path, repo)
    i = line - 1
    # outer attributes: walk upwards over attribute / doc / blank-free lines
    outer = []
    j = i - 1
    buf = []
    while j >= 0:
        s = lines[j].strip()
        if s.startswith("///") or s.startswith("//"):
            j -= 1
            continue
        if s.startswith("#[") or (buf and not s.startswith("#[") and s and not s.endswith("]") and False):
            outer.append(s)
            j -= 1
            continue
        if s.endswith(")]") or s.endswith("]") and outer is not None and s and not s.startswith("pub") and not s.startswith("}"):
            # continuation line of a multi-line attribute: collect until its opening
            k = j
            chunk = [s]
            while k >= 0 and not lines[k].strip().startswith("#["):
                k -= 1
                chunk.append(lines[k].strip())
            if k >= 0:
                outer.append(" ".join(reversed(chunk)))
                j = k - 1
                continue
        break
    # body
    text = "\n".join(lines[i:])
    start = text.find("{")
    semi = text.find(";")
    members = {}
    if start == -1 or (semi != -1 and semi < start):
        return outer, members
    depth = 0
    cur_variant = None
    pending = []
    token = re.compile(r"#\[[^\]]*\]|\{|\}|//[^\n]*|\"(?:[^\"\\]|\\.)*\"|[A-Za-z_][A-Za-z0-9_]*|\s+|.", re.S)
    prev_tok = None
    last_ident_d1 = None
    paren = 0
    angle = 0
    for m in token.finditer(text, start):
        tk = m.group(0)
        if tk.startswith("//") or tk.isspace():
            continue
        if tk.startswith("#["):
            pending.append(re.sub(r"\s+", " ", tk))
            prev_tok = "#attr"
            continue
        if tk == "{":
            depth += 1
            if depth == 2:
                cur_variant = last_ident_d1
            prev_tok = tk
            continue
        if tk == "}":
            depth -= 1
            if depth == 1:
                cur_variant = None
            prev_tok = tk
            if depth == 0:
                break
            continue
        if tk == "(":
            paren += 1
        elif tk == ")":
            paren -= 1
        elif tk == "<":
            angle += 1
        elif tk == ">":
            angle = max(0, angle - 1)
        if re.match(r"[A-Za-z_]", tk) and paren == 0 and angle == 0:
            if tk in ("pub", "crate", "in", "super", "self"):
                prev_tok = "pub"
                continue
            at_member = prev_tok in ("{", ",", "#attr", "pub", "}")
            if at_member and depth in (1, 2):
                key = tk if depth == 1 else f"{cur_variant}.{tk}"
                if key not in members:
                    members[key] = pending
                pending = []
                if depth == 1:
                    last_ident_d1 = tk
        prev_tok = tk
    return outer, members
