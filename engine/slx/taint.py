"""Forward may-taint analysis over MIR for attacker-scaled native integers (C01 R01.2 / R01.4).

Sources   : narrowing of 256-bit words to native integers (ethnum as_*; the crate's From<KnownWord> impls get their taint
            through summaries because their bodies call as_*).
Propagation: moves, copies, casts, arithmetic, references, std aggregates (tuples / Option / Result / Range), fields of crate
            ADTs (field-based, context-insensitive), call arguments -> parameters and returns through per-function summaries,
            dyn / generic trait calls expanded to all impls.
Sanitizers: Ord::min / clamp with a clean bound, `% clean`, `& clean-constant`, len()/count(), checked conversion to a narrower
            integer (try_from to u8/u16/u32), Option::filter with a comparing closure, and a dominating comparison `x < clean` on
            the edge that reaches the sink.
Sinks     : overflow-checked + - * (Assert Overflow) with a tainted operand, allocation sizes, range bounds of loops.
Stated assumption: native integers that count objects in memory or work done (lengths, counters, offsets bounded by the u32 code
            length, gas sums) cannot reach usize::MAX; usize is 64 bits.
"""
from collections import defaultdict

from . import facts as F

NARROW_SRC = ("as_u8", "as_u16", "as_u32", "as_u64", "as_u128", "as_usize", "as_i8", "as_i16", "as_i32", "as_i64", "as_i128", "as_isize")
CLEAN_RESULT = {"len", "count", "capacity", "size_of", "size_of_val", "align_of", "leading_zeros", "trailing_zeros", "count_ones", "count_zeros", "is_empty", "is_some", "is_none", "is_ok", "is_err", "eq", "ne", "lt", "le", "gt", "ge", "cmp", "partial_cmp", "contains", "contains_key", "starts_with", "ends_with", "type_id"}
STD_AGG = ("std::option::Option", "std::result::Result", "std::ops::Range", "std::ops::RangeInclusive", "std::ops::RangeFrom", "std::ops::RangeTo", "std::iter::StepBy", "std::iter::Enumerate", "std::ops::ControlFlow")
ALLOC_SINKS = {"with_capacity": 0, "from_elem": 1, "resize": 1, "reserve": 1, "reserve_exact": 1, "repeat": 1, "resize_with": 1}
CMP = {"Lt", "Le", "Gt", "Ge"}


def strip_ty(t):
    t = (t or "").strip()
    while True:
        if t.startswith("&mut "):
            t = t[5:]
        elif t.startswith("&"):
            t = t[1:].lstrip()
            if t.startswith("'"):
                t = t.split(" ", 1)[1] if " " in t else t
        else:
            break
    return t


def adt_of(ty, fx):
    t = strip_ty(ty)
    for wrap in ("std::boxed::Box<", "std::sync::Arc<", "std::rc::Rc<"):
        if t.startswith(wrap):
            t = t[len(wrap) : -1]
    name = t.split("<")[0]
    return name if name in fx.adts else None


def is_int_ty(t):
    return strip_ty(t) in ("usize", "u64", "u32", "u16", "u8", "u128", "isize", "i64", "i32", "i16", "i8", "i128")


class Taint:
    def __init__(self, fx, cg, bodies):
        self.fx, self.cg = fx, cg
        self.names = [n for n in sorted(bodies) if fx.mir(n) is not None]
        self.mirs = {n: fx.mir(n) for n in self.names}
        self.tl = defaultdict(set)  # body -> tainted locals
        self.tf = set()  # (adt, variant, field)
        self.tret = set()  # bodies whose return is tainted
        self.why = {}  # (body, local) -> origin description
        self.sources = []
        self.norm = {F.strip_generics(k): k for k in fx.bodies}
        self._copy_root = {}
        self.sanitized_calls = 0

    # ---------------------------------------------------------------------------------
    def field_key(self, cur_ty, variant_idx, fidx):
        a = adt_of(cur_ty, self.fx)
        if a is None:
            return None
        adt = self.fx.adts[a]
        vs = adt["variants"]
        v = vs[variant_idx] if variant_idx is not None and variant_idx < len(vs) else vs[0]
        if fidx < len(v["fields"]):
            return (a, v["name"], v["fields"][fidx]["name"])
        return None

    def place_tainted(self, name, p):
        m = self.mirs[name]
        l = p["l"]
        if l in self.tl[name]:
            return True
        cur = m.ty(l)
        variant = None
        for e in p["proj"]:
            if e == "*":
                cur = strip_ty(cur)
                for wrap in ("std::boxed::Box<",):
                    if cur.startswith(wrap):
                        cur = cur[len(wrap) : -1]
                continue
            if isinstance(e, dict) and "downcast" in e:
                variant = e["downcast"]
                continue
            if isinstance(e, dict) and "f" in e:
                k = self.field_key(cur, variant, e["f"])
                if k is not None and k in self.tf:
                    return True
                cur = e["ty"]
                variant = None
                continue
            if isinstance(e, dict) and "idx" in e:
                # element of a tainted container is handled by whole-local taint above
                continue
        return False

    def op_tainted(self, name, op):
        if op.get("k") in ("copy", "move"):
            return self.place_tainted(name, op["p"])
        return False

    def carrier(self, ty):
        """Can a value of this type carry a native integer directly (ints, references to ints, std wrappers / tuples of ints)?
        Values of crate ADTs are tracked field by field instead; collections and symbolic values are never tainted wholesale."""
        import re

        t = strip_ty(ty)
        if is_int_ty(t):
            return True
        if t.startswith(("std::option::Option<", "std::result::Result<", "std::ops::Range", "std::iter::", "(", "std::ops::ControlFlow<", "std::num::", "[")):
            return bool(re.search(r"(?<![A-Za-z0-9_])(usize|u64|u128|isize|i64|i128)(?![A-Za-z0-9_])", t))
        return False

    def op_tainted_at(self, name, op, block):
        """Taint of an operand at a program point: a tainted local that a dominating comparison bounds on this side is clean."""
        if not self.op_tainted(name, op):
            return False
        l = F.op_local(op)
        if l is not None and self.guarded(name, l, block):
            return False
        return True

    def taint_local(self, name, l, why):
        if not self.carrier(self.mirs[name].ty(l)):
            return False
        if l not in self.tl[name]:
            self.tl[name].add(l)
            self.why[(name, l)] = why
            return True
        return False

    def taint_place(self, name, p, why):
        """Assign taint to a place: whole local if no projection (or std aggregate), else the crate ADT field."""
        m = self.mirs[name]
        if not p["proj"]:
            return self.taint_local(name, p["l"], why)
        cur = m.ty(p["l"])
        variant = None
        key = None
        for e in p["proj"]:
            if e == "*":
                cur = strip_ty(cur)
                continue
            if isinstance(e, dict) and "downcast" in e:
                variant = e["downcast"]
                continue
            if isinstance(e, dict) and "f" in e:
                key = self.field_key(cur, variant, e["f"])
                cur = e["ty"]
                variant = None
        if key is not None:
            if key not in self.tf:
                self.tf.add(key)
                self.why[("field", key)] = why
                return True
            return False
        return self.taint_local(name, p["l"], why)

    # ---------------------------------------------------------------------------------
    def resolve(self, term):
        """Crate-local bodies a call terminator may dispatch to."""
        f = term["func"]
        if f.get("k") != "const":
            return []
        for cand in (f.get("resolved"), f.get("fn_full"), f.get("resolved_def"), f.get("fn")):
            if not cand:
                continue
            if cand in self.fx.bodies:
                return [cand]
            s = F.strip_generics(cand)
            if s in self.norm:
                return [self.norm[s]]
        res = f.get("resolved")
        if res:
            import re

            mi = re.match(r"^<(.+) as std::convert::Into<(.+)>>::into$", res)
            if mi:
                res = f"<{mi.group(2)} as std::convert::From<{mi.group(1)}>>::from"
            mi = re.match(r"^<(.+) as std::convert::TryInto<(.+)>>::try_into$", res)
            if mi:
                res = f"<{mi.group(2)} as std::convert::TryFrom<{mi.group(1)}>>::try_from"
            mth = self.cg._impl_method(res)
            if isinstance(mth, tuple):
                return list(self.cg.dyn_impls.get(mth[1], []))
            if mth and mth != "ext":
                return [mth]
            return []
        gen = f.get("fn")
        if gen in self.cg.dyn_impls:
            return list(self.cg.dyn_impls[gen])
        return []

    def closure_of_operand(self, name, op):
        """Def path of the closure an operand denotes (constant closure or a local built by a Closure aggregate)."""
        m = self.mirs[name]
        if op.get("k") == "const":
            ty = op.get("ty", "")
            if "{closure@" in ty:
                return ty
            return None
        l = F.op_local(op)
        if l is None:
            return None
        for d in m.defs().get(l, []):
            if d[0] == "assign" and d[3].get("r") == "Aggregate" and d[3].get("agg") == "Closure":
                return d[3].get("closure")
        return None

    def closure_compares(self, cdef):
        b = self.fx.body(cdef) if cdef else None
        if b is None:
            # closure paths in types look like `{closure@src/..}`; match by span text
            return False
        m = self.fx.mir(cdef)
        if m is None:
            return False
        for bl in m.blocks:
            for s in bl["stmts"]:
                if s["s"] == "Assign" and s["rv"].get("r") == "BinaryOp" and s["rv"]["op"] in CMP:
                    return True
        return False

    # ---------------------------------------------------------------------------------
    def step_body(self, name):
        m = self.mirs[name]
        changed = False
        for bl in m.blocks:
            if bl["cleanup"]:
                continue
            for s in bl["stmts"]:
                if s["s"] != "Assign":
                    continue
                rv = s["rv"]
                r = rv.get("r")
                t = False
                why = None
                if r in ("Use", "Repeat"):
                    t = self.op_tainted_at(name, rv["op"], bl["i"])
                elif r == "Cast":
                    t = self.op_tainted_at(name, rv["op"], bl["i"])
                    to = rv.get("to", "")
                    if t and strip_ty(to) in ("u8", "u16", "u32", "i8", "i16", "i32", "bool", "char"):
                        t = False  # a value squeezed into <= 32 bits cannot overflow 64-bit arithmetic by itself
                elif r == "BinaryOp":
                    op = rv["op"]
                    a, b = self.op_tainted_at(name, rv["a"], bl["i"]), self.op_tainted_at(name, rv["b"], bl["i"])
                    base = op.replace("WithOverflow", "").replace("Unchecked", "")
                    if base in ("Eq", "Ne", "Lt", "Le", "Gt", "Ge", "Cmp"):
                        t = False
                    elif base == "Rem":
                        t = b  # x % clean is bounded by clean
                    elif base == "BitAnd":
                        t = a and b
                    elif base in ("Shr", "Div"):
                        t = a
                    else:
                        t = a or b
                elif r == "UnaryOp":
                    t = self.op_tainted_at(name, rv["a"], bl["i"])
                elif r in ("Ref", "RawPtr", "CopyForDeref"):
                    t = self.place_tainted(name, rv["p"])
                elif r == "Aggregate":
                    agg = rv.get("agg")
                    ops = rv["ops"]
                    if agg == "Adt" and rv.get("adt") in self.fx.adts:
                        names = rv.get("field_names", [])
                        for i, o in enumerate(ops):
                            if self.op_tainted_at(name, o, bl["i"]) and i < len(names):
                                key = (rv["adt"], rv["variant"], names[i])
                                if key not in self.tf:
                                    self.tf.add(key)
                                    self.why[("field", key)] = f"{name}: stored into {rv['adt']}::{rv['variant']}.{names[i]}"
                                    changed = True
                        t = False
                    elif agg == "Closure":
                        t = False
                    else:
                        t = any(self.op_tainted_at(name, o, bl["i"]) for o in ops)
                if t:
                    if self.taint_place(name, s["p"], why or f"{name}: {F.loc(s['span'])}"):
                        changed = True
            term = bl["term"]
            if term["t"] != "Call":
                continue
            f = term["func"]
            gen = (f.get("fn") or "") if f.get("k") == "const" else ""
            last = F.strip_generics(gen).split("::")[-1]
            args = term["args"]
            arg_t = [self.op_tainted_at(name, a, bl["i"]) for a in args]
            dest_t = False
            why = None
            locs = self.resolve(term)
            full = (f.get("fn_full") or "") + " " + (f.get("resolved") or "") + " " + gen
            small = ("for u32", "for u16", "for u8", "<u32 as", "<u16 as", "<u8 as", "TryInto<u32>", "TryInto<u16>", "TryInto<u8>")
            if "ethnum" in gen and last in NARROW_SRC:
                dest_t = True
                why = f"source: {last} at {F.loc(term['span'])} in {name}"
                self.sources.append((name, last, term["span"]))
            elif last in ("try_from", "try_into") and ("ethnum::U256" in full or "ethnum::uint::U256" in full or "ethnum::I256" in full) and not any(x in full for x in small):
                # a checked conversion of a 256-bit constant to a 64-bit (or wider) native integer bounds nothing useful:
                # the result is as attacker-chosen as an `as_usize()` would be
                dest_t = True
                why = f"source: checked conversion of a 256-bit constant to a wide native integer at {F.loc(term['span'])} in {name}"
                self.sources.append((name, "try_from(wide)", term["span"]))
            elif locs:
                for callee in locs:
                    cm = self.mirs.get(callee)
                    if cm is None:
                        if any(arg_t):
                            dest_t = True
                        continue
                    for i, at in enumerate(arg_t):
                        if at and i < cm.arg_count:
                            if self.taint_local(callee, i + 1, f"argument {i} of call at {F.loc(term['span'])} in {name}"):
                                changed = True
                    if callee in self.tret:
                        dest_t = True
                        why = f"returned by {callee}"
            else:
                # external function
                if last in CLEAN_RESULT:
                    dest_t = False
                elif last in ("min",) and len(args) >= 2:
                    dest_t = all(arg_t[:2])
                    if not dest_t and any(arg_t):
                        self.sanitized_calls += 1
                elif last == "clamp" and len(args) == 3:
                    dest_t = arg_t[2]
                elif last in ("try_from", "try_into") and any(x in (f.get("fn_full") or f.get("resolved") or "") for x in ("for u32", "for u16", "for u8", "<u32 as", "<u16 as", "<u8 as", "TryInto<u32>", "TryInto<u16>", "TryInto<u8>")):
                    dest_t = False
                    if any(arg_t):
                        self.sanitized_calls += 1
                elif last == "filter" and len(args) == 2 and "Option" in gen:
                    cdef = self.closure_of_operand(name, args[1])
                    ok = False
                    if cdef:
                        for k in self.fx.bodies:
                            if k == cdef or (cdef.startswith("{closure@") and False):
                                ok = self.closure_compares(k)
                    # closure types print as `{closure@file:line:col: line:col}`: match the body by its span
                    if not ok and cdef and "closure@" in cdef:
                        import re

                        mm = re.search(r"closure@([^:]+):(\d+):(\d+)", cdef)
                        if mm:
                            for k, b in self.fx.bodies.items():
                                if b.get("kind") == "Closure" and b["span"].startswith(f"{mm.group(1)}:{mm.group(2)}:{mm.group(3)}-"):
                                    ok = self.closure_compares(k)
                    dest_t = arg_t[0] and not ok
                    if arg_t[0] and ok:
                        self.sanitized_calls += 1
                else:
                    dest_t = any(arg_t)
                    if dest_t:
                        why = f"through {last} at {F.loc(term['span'])} in {name}"
            if dest_t:
                if self.taint_place(name, term["dest"], why or f"{name}: call {last} at {F.loc(term['span'])}"):
                    changed = True
        # return summary
        if 0 in self.tl[name] and name not in self.tret:
            self.tret.add(name)
            changed = True
        return changed

    def run(self, max_rounds=60):
        for r in range(max_rounds):
            ch = False
            for n in self.names:
                if self.step_body(n):
                    ch = True
            if not ch:
                self.rounds = r + 1
                return
        self.rounds = max_rounds

    # ---------------------------------------------------------------------------------
    def root_of(self, name, l, depth=0):
        """Follow single-definition copies `_a = copy/move _b` (and int casts) to the underlying local."""
        m = self.mirs[name]
        if depth > 8:
            return l
        ds = [d for d in m.defs().get(l, []) if d[0] in ("assign", "call")]
        if len(ds) == 1 and ds[0][0] == "assign":
            rv = ds[0][3]
            if rv.get("r") in ("Use", "Cast"):
                src = F.op_local(rv["op"])
                if src is not None:
                    return self.root_of(name, src, depth + 1)
        return l

    def place_of(self, name, l, depth=0):
        """The place a local is a plain copy of, as (base local, projection): `x = copy ((_o as Some).0)` and
        `r = &((_o as Some).0); t = copy (*r)` name the same place (a match guard compares through a reference, the arm binds
        by value). None when l is not such a copy."""
        import json

        m = self.mirs[name]
        if depth > 6 or l is None:
            return None
        ds = [d for d in m.defs().get(l, []) if d[0] in ("assign", "call")]
        if len(ds) != 1 or ds[0][0] != "assign":
            return None
        rv = ds[0][3]
        if rv.get("r") in ("Use", "Cast"):
            op = rv["op"]
            pl = op.get("p") if isinstance(op, dict) else None
            if not pl:
                return None
            if not pl["proj"]:
                return self.place_of(name, pl["l"], depth + 1)
            if pl["proj"] == ["*"]:
                rds = [d for d in m.defs().get(pl["l"], []) if d[0] in ("assign", "call")]
                if len(rds) == 1 and rds[0][0] == "assign" and rds[0][3].get("r") == "Ref":
                    rp = rds[0][3]["p"]
                    return (rp["l"], json.dumps(rp["proj"], sort_keys=True))
                return None
            return (pl["l"], json.dumps(pl["proj"], sort_keys=True))
        return None

    def guarded(self, name, l, block):
        """Is local l (or what it copies) known to be below a clean bound on every path to `block`?
        Looks for a dominating SwitchInt on a comparison of (a copy of) l with a clean operand, taken on the bounded side."""
        m = self.mirs[name]
        m.dominators()
        root = self.root_of(name, l)
        my_place = self.place_of(name, root)
        for bl in m.blocks:
            t = bl["term"]
            if t["t"] != "SwitchInt" or bl["cleanup"]:
                continue
            c = F.op_local(t["discr"])
            if c is None:
                continue
            for d in m.defs().get(c, []):
                if d[0] != "assign" or d[3].get("r") != "BinaryOp" or d[3]["op"] not in CMP:
                    continue
                op = d[3]["op"]
                a, b = d[3]["a"], d[3]["b"]
                la, lb = F.op_base_local(a), F.op_base_local(b)
                ra = self.root_of(name, la) if la is not None and not a["p"]["proj"] else None
                rb = self.root_of(name, lb) if lb is not None and not b["p"]["proj"] else None
                # the same PLACE read twice (guard of a match arm through a reference, binding of the arm by value)
                if my_place is not None:
                    if ra is not None and ra != root and self.place_of(name, ra) == my_place:
                        ra = root
                    if rb is not None and rb != root and self.place_of(name, rb) == my_place:
                        rb = root
                # normalise to "x < / <= bound"
                if ra == root and not self.op_tainted(name, b):
                    bounded_when_true = op in ("Lt", "Le")
                elif rb == root and not self.op_tainted(name, a):
                    bounded_when_true = op in ("Gt", "Ge")
                else:
                    continue
                false_target = None
                for v, tgt in t["cases"]:
                    if v == "0":
                        false_target = tgt
                true_target = t["otherwise"]
                side = true_target if bounded_when_true else false_target
                if side is not None and side != (false_target if bounded_when_true else true_target) and m.dominates(side, block):
                    return True
        return False
