"""Reviewed tables under /verif/tables (TSV, '#' comments)."""
import os

from .core import VERIF


def read(name):
    rows = []
    path = os.path.join(VERIF, "tables", name)
    with open(path) as fh:
        for line in fh:
            line = line.rstrip("\n")
            if not line.strip() or line.lstrip().startswith("#"):
                continue
            rows.append(line.split("\t"))
    return rows


def _fn_of_key(key):
    """Function part of a table key: `fn|kind#k`, `fn#k` or `fn`."""
    if "|" in key:
        return key.split("|", 1)[0], "|" + key.split("|", 1)[1]
    if "#" in key and key.rsplit("#", 1)[1].isdigit() and not key.endswith("}"):
        head, tail = key.rsplit("#", 1)
        # closure names contain `{closure#0}`: only a trailing `#<digits>` outside braces is an ordinal
        if head.count("{") == head.count("}"):
            return head, "#" + tail
    return key, ""


def _parent_fn(name):
    return name.split("::{closure#", 1)[0]


class Keyed:
    """Rows of a reviewed table keyed by their first column. `get(key)` follows a rename: when no row has the key, and the
    table names exactly one function of the same module / impl that no longer exists in the crate and has a row with the same
    site suffix (`|kind#k`, `#k` or none), that row is used - a renamed function keeps its reviewed reasons. Anything less
    certain (two vanished functions, a function moved to another impl) stays unmatched and is reported by the rule."""

    def __init__(self, name, fx):
        self.name = name
        self.rows = {r[0]: r for r in read(name)}
        have_parents = {_parent_fn(n) for n in fx.bodies}
        self.orphans = {}
        for k in self.rows:
            fn, rest = _fn_of_key(k)
            par = _parent_fn(fn)
            if par not in have_parents:
                self.orphans.setdefault(par, {})[fn[len(par):] + rest] = k
        self.followed = []
        self.table_parents = {_parent_fn(_fn_of_key(k)[0]) for k in self.rows}

    def __contains__(self, key):
        return self.get(key) is not None

    def __iter__(self):
        return iter(self.rows)

    def items(self):
        return self.rows.items()

    def get(self, key, default=None):
        r = self.rows.get(key)
        if r is not None:
            return r
        # closures are numbered in source order: removing or adding an unrelated closure in front renumbers them. A key that
        # differs from exactly one row only in its closure numbers is that row.
        if "{closure#" in key:
            import re

            norm = re.sub(r"\{closure#\d+\}", "{closure}", key)
            cands = [k for k in self.rows if "{closure#" in k and re.sub(r"\{closure#\d+\}", "{closure}", k) == norm]
            if len(cands) == 1:
                self.followed.append((cands[0], key))
                return self.rows[cands[0]]
        fn, rest = _fn_of_key(key)
        par = _parent_fn(fn)
        if par in self.table_parents or "::" not in par:
            return default
        prefix = par.rsplit("::", 1)[0]
        suffix = fn[len(par):] + rest
        cands = [o for o, sufs in self.orphans.items() if o.rsplit("::", 1)[0] == prefix and suffix in sufs]
        if len(cands) == 1:
            old_key = self.orphans[cands[0]][suffix]
            self.followed.append((old_key, key))
            return [key] + list(self.rows[old_key][1:])
        return default
