"""Reviewed tables under /verif/tables (TSV, '#' comments)."""
import os

from .core import VERIF


def read(name):
    rows = []
    path = os.path.join(VERIF, "tables", name)
    with open(path) as fh:
        for line in fh:
            line = line.rstrip("\n")
            if not line.strip() or line.lstrip().startswith("#"):
                continue
            rows.append(line.split("\t"))
    return rows
