"""A small normaliser from resolved HIR expressions to terms.

Terms are nested tuples:
  ('local', id, name)                      a parameter / pattern binding / unresolved local
  ('field', base, name)
  ('call', callee, (args...))              callee = resolved path; receiver is args[0]
  ('bin', op, l, r) / ('un', op, e) / ('lit', v) / ('path', def)
  ('struct', adt, variant, ((field, term)...))
  ('if', c, t, e) / ('tuple', (..)) / ('cast', e, ty) / ('index', b, i)
  ('opaque', kind, id)                     anything not modelled (match, loop, closure ...)
Let-bound immutable locals are inlined; references, derefs, clones and trivial blocks vanish.
"""
from . import facts as F

TRANSPARENT_METHODS = {"clone", "borrow", "as_ref", "deref", "to_owned"}
TRANSPARENT_CALLS = (
    "std::sync::Arc::<T>::new",
    "std::boxed::Box::<T>::new",
    "std::rc::Rc::<T>::new",
    "std::convert::identity",
)


class Env:
    def __init__(self, parent=None):
        self.map = {} if parent is None else dict(parent.map)

    def child(self):
        return Env(self)


def bind_pattern(pat, value_term, env):
    """Bind the locals of an irrefutable-ish pattern to projections of value_term."""
    k = pat.get("p")
    if k == "Bind":
        env.map[pat["local"]] = value_term if value_term is not None else ("local", pat["local"], pat["name"])
        if "sub" in pat:
            bind_pattern(pat["sub"], value_term, env)
    elif k == "Tuple":
        for i, s in enumerate(pat["pats"]):
            vt = None
            if value_term is not None and value_term[0] == "tuple" and i < len(value_term[1]):
                vt = value_term[1][i]
            elif value_term is not None:
                vt = ("field", value_term, str(i))
            bind_pattern(s, vt, env)
    elif k in ("Struct",):
        for f in pat["fields"]:
            vt = ("field", value_term, f["field"]) if value_term is not None else None
            bind_pattern(f["pat"], vt, env)
    elif k == "TupleStruct":
        for i, s in enumerate(pat["pats"]):
            vt = ("field", value_term, str(i)) if value_term is not None else None
            bind_pattern(s, vt, env)
    elif k in ("Ref", "Deref", "Guard"):
        bind_pattern(pat["sub"], value_term, env)
    elif k == "Or":
        for s in pat["pats"]:
            bind_pattern(s, None, env)


def mutated_locals(body):
    """Locals that are assigned after their declaration or mutably borrowed (not inlined)."""
    out = set()
    for n, _ in F.walk(body):
        k = n.get("k")
        if k in ("Assign", "AssignOp"):
            l = F.local_of(n["l"])
            if l is not None:
                out.add(l)
            else:
                # assignment through a field/index of a local
                base = n["l"]
                while base.get("k") in ("Field", "Index", "Unary"):
                    base = base["e"]
                l = F.local_of(base)
                if l is not None:
                    out.add(l)
        elif k == "AddrOf" and n.get("mut"):
            l = F.local_of(n["e"])
            if l is not None:
                out.add(l)
        elif n.get("p") == "Bind" and "Mut" in n.get("mode", "") and "(No, Mut)" in n.get("mode", ""):
            out.add(n["local"])
    return out


def literal_match_formula(e, env, mutated):
    """`matches!(<tuple / array of expressions>, <literal patterns>)` (a two-arm match answering true / false whose pattern is
    built from literals, tuples, fixed arrays, alternatives and wildcards only) is the boolean formula it spells: a conjunction
    per tuple, a disjunction per alternative, an equality per literal. Anything else is not touched."""
    arms = e.get("arms") or []
    if len(arms) != 2 or any(a.get("guard") for a in arms):
        return None

    def boolean(x):
        x = F.strip(x)
        if x.get("k") == "Lit" and str(x["value"].get("v")).lower() in ("true", "false"):
            return str(x["value"].get("v")).lower() == "true"
        return None

    b0, b1 = boolean(arms[0]["body"]), boolean(arms[1]["body"])
    if b0 is None or b1 is None or b0 == b1 or arms[1]["pat"].get("p") != "Wild":
        return None
    n_lit = [0]

    def conj(parts):
        parts = [x for x in parts if x != ("lit", True)]
        if not parts:
            return ("lit", True)
        out = parts[0]
        for x in parts[1:]:
            out = ("bin", "And", out, x)
        return out

    def go(pat, ex):
        p = pat.get("p")
        if p == "Wild":
            return ("lit", True)
        if p == "Lit" and pat["value"].get("lit") == "int":
            n_lit[0] += 1
            return ("bin", "Eq", term(ex, env, mutated), ("lit", pat["value"].get("v")))
        if p == "Or":
            alts = [go(x, ex) for x in pat["pats"]]
            if any(a is None for a in alts) or not alts:
                return None
            out = alts[0]
            for a in alts[1:]:
                out = ("bin", "Or", out, a)
            return out
        exs = F.strip(ex)
        if p == "Tuple" and exs.get("k") == "Tup" and len(exs["elems"]) == len(pat["pats"]):
            parts = [go(x, y) for x, y in zip(pat["pats"], exs["elems"])]
            return None if any(a is None for a in parts) else conj(parts)
        if p == "Slice" and not pat.get("after") and "mid" not in pat and exs.get("k") == "Array" and len(exs["elems"]) == len(pat["before"]):
            parts = [go(x, y) for x, y in zip(pat["before"], exs["elems"])]
            return None if any(a is None for a in parts) else conj(parts)
        return None

    f = go(arms[0]["pat"], e["scrut"])
    if f is None or not n_lit[0]:
        return None
    return f if b0 else ("un", "Not", f)


def term(e, env, mutated=frozenset()):
    k = e.get("k")
    if k is None:
        return ("opaque", "nonexpr", 0)
    if k in ("AddrOf", "Use", "Type"):
        return term(e["e"], env, mutated)
    if k == "Unary":
        if e.get("op") == "Deref":
            return term(e["e"], env, mutated)
        return ("un", e.get("op"), term(e["e"], env, mutated))
    if k == "Block":
        return block_term(e["block"], env, mutated)
    if k == "Path":
        if e.get("res") == "local":
            lid = e["local"]
            if lid in env.map and lid not in mutated:
                return env.map[lid]
            return ("local", lid, e.get("name"))
        return ("path", e.get("def") or e.get("res"))
    if k == "Lit":
        return ("lit", e["value"].get("v"))
    if k == "Field":
        return ("field", term(e["e"], env, mutated), e["field"])
    if k == "Index":
        return ("index", term(e["e"], env, mutated), term(e["index"], env, mutated))
    if k == "Binary":
        return ("bin", e["op"], term(e["l"], env, mutated), term(e["r"], env, mutated))
    if k == "Cast":
        return ("cast", term(e["e"], env, mutated), e.get("ty"))
    if k == "Tup":
        return ("tuple", tuple(term(x, env, mutated) for x in e["elems"]))
    if k == "MethodCall":
        if e["method"] in TRANSPARENT_METHODS and not e["args"]:
            return term(e["recv"], env, mutated)
        cal = F.callee(e) or ("?." + e["method"])
        return ("call", cal, tuple(term(x, env, mutated) for x in [e["recv"]] + e["args"]))
    if k == "Call":
        f = e["f"]
        if f.get("k") == "Path" and f.get("res") in ("def", "selfctor"):
            if f.get("defkind", "").startswith("Ctor") or f.get("res") == "selfctor":
                # tuple-struct / variant constructor
                name = f.get("ctor_of") or f.get("def")
                return (
                    "struct",
                    None,
                    name,
                    tuple((str(i), term(x, env, mutated)) for i, x in enumerate(e["args"])),
                )
            cal = F.callee(e)
            generic = f.get("def")
            if generic in TRANSPARENT_CALLS and len(e["args"]) == 1:
                return term(e["args"][0], env, mutated)
            return ("call", cal, tuple(term(x, env, mutated) for x in e["args"]))
        return ("call", ("dyn", term(f, env, mutated)), tuple(term(x, env, mutated) for x in e["args"]))
    if k == "Struct":
        fields = tuple(sorted((f["field"], term(f["e"], env, mutated)) for f in e["fields"]))
        return ("struct", e.get("adt"), e.get("variant"), fields)
    if k == "If":
        c = term(e["cond"], env, mutated)
        t = term(e["then"], env, mutated)
        f = term(e["else"], env, mutated) if "else" in e else ("lit", "()")
        return ("if", c, t, f)
    if k == "Match" and "TryDesugar" in e.get("source", ""):
        # `x?` is transparent: the value on the success path is the payload of x
        sc = e["scrut"]
        if sc.get("k") == "Call" and sc["args"]:
            return term(sc["args"][0], env, mutated)
    if k == "Match":
        lf = literal_match_formula(e, env, mutated)
        if lf is not None:
            return lf
        sc = term(e["scrut"], env, mutated)
        arms = []
        for a in e["arms"]:
            env2 = env.child()
            bind_pattern(a["pat"], sc, env2)
            pv = F.pat_variants(a["pat"])
            label = "|".join(sorted(v for _, v in pv)) if pv else "_"
            arms.append((label, term(a["body"], env2, mutated)))
        return ("match", sc, tuple(arms))
    if k == "Ret":
        return ("ret", term(e["e"], env, mutated) if "e" in e else ("lit", "()"))
    return ("opaque", k, e.get("id"))


# opt-in (set by a rule around its own term construction): bind the pattern of `let PAT = init else {..}` to projections of init
LET_ELSE_PROJECTIONS = [False]


def block_term(block, env, mutated=frozenset()):
    env = env.child()
    for s in block["stmts"]:
        if s.get("s") == "Let" and "init" in s and "els" not in s:
            vt = term(s["init"], env, mutated)
            bind_pattern(s["pat"], vt, env)
        elif s.get("s") == "Let" and "init" in s and LET_ELSE_PROJECTIONS[0]:
            # `let PAT = init else { diverges }`: past the statement the pattern matched, so its bindings are parts of init
            bind_pattern(s["pat"], term(s["init"], env, mutated), env)
        elif s.get("s") == "Let":
            bind_pattern(s["pat"], None, env)
    if "expr" in block:
        return term(block["expr"], env, mutated)
    # a block ending in `return x;`
    if block["stmts"]:
        last = block["stmts"][-1]
        if last.get("s") == "Expr" and last["e"].get("k") == "Ret":
            return term(last["e"], env, mutated)
    return ("lit", "()")


def short(t, depth=0):
    """Human-readable rendering of a term."""
    if not isinstance(t, tuple):
        return str(t)
    k = t[0]
    if k == "local":
        return str(t[2])
    if k == "field":
        return f"{short(t[1])}.{t[2]}"
    if k == "call":
        name = t[1] if isinstance(t[1], str) else "<dyn>"
        name = name.split("::")[-1] if "::" in name else name
        return f"{name}({', '.join(short(a) for a in t[2])})"
    if k == "bin":
        return f"({short(t[2])} {t[1]} {short(t[3])})"
    if k == "un":
        return f"{t[1]}({short(t[2])})"
    if k == "lit":
        return str(t[1])
    if k == "path":
        return str(t[1]).split("::")[-1]
    if k == "struct":
        return f"{t[2]}{{{', '.join(f'{f}: {short(v)}' for f, v in t[3])}}}"
    if k == "if":
        return f"if {short(t[1])} {{{short(t[2])}}} else {{{short(t[3])}}}"
    if k == "tuple":
        return "(" + ", ".join(short(x) for x in t[1]) + ")"
    if k == "cast":
        return f"({short(t[1])} as {t[2]})"
    if k == "index":
        return f"{short(t[1])}[{short(t[2])}]"
    if k == "ret":
        return f"return {short(t[1])}"
    if k == "match":
        return "match " + short(t[1]) + " {" + ", ".join(f"{l} => {short(b)}" for l, b in t[2]) + "}"
    return f"<{t[1] if len(t) > 1 else t[0]}>"


def subterms(t):
    if isinstance(t, tuple) and t and isinstance(t[0], str):
        yield t
        for x in t:
            if isinstance(x, tuple):
                yield from subterms(x)
    elif isinstance(t, tuple):
        for x in t:
            if isinstance(x, tuple):
                yield from subterms(x)


def root_local(t):
    """The local a term is derived from by projections / transparent calls, or None."""
    while isinstance(t, tuple):
        if t[0] == "local":
            return t
        if t[0] in ("field", "index", "cast", "un"):
            t = t[1] if t[0] != "un" else t[2]
        else:
            return None
    return None


def _span_key(span):
    import re
    m = re.match(r"^(.*?):(\d+):(\d+)-(\d+):(\d+)", span or "")
    if not m:
        return None
    return (m.group(1), (int(m.group(2)), int(m.group(3))), (int(m.group(4)), int(m.group(5))))


def env_at(parents, target, mutated=frozenset(), base=None):
    """Environment of let-bound (immutable) locals visible at `target`, given its ancestor chain from
    facts.walk: the lets of every enclosing block that end before the target starts."""
    env = Env(base)
    tk = _span_key(target.get("span"))
    for anc, _key in parents:
        if isinstance(anc, dict) and "stmts" in anc:
            for st in anc["stmts"]:
                if st.get("s") != "Let":
                    continue
                sk = _span_key(st.get("span"))
                if tk and sk and sk[0] == tk[0] and sk[2] <= tk[1]:
                    if "init" in st and ("els" not in st or LET_ELSE_PROJECTIONS[0]):
                        bind_pattern(st["pat"], term(st["init"], env, mutated), env)
                    else:
                        bind_pattern(st["pat"], None, env)
    return env


def diverges(node):
    """Does this branch leave the enclosing loop iteration / function on every path (its last statement or tail is a
    return / break / continue)?"""
    n = node
    for _ in range(8):
        if not isinstance(n, dict):
            return False
        k = n.get("k")
        if k == "Block":
            blk = n["block"]
            if "expr" in blk:
                n = blk["expr"]
            elif blk["stmts"]:
                n = blk["stmts"][-1].get("e") or {}
            else:
                return False
        elif k in ("DropTemps", "Use"):
            n = n["e"]
        else:
            break
    return isinstance(n, dict) and n.get("k") in ("Ret", "Break", "Continue")


def path_conditions(parents, target):
    """Conditions known at `target` from the shape of the code, as (condition expression, holds) pairs:
    enclosing `if c {T} else {E}` (c holds in T, fails in E) and earlier `if c { return/break/continue }` statements of
    every enclosing block (c fails afterwards)."""
    out = []
    tk = _span_key(target.get("span"))
    for anc, key in parents:
        if not isinstance(anc, dict):
            continue
        if anc.get("k") == "If" and key in ("then", "else"):
            out.append((anc["cond"], key == "then"))
        # the guard of a match arm holds in that arm's body
        if "k" not in anc and "pat" in anc and "body" in anc and key == "body" and isinstance(anc.get("guard"), dict):
            out.append((anc["guard"], True))
        if "stmts" in anc and "k" not in anc:
            for st in anc["stmts"]:
                if st.get("s") != "Expr":
                    continue
                e = st.get("e") or {}
                while e.get("k") in ("DropTemps", "Use"):
                    e = e["e"]
                if e.get("k") != "If" or "else" in e or not diverges(e["then"]):
                    continue
                sk = _span_key(e.get("span"))
                if tk and sk and sk[0] == tk[0] and sk[2] <= tk[1]:
                    out.append((e["cond"], False))
    return out


def upper_bounds(parents, target, env, mutated=frozenset()):
    """(term, bound term, strict) triples: `term < bound` (strict) or `term <= bound` known at target from path conditions.
    Conjunctions that hold and disjunctions that fail are split."""
    res = []

    def add(c, holds):
        while c.get("k") in ("DropTemps", "Use"):
            c = c["e"]
        if c.get("k") == "Unary" and c.get("op") == "Not":
            return add(c["e"], not holds)
        if c.get("k") == "Binary" and ((c["op"] == "And" and holds) or (c["op"] == "Or" and not holds)):
            add(c["l"], holds)
            add(c["r"], holds)
            return
        if c.get("k") == "Binary" and c["op"] in ("Lt", "Le", "Gt", "Ge"):
            op = c["op"]
            l, r = term(c["l"], env, mutated), term(c["r"], env, mutated)
            if not holds:
                op = {"Lt": "Ge", "Le": "Gt", "Gt": "Le", "Ge": "Lt"}[op]
            if op in ("Lt", "Le"):
                res.append((l, r, op == "Lt"))
            else:
                res.append((r, l, op == "Gt"))

    for c, holds in path_conditions(parents, target):
        add(c, holds)
    return res


def inline_calls(t, fx, depth=2, _seen=(), only=None):
    """Replace calls of small local functions by the term of their body (parameters substituted by the argument terms), so
    that a condition moved into a helper function is still read as the condition it computes. `?` and `Ok(..)` are transparent
    already / made transparent here. Recursion and anything without HIR is left as it is."""
    if depth <= 0 or not isinstance(t, tuple) or not t:
        return t
    if t[0] == "call" and isinstance(t[1], str):
        name = t[1]
        args = tuple(inline_calls(a, fx, depth, _seen, only) for a in t[2])
        cands = [name, F.strip_generics(name)]
        b = None
        for c in cands:
            b = fx.body(c)
            if b is not None:
                break
        if b is not None and b.get("hir") and b["def"] not in _seen and len(b["hir"]["params"]) == len(args) and (only is None or only(b["def"])):
            n_nodes = sum(1 for _ in F.walk(b["hir"]["value"]))
            if n_nodes <= 400:
                env = Env()
                for p, a in zip(b["hir"]["params"], args):
                    if p.get("p") == "Bind":
                        env.map[p["local"]] = a
                mutated = mutated_locals(b["hir"]["value"])
                body = term(b["hir"]["value"], env, mutated)
                # `Ok(x)` -> x (the caller applies `?`, which is transparent)
                if body[0] == "struct" and str(body[2]).endswith("Ok") and body[3]:
                    body = body[3][0][1]
                return inline_calls(body, fx, depth - 1, _seen + (b["def"],), only)
        return ("call", name, args)
    if isinstance(t[0], str):
        return tuple(inline_calls(x, fx, depth, _seen, only) if isinstance(x, tuple) else x for x in t)
    return tuple(inline_calls(x, fx, depth, _seen, only) if isinstance(x, tuple) else x for x in t)


def entailed_atoms(cond_terms, want_false=False):
    """Atoms (non-And/Or/Not sub-formulas) that hold in EVERY truth assignment satisfying all of `cond_terms`
    (a list of (term, holds) pairs). Propositional only: atoms are opaque; at most 12 distinct atoms (else only the
    syntactic conjuncts are returned)."""
    import itertools

    atoms = []

    def collect(c):
        if isinstance(c, tuple) and c and c[0] == "bin" and c[1] in ("And", "Or"):
            collect(c[2]); collect(c[3]); return
        if isinstance(c, tuple) and c and c[0] == "un" and c[1] == "Not":
            collect(c[2]); return
        if c not in atoms:
            atoms.append(c)

    for c, _ in cond_terms:
        collect(c)

    def ev(c, asg):
        if isinstance(c, tuple) and c and c[0] == "bin" and c[1] == "And":
            return ev(c[2], asg) and ev(c[3], asg)
        if isinstance(c, tuple) and c and c[0] == "bin" and c[1] == "Or":
            return ev(c[2], asg) or ev(c[3], asg)
        if isinstance(c, tuple) and c and c[0] == "un" and c[1] == "Not":
            return not ev(c[2], asg)
        return asg[c]

    if len(atoms) > 12:
        out = []

        def conj(c, holds):
            if isinstance(c, tuple) and c and c[0] == "un" and c[1] == "Not":
                return conj(c[2], not holds)
            if isinstance(c, tuple) and c and c[0] == "bin" and ((c[1] == "And" and holds) or (c[1] == "Or" and not holds)):
                conj(c[2], holds); conj(c[3], holds); return
            if holds:
                out.append(c)

        for c, h in cond_terms:
            conj(c, h)
        if want_false:
            out = []

            def disj(c, holds):
                if isinstance(c, tuple) and c and c[0] == "un" and c[1] == "Not":
                    return disj(c[2], not holds)
                if isinstance(c, tuple) and c and c[0] == "bin" and ((c[1] == "And" and holds) or (c[1] == "Or" and not holds)):
                    disj(c[2], holds); disj(c[3], holds); return
                if not holds:
                    out.append(c)

            for c, h in cond_terms:
                disj(c, h)
        return out
    always = None
    never = None
    for bits in itertools.product((False, True), repeat=len(atoms)):
        asg = dict(zip(atoms, bits))
        if all(ev(c, asg) == h for c, h in cond_terms):
            true_now = {a for a in atoms if asg[a]}
            false_now = {a for a in atoms if not asg[a]}
            always = true_now if always is None else (always & true_now)
            never = false_now if never is None else (never & false_now)
    if want_false:
        return list(never) if never is not None else list(atoms)
    return list(always) if always is not None else list(atoms)  # unreachable point: everything holds vacuously


def result_leaves(expr, _depth=0):
    """The expressions an expression can evaluate to: its tail through blocks / if / match (diverging alternatives dropped), plus
    the operands of `return`s in it (closures are not entered)."""
    out = []

    def tail(e):
        while isinstance(e, dict) and e.get("k") in ("DropTemps", "Use") and "e" in e:
            e = e["e"]
        if not isinstance(e, dict):
            return
        k = e.get("k")
        if k == "Block":
            if e["block"].get("expr") is not None:
                tail(e["block"]["expr"])
        elif k == "If":
            tail(e["then"])
            if e.get("else") is not None:
                tail(e["else"])
        elif k == "Match" and "TryDesugar" not in (e.get("source") or ""):
            for a in e["arms"]:
                tail(a["body"])
        elif k == "Ret":
            pass
        else:
            out.append(e)

    tail(expr)

    def rets(e, in_closure=False):
        if isinstance(e, dict):
            if e.get("k") == "Closure":
                return
            if e.get("k") == "Ret" and e.get("e") is not None:
                out.append(e["e"])
            for v in e.values():
                rets(v)
        elif isinstance(e, list):
            for v in e:
                rets(v)

    rets(expr)
    return out


def explicit_err_exit(parents):
    """The fallible call whose ancestors are `parents` is the scrutinee of `if let Err(..) = call { <diverges> }` or of
    `let Ok(..) = call else { <diverges> }`: its failure leaves the function on every path."""
    from . import facts as F

    def variants(pat):
        return {v for _, v in (F.pat_variants(pat) or set())} if isinstance(pat, dict) else set()

    for i in range(len(parents) - 1, -1, -1):
        anc, key = parents[i]
        if not isinstance(anc, dict):
            continue
        if anc.get("k") in ("DropTemps", "Use"):
            continue
        if anc.get("k") == "Let" and key == "init" and "Err" in variants(anc.get("pat")):
            for j in range(i - 1, -1, -1):
                a2, k2 = parents[j]
                if isinstance(a2, dict) and a2.get("k") in ("DropTemps", "Use"):
                    continue
                return isinstance(a2, dict) and a2.get("k") == "If" and k2 == "cond" and diverges(a2["then"])
            return False
        if anc.get("s") == "Let" and key == "init" and variants(anc.get("pat")) == {"Ok"} and anc.get("els") is not None:
            els = anc["els"]
            return diverges(els if els.get("k") else {"k": "Block", "block": els})
        return False
    return False
