"""A static model of the disassembler's byte -> opcode table, shared by C07/C08/C10."""
from . import facts as F
from . import terms as T

OPCODE_TRAIT = "opcode::Opcode"


def opcode_types(fx):
    """ADT def path -> impl record, for every `impl Opcode for T`."""
    out = {}
    for i in fx.impls_of_trait(OPCODE_TRAIT):
        if i.get("trait") != OPCODE_TRAIT:
            continue
        t = i.get("self_adt") or i.get("self_ty")
        out[t] = i
    return out


def impl_method(fx, impl, name):
    for it in impl["items"]:
        if it["name"] == name:
            return fx.body(it["def"])
    return None


def pat_bytes(p):
    """Set of byte values matched by a literal / range / or pattern; None for a catch-all."""
    k = p.get("p")
    if k == "Lit":
        return {int(p["value"]["v"])}
    if k == "Range":
        lo = int(p["lo"]["v"]) if p.get("lo") else 0
        hi = int(p["hi"]["v"]) if p.get("hi") else 255
        if not p.get("inclusive"):
            hi -= 1
        return set(range(lo, hi + 1))
    if k == "Or":
        s = set()
        for q in p["pats"]:
            b = pat_bytes(q)
            if b is None:
                return None
            s |= b
        return s
    if k in ("Ref", "Deref"):
        return pat_bytes(p["sub"])
    if k in ("Wild", "Bind"):
        return None
    return set()


class Lin:
    """a*BYTE + b evaluation of terms."""

    def __init__(self, fx, byte_locals, extra=None):
        self.fx = fx
        self.byte_locals = byte_locals
        self.extra = extra or {}

    def ev(self, t, subst=None):
        subst = subst or {}
        if not isinstance(t, tuple):
            return None
        k = t[0]
        if k == "lit":
            try:
                return (0, int(t[1]))
            except (TypeError, ValueError):
                return None
        if k == "path":
            v = self.fx.const_value(t[1])
            return (0, v) if v is not None else None
        if k == "local":
            if t[1] in self.byte_locals:
                return (1, 0)
            if t[1] in subst:
                return subst[t[1]]
            if t[1] in self.extra:
                return self.extra[t[1]]
            return None
        if k == "cast":
            return self.ev(t[1], subst)
        if k == "bin" and t[1] in ("Add", "Sub"):
            l, r = self.ev(t[2], subst), self.ev(t[3], subst)
            if l is None or r is None:
                return None
            if t[1] == "Add":
                return (l[0] + r[0], l[1] + r[1])
            return (l[0] - r[0], l[1] - r[1])
        if k == "field":
            key = ("field", t[2])
            base = t[1]
            if base[0] == "local" and key in subst:
                return subst[key]
            return None
        return None


class _CRet(Exception):
    def __init__(self, v):
        self.v = v


class _NotConcrete(Exception):
    pass


def concrete_eval(fx, body, args, depth=0):
    """Run a small, loop-free function (an opcode constructor, a validation helper of its module) on concrete integers. Values:
    int / bool / ("ok", v) / ("err",) / ("some", v) / ("none",) / ("struct", {field: value}) / ("range", lo, hi_inclusive) /
    ("opaque",). Raises _NotConcrete for anything outside that fragment, so callers fail closed."""
    if depth > 4:
        raise _NotConcrete("depth")
    env = {}
    for p_, v in zip(body["hir"]["params"], args):
        if p_.get("p") != "Bind":
            raise _NotConcrete("param pattern")
        env[p_["local"]] = v

    def ev(e, env):
        e = F.strip(e)
        k = e.get("k")
        if k == "Lit":
            v = e["value"]
            if v.get("lit") == "int":
                return int(v["v"])
            if v.get("lit") == "bool":
                return str(v["v"]).lower() == "true"
            return ("opaque",)
        if k == "Path":
            if e.get("res") == "local":
                if e["local"] in env:
                    return env[e["local"]]
                raise _NotConcrete("unbound local")
            d = F.path_def(e) or e.get("def") or ""
            if d.split("::")[-1] == "None":
                return ("none",)
            cv = fx.const_value(d)
            if cv is not None:
                return cv
            return ("opaque",)
        if k in ("AddrOf", "Cast", "Use", "DropTemps", "Type"):
            return ev(e["e"], env)
        if k == "Unary":
            v = ev(e["e"], env)
            if e["op"] == "Deref":
                return v
            if e["op"] == "Not" and isinstance(v, bool):
                return not v
            raise _NotConcrete("unary")
        if k == "Binary":
            op = e["op"]
            l = ev(e["l"], env)
            if op == "And":
                return l and ev(e["r"], env)
            if op == "Or":
                return l or ev(e["r"], env)
            r = ev(e["r"], env)
            if not (isinstance(l, int) and isinstance(r, int)):
                raise _NotConcrete("binary on non-integers")
            return {"Lt": l < r, "Le": l <= r, "Gt": l > r, "Ge": l >= r, "Eq": l == r, "Ne": l != r, "Add": l + r, "Sub": l - r, "Mul": l * r}.get(op, None) if op in ("Lt", "Le", "Gt", "Ge", "Eq", "Ne", "Add", "Sub", "Mul") else (_ for _ in ()).throw(_NotConcrete(op))
        if k == "Struct":
            adt = str(e.get("adt") or "")
            fs = {f["field"]: ev(f["e"], env) for f in e["fields"]}
            if adt.endswith("ops::RangeInclusive"):
                return ("range", fs.get("start"), fs.get("end"))
            if adt.endswith("ops::Range"):
                return ("range", fs.get("start"), fs.get("end") - 1 if isinstance(fs.get("end"), int) else None)
            return ("struct", fs)
        if k == "If":
            c = ev(e["cond"], env)
            if not isinstance(c, bool):
                raise _NotConcrete("condition")
            if c:
                return ev(e["then"], env)
            return ev(e["else"], env) if "else" in e else ("unit",)
        if k == "Block":
            env2 = dict(env)
            for s_ in e["block"]["stmts"]:
                if s_.get("s") == "Let":
                    if "init" not in s_ or "els" in s_ or s_["pat"].get("p") != "Bind":
                        raise _NotConcrete("let form")
                    env2[s_["pat"]["local"]] = ev(s_["init"], env2)
                elif s_.get("s") == "Expr":
                    ev(s_["e"], env2)
            return ev(e["block"]["expr"], env2) if e["block"].get("expr") is not None else ("unit",)
        if k == "Ret":
            raise _CRet(ev(e["e"], env) if "e" in e else ("unit",))
        if k == "Call":
            d = F.callee_def(e) or ""
            last = F.strip_generics(d).split("::")[-1]
            if last == "Ok" and len(e["args"]) == 1:
                return ("ok", ev(e["args"][0], env))
            if last == "Err":
                return ("err",)
            if last == "Some" and len(e["args"]) == 1:
                return ("some", ev(e["args"][0], env))
            if last in ("from", "into") and len(e["args"]) == 1:
                return ev(e["args"][0], env)
            if F.strip_generics(d).endswith("RangeInclusive::new") and len(e["args"]) == 2:
                return ("range", ev(e["args"][0], env), ev(e["args"][1], env))
            hb = fx.body(d) or fx.body(F.strip_generics(d))
            if hb is not None and hb.get("hir"):
                return concrete_eval(fx, hb, [ev(a, env) for a in e["args"]], depth + 1)
            return ("opaque",)
        if k == "MethodCall":
            m = e["method"]
            if m == "contains" and len(e["args"]) == 1:
                r, x = ev(e["recv"], env), ev(e["args"][0], env)
                if isinstance(r, tuple) and r[0] == "range" and isinstance(x, int) and isinstance(r[1], int) and isinstance(r[2], int):
                    return r[1] <= x <= r[2]
                raise _NotConcrete("contains")
            if m in ("into", "clone", "to_owned", "to_string") and not e["args"]:
                return ev(e["recv"], env)
            if m == "map" and len(e["args"]) == 1 and F.strip(e["args"][0]).get("k") == "Closure":
                r = ev(e["recv"], env)
                c = F.strip(e["args"][0])
                if isinstance(r, tuple) and r[0] in ("ok", "some") and len(c["params"]) == 1 and c["params"][0].get("p") == "Bind":
                    env2 = dict(env)
                    env2[c["params"][0]["local"]] = r[1]
                    return (r[0], ev(c["body"], env2))
                if isinstance(r, tuple) and r[0] in ("err", "none"):
                    return r
                raise _NotConcrete("map")
            if m in ("ok_or", "ok_or_else") and len(e["args"]) == 1:
                r = ev(e["recv"], env)
                return ("ok", r[1]) if isinstance(r, tuple) and r[0] == "some" else ("err",)
            if m in ("then_some",) and len(e["args"]) == 1:
                r = ev(e["recv"], env)
                return ("some", ev(e["args"][0], env)) if r is True else ("none",)
            d = e.get("def") or ""
            hb = fx.body(d) or fx.body(F.strip_generics(d))
            if hb is not None and hb.get("hir"):
                return concrete_eval(fx, hb, [ev(e["recv"], env)] + [ev(a, env) for a in e["args"]], depth + 1)
            return ("opaque",)
        if k == "Match" and "TryDesugar" in str(e.get("source", "")):
            sc = e["scrut"]
            inner = sc["args"][0] if sc.get("k") == "Call" and sc["args"] else sc
            r = ev(inner, env)
            if isinstance(r, tuple) and r[0] in ("ok", "some"):
                return r[1]
            if isinstance(r, tuple) and r[0] in ("err", "none"):
                raise _CRet(r)
            raise _NotConcrete("?")
        raise _NotConcrete(str(k))

    try:
        return ev(body["hir"]["value"], env)
    except _CRet as r:
        return r.v


def concrete_ctor_table(fx, body):
    """{n: {field: int}} for every u8 value n the one-parameter constructor accepts (None if it cannot be run concretely)."""
    sig = fx.fns.get(body["def"], {})
    ins = sig.get("inputs") or []
    if len(ins) != 1 or ins[0].strip() != "u8":
        return None
    out = {}
    try:
        for n in range(256):
            r = concrete_eval(fx, body, [n])
            if isinstance(r, tuple) and r[0] == "ok" and isinstance(r[1], tuple) and r[1][0] == "struct":
                if not all(isinstance(v, int) for v in r[1][1].values()):
                    return None
                out[n] = r[1][1]
            elif isinstance(r, tuple) and r[0] == "err":
                continue
            else:
                return None
    except (_NotConcrete, KeyError, TypeError):
        return None
    return out


class DisasmModel:
    def __init__(self, fx):
        self.fx = fx
        self.ok = False
        self.problems = []
        self.optypes = opcode_types(fx)
        self.fn = None
        self.match = None
        self.arms = []  # (byteset, [ (type, ctor_expr) ], arm)
        self.parents_of = {}
        self._find()

    def _find(self):
        fx = self.fx
        best = None
        for b in fx.fn_bodies():
            hir = b.get("hir")
            if not hir:
                continue
            for m, ps in F.exprs(hir["value"], "Match"):
                n_lit = sum(1 for a in m["arms"] if a["pat"].get("p") in ("Lit", "Range"))
                if n_lit >= 40 and "u8" in (m["scrut"].get("ty") or ""):
                    if best is None or n_lit > best[2]:
                        best = (b, m, n_lit, ps)
        if best is not None:
            # read the function together with the private helpers of its module (a push-completion step moved into a helper is
            # still part of the transducer)
            b2 = F.inline_module_helpers(fx, best[0])
            for m, ps in F.exprs(b2["hir"]["value"], "Match"):
                n_lit = sum(1 for a in m["arms"] if a["pat"].get("p") in ("Lit", "Range"))
                if n_lit == best[2] and "u8" in (m["scrut"].get("ty") or ""):
                    best = (b2, m, n_lit, ps)
                    break
        if best is None:
            self.problems.append("no function with a byte -> opcode match table found")
            return
        self.fn, self.match, _, self.match_parents = best
        self.mutated = T.mutated_locals(self.fn["hir"]["value"])
        self.byte_local = F.local_of(self.match["scrut"])
        covered = set()
        for arm in self.match["arms"]:
            bs = pat_bytes(arm["pat"])
            if bs is None:
                bs = set(range(256)) - covered
                wild = True
            else:
                wild = False
                if "guard" in arm:
                    self.problems.append(f"guarded arm at {F.loc(arm['span'])} in the byte table")
                bs = bs - covered  # first match wins
            covered |= bs
            self.arms.append({"bytes": bs, "wild": wild, "arm": arm, "ctors": self.ctors_in(arm["body"])})
        self.uncovered = set(range(256)) - covered
        self.ok = True

    # -- constructor expressions -----------------------------------------------------------
    def type_of_expr(self, e):
        ty = e.get("ty") or ""
        for t in self.optypes:
            if ty == t or ty.startswith(f"std::result::Result<{t},"):
                return t
        return None

    def ctors_in(self, node):
        out = []
        for n, ps in F.walk(node):
            k = n.get("k")
            if k not in ("Path", "Struct", "Call", "MethodCall"):
                continue
            if k == "Path" and n.get("res") == "local":
                continue
            t = self.type_of_expr(n)
            if t is None:
                continue
            # skip wrappers whose receiver/arg already is that type (map_err(..), `?` desugaring)
            if k == "MethodCall" and self.type_of_expr(n["recv"]) == t:
                continue
            if k == "Call" and any(self.type_of_expr(a) == t for a in n["args"]):
                continue
            out.append((t, n))
            if id(n) not in self.parents_of or len(ps) > len(self.parents_of[id(n)]):
                self.parents_of[id(n)] = ps
        return out

    # -- evaluation of as_byte for a constructor expression --------------------------------
    def ctor_fields(self, t, e, lin, depth=0):
        """field -> (a,b) for the value built by constructor expression e of opcode type t."""
        fx = self.fx
        if depth > 4:
            return None
        k = e.get("k")
        if k == "Path":
            return {}
        if k == "Struct":
            env = T.Env()
            out = {}
            for f in e["fields"]:
                out[("field", f["field"])] = lin.ev(T.term(f["e"], env, self.mutated))
            return out
        if k in ("Call", "MethodCall"):
            cd = F.callee_def(e)
            body = fx.body(cd) if cd else None
            if body is None:
                # trait call (Default::default): use the resolved impl
                res = F.callee(e) or ""
                for bname, bb in fx.bodies.items():
                    if bb.get("impl_self") == t and bb.get("name") == (e.get("method") or (cd or "").split("::")[-1]):
                        body = bb
                        break
            if body is None:
                return None
            args = F.call_args(e)
            env = self.env_of(e)
            arg_vals = [lin.ev(T.term(a, env, self.mutated)) for a in args]
            params = body["hir"]["params"]
            subst = {}
            for p, v in zip(params, arg_vals):
                if p.get("p") == "Bind" and v is not None:
                    subst[p["local"]] = v
            lin2 = Lin(fx, set(), subst)
            # find the constructor(s) of t inside the callee
            structs = [n for n, _ in F.walk(body["hir"]["value"]) if n.get("k") == "Struct" and n.get("adt") == t]
            inner_mut = T.mutated_locals(body["hir"]["value"])
            if structs:
                results = []
                for s in structs:
                    out = {}
                    env2 = T.Env()
                    for f in s["fields"]:
                        out[("field", f["field"])] = lin2.ev(T.term(f["e"], env2, inner_mut))
                    results.append(out)
                first = results[0]
                if all(r == first for r in results) and all(v is not None for v in first.values()):
                    return first
                # the fields are not plain arithmetic over the parameters as written (built inside a closure, behind a helper):
                # run the constructor on every u8 and fit field = fa * n + fb
                tab = concrete_ctor_table(fx, body)
                if tab and len(tab) >= 2 and arg_vals and arg_vals[0] is not None:
                    ns = sorted(tab)
                    out = {}
                    for f in tab[ns[0]]:
                        fa = (tab[ns[1]][f] - tab[ns[0]][f]) // (ns[1] - ns[0])
                        fb = tab[ns[0]][f] - fa * ns[0]
                        if not all(tab[n_][f] == fa * n_ + fb for n_ in ns):
                            return None
                        a_, b_ = arg_vals[0]
                        out[("field", f)] = (fa * a_, fa * b_ + fb)
                    return out
                if all(r == first for r in results):
                    return first
                return None
            # delegates to another constructor (Default -> new)
            for n, _ in F.walk(body["hir"]["value"]):
                if n.get("k") in ("Call", "MethodCall") and self.type_of_expr(n) == t:
                    return self.ctor_fields(t, n, lin2, depth + 1)
            return None
        return None

    def env_of(self, e):
        ps = self.parents_of.get(id(e))
        if ps is None:
            return T.Env()
        return T.env_at(ps, e, self.mutated)

    def as_byte_of(self, t, fields):
        """(a,b) of `as_byte` for a value of type t with the given field values."""
        impl = self.optypes[t]
        body = impl_method(self.fx, impl, "as_byte")
        if body is None:
            return None
        hir = body["hir"]
        tm = T.block_term({"stmts": [], "expr": hir["value"]}, T.Env(), T.mutated_locals(hir["value"]))
        lin = Lin(self.fx, set())
        return lin.ev(tm, fields)

    def state_assignments(self, local):
        """All assignments `local = expr` in the disassembler function, with the arm they sit in."""
        out = []
        for n, ps in F.walk(self.fn["hir"]["value"]):
            if n.get("k") == "Assign" and F.local_of(n["l"]) == local:
                out.append((n, ps))
            if n.get("k") == "AssignOp" and F.local_of(n["l"]) == local:
                out.append((n, ps))
        return out
