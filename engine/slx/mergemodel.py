"""A static model of the pairwise evidence combination `merge` (arms, selection per constructor pair, mirrors)."""
from . import facts as F
from . import terms as T

TE = "tc::expression::TypeExpression"


class Arm:
    def __init__(self, idx, node, alts, guard):
        self.idx = idx
        self.node = node
        self.alts = alts  # list of (left_set|None, right_set|None)
        self.guard = guard
        self.delegate = False
        self.term = None

    def matches(self, a, b):
        for l, r in self.alts:
            if (l is None or a in l) and (r is None or b in r):
                return True
        return False

    def where(self):
        return F.loc(self.node["span"])

    def label(self):
        def s(x):
            return "_" if x is None else "|".join(sorted(x))

        return " | ".join(f"({s(l)}, {s(r)})" for l, r in self.alts) + (" if .." if self.guard else "")


def side_variants(p):
    pv = F.pat_variants(p)
    if pv is None:
        return None
    if not all(a == TE for a, _ in pv):
        return "bad"
    return {v for _, v in pv}


class MergeModel:
    def __init__(self, fx):
        self.fx = fx
        self.ok = False
        self.problems = []
        self.fn = None
        adt = fx.adt(TE)
        if adt is None:
            self.problems.append("type expression enum not found")
            return
        self.variants = [v["name"] for v in adt["variants"]]
        self.variant_fields = {v["name"]: {f["name"]: f["ty"] for f in v["fields"]} for v in adt["variants"]}
        best = None
        for b in fx.fn_bodies():
            hir = b.get("hir")
            if not hir:
                continue
            out = fx.fns.get(b["def"], {}).get("output", "")
            if not out.endswith("unification::Merge"):
                continue
            for m, ps in F.exprs(hir["value"], "Match"):
                if len(m["arms"]) >= 12 and m["scrut"].get("k") == "Tup" and len(m["scrut"]["elems"]) == 2:
                    if best is None or len(m["arms"]) > len(best[1]["arms"]):
                        best = (b, m)
        if best is None:
            self.problems.append("no function returning Merge with a two-operand match over type expressions")
            return
        self.fn, self.match = best
        params = self.fn["hir"]["params"]
        self.left = params[0]["local"] if params and params[0].get("p") == "Bind" else None
        self.right = params[1]["local"] if len(params) > 1 and params[1].get("p") == "Bind" else None
        sl = F.local_of(self.match["scrut"]["elems"][0])
        sr = F.local_of(self.match["scrut"]["elems"][1])
        if sl != self.left or sr != self.right:
            self.problems.append("the match scrutinee is not (left, right) of the function's first two parameters")
            return
        self.arms = []
        for i, a in enumerate(self.match["arms"]):
            p = a["pat"]
            alts = []
            tops = p["pats"] if p.get("p") == "Or" else [p]
            bad = False
            for t in tops:
                if t.get("p") == "Tuple" and len(t["pats"]) == 2:
                    l, r = side_variants(t["pats"][0]), side_variants(t["pats"][1])
                    if l == "bad" or r == "bad":
                        bad = True
                    alts.append((l, r))
                elif t.get("p") in ("Wild", "Bind"):
                    alts.append((None, None))
                else:
                    bad = True
            if bad:
                self.problems.append(f"arm {i} at {F.loc(a['span'])} has a pattern this model does not read")
                continue
            arm = Arm(i, a, alts, a.get("guard"))
            arm.delegate = self.is_delegate(a["body"])
            arm.term = self.body_term(a)
            self.arms.append(arm)
        self.ok = not self.problems

    # ------------------------------------------------------------------------------------------
    def is_delegate(self, body):
        b = F.strip(body)
        if b.get("k") == "Block" and not b["block"]["stmts"] and "expr" in b["block"]:
            b = F.strip(b["block"]["expr"])
        if b.get("k") == "Call" and F.callee_def(b) == self.fn["def"].split("::<")[0] or (b.get("k") == "Call" and F.strip_generics(F.callee_def(b) or "") == F.strip_generics(self.fn["def"])):
            args = b["args"]
            return len(args) >= 2 and F.local_of(args[0]) == self.right and F.local_of(args[1]) == self.left
        return False

    def body_term(self, arm_node):
        env = T.Env()
        env.map[self.left] = ("L",)
        env.map[self.right] = ("R",)
        p = arm_node["pat"]
        tops = p["pats"] if p.get("p") == "Or" else [p]
        t0 = tops[0]
        if t0.get("p") == "Tuple" and len(t0["pats"]) == 2:
            for side, sp in (("L", t0["pats"][0]), ("R", t0["pats"][1])):
                for lid, (name, path) in F.pat_bindings(sp).items():
                    env.map[lid] = ("fld", side, path[-1][1] if path else name)
        return T.term(arm_node["body"], env)

    def select(self, a, b):
        """Arms that may apply to the ordered constructor pair (a, b): guarded candidates then the first unguarded."""
        out = []
        for arm in self.arms:
            if arm.matches(a, b):
                out.append(arm)
                if not arm.guard:
                    break
        return out


def swap_lr(t):
    if not isinstance(t, tuple):
        return t
    if t == ("L",):
        return ("R",)
    if t == ("R",):
        return ("L",)
    if t and t[0] == "fld" and len(t) == 3 and t[1] in ("L", "R"):
        return ("fld", "R" if t[1] == "L" else "L", t[2])
    return tuple(swap_lr(x) for x in t)


def normalise(t):
    """Make conflict constructions orientation-free and drop explanation strings; equalities are unordered pairs."""
    if not isinstance(t, tuple):
        return t
    if t and t[0] == "call" and isinstance(t[1], str):
        name = F.strip_generics(t[1])
        last = name.split("::")[-1]
        args = tuple(normalise(a) for a in t[2])
        if last in ("conflict", "conflict_with") and len(args) >= 2:
            return ("conflict", frozenset([args[0], args[1]]))
        if name.endswith("Equality::new") and len(args) == 2:
            return ("equality", frozenset(args))
        return ("call", name, args)
    if t and t[0] == "lit" and isinstance(t[1], str) and not t[1].isdigit():
        return ("lit", "<str>")
    return tuple(normalise(x) for x in t)
