"""Indexes and generic analyses over the dumped facts (HIR trees, MIR CFGs, ADTs)."""
import re
from collections import defaultdict


def loc(span):
    """'src/x.rs:12:5-13:9' -> 'src/x.rs:12'"""
    if not span:
        return "-"
    m = re.match(r"^(.*?):(\d+):\d+-", span)
    if m:
        return f"{m.group(1)}:{m.group(2)}"
    return span


def line_of(span):
    m = re.match(r"^(.*?):(\d+):(\d+)-(\d+):(\d+)", span or "")
    return (m.group(1), int(m.group(2)), int(m.group(3))) if m else ("", 0, 0)


class Facts:
    def __init__(self, raw, path):
        self.raw = raw
        self.path = path
        self.debug_assertions = raw.get("debug_assertions")
        self.bodies = {}
        self.closures_of = defaultdict(list)
        for b in raw["bodies"]:
            self.bodies[b["def"]] = b
            if "parent" in b:
                self.closures_of[b["parent"]].append(b["def"])
        self.adts = {a["def"]: a for a in raw["adts"]}
        self.impls = raw["impls"]
        self.consts = {c["def"]: c for c in raw["consts"]}
        self.statics = raw["statics"]
        self.fns = {f["def"]: f for f in raw["fns"]}
        self._mir = {}

    # ---- lookups ---------------------------------------------------------------------
    def body(self, name):
        b = self.bodies.get(name)
        if b is not None:
            self.__dict__.setdefault("touched", set()).add(name)
        return b

    def find_bodies(self, pred):
        return [b for b in self.bodies.values() if pred(b)]

    def fn_bodies(self, include_expansion=False):
        """Typeck roots that are functions (closures are inlined in their parents' HIR)."""
        out = []
        for b in self.bodies.values():
            if b["kind"] in ("Fn", "AssocFn") and (include_expansion or not b.get("from_expansion")):
                out.append(b)
        return out

    def impls_of_trait(self, trait_suffix):
        return [i for i in self.impls if i.get("trait", "").endswith(trait_suffix)]

    def trait_method_bodies(self, trait_suffix, method):
        """Bodies of `method` in every impl of the trait (user-written and derived)."""
        out = []
        inline = trait_suffix == "opcode::Opcode" and method == "execute"
        cache = self.__dict__.setdefault("_inlined_execs", {})
        for i in self.impls_of_trait(trait_suffix):
            for it in i["items"]:
                if it["name"] == method and it["def"] in self.bodies:
                    b = self.bodies[it["def"]]
                    if inline and b.get("hir"):
                        # an instruction's implementation is read together with the private free functions of its module
                        # (a body shared by RETURN and REVERT, a poll helper of the copy instructions)
                        if it["def"] not in cache:
                            cache[it["def"]] = inline_module_helpers(self, b, max_nodes=600)
                        b = cache[it["def"]]
                    out.append((i, b))
        return out

    def adt(self, name):
        return self.adts.get(name)

    def variant(self, adt, vname):
        a = self.adts.get(adt)
        if not a:
            return None
        for v in a["variants"]:
            if v["name"] == vname:
                return v
        return None

    def const_value(self, name):
        c = self.consts.get(name)
        if c and "v" in c:
            return int(c["v"])
        return None

    def mir(self, name):
        if name not in self._mir:
            b = self.bodies.get(name)
            self._mir[name] = Mir(b) if b and "mir" in b else None
        return self._mir[name]


# ------------------------------------------------------------------------------------------
# HIR helpers

EXPR, PAT = "k", "p"


def children(node):
    """Yield (key, child) for every dict child (or dict element of list child)."""
    if isinstance(node, dict):
        for k, v in node.items():
            if isinstance(v, dict):
                yield k, v
            elif isinstance(v, list):
                for x in v:
                    if isinstance(x, dict):
                        yield k, x


def walk(node, parents=()):
    """Pre-order walk over all dict nodes yielding (node, parents) where parents is a tuple of
    (parent_node, key) pairs from the root down."""
    stack = [(node, parents)]
    while stack:
        n, ps = stack.pop()
        yield n, ps
        kids = list(children(n))
        for k, c in reversed(kids):
            stack.append((c, ps + ((n, k),)))


def exprs(node, kind=None):
    for n, ps in walk(node):
        if "k" in n and (kind is None or n["k"] == kind):
            yield n, ps


def is_expr(n):
    return isinstance(n, dict) and "k" in n


def callee(n):
    """Resolved callee path (with generic args) of a Call / MethodCall node, or None."""
    if n.get("k") == "MethodCall":
        return n.get("resolved") or n.get("def_full") or n.get("def")
    if n.get("k") == "Call":
        f = n["f"]
        if f.get("k") == "Path" and f.get("res") == "def":
            return f.get("resolved") or f.get("def_full") or f.get("def")
    return None


def callee_def(n):
    """Generic (unsubstituted) def path of the callee."""
    if n.get("k") == "MethodCall":
        return n.get("def")
    if n.get("k") == "Call":
        f = n["f"]
        if f.get("k") == "Path" and f.get("res") in ("def", "selfctor"):
            return f.get("def")
    return None


def call_args(n):
    """All value arguments including the receiver."""
    if n.get("k") == "MethodCall":
        return [n["recv"]] + n["args"]
    if n.get("k") == "Call":
        return n["args"]
    return []


def calls(node):
    for n, ps in walk(node):
        if n.get("k") in ("Call", "MethodCall"):
            yield n, ps


def strip(n):
    """Look through wrappers that do not change the value: blocks with only a tail, refs,
    derefs, casts-free 'Use', type ascription, `.clone()`, `Box::new`, `Arc::new`, `.into()` on
    same type is NOT stripped."""
    while True:
        k = n.get("k")
        if k == "AddrOf":
            n = n["e"]
        elif k == "Unary" and n.get("op") == "Deref":
            n = n["e"]
        elif k == "Block" and not n["block"]["stmts"] and "expr" in n["block"]:
            n = n["block"]["expr"]
        elif k in ("Use", "Type"):
            n = n["e"]
        elif k == "MethodCall" and n.get("method") == "clone" and not n["args"]:
            n = n["recv"]
        else:
            return n


def local_of(n):
    """If the expression is (a reference to / clone of) a local variable, its local id."""
    n = strip(n)
    if n.get("k") == "Path" and n.get("res") == "local":
        return n["local"]
    return None


def path_def(n):
    n = strip(n)
    if n.get("k") == "Path" and n.get("res") in ("def", "selfctor"):
        return n.get("def")
    return None


def pat_bindings(p, out=None):
    """Map local id -> (name, path of (variant, field) hops) for every binding in a pattern."""
    if out is None:
        out = {}

    def rec(p, path):
        k = p.get("p")
        if k == "Bind":
            out[p["local"]] = (p["name"], tuple(path))
            if "sub" in p:
                rec(p["sub"], path)
        elif k == "Struct":
            for f in p["fields"]:
                rec(f["pat"], path + [(p.get("variant"), f["field"])])
        elif k == "TupleStruct":
            for i, s in enumerate(p["pats"]):
                rec(s, path + [(p.get("variant"), str(i))])
        elif k in ("Tuple",):
            for i, s in enumerate(p["pats"]):
                rec(s, path + [("tuple", str(i))])
        elif k == "Or":
            for s in p["pats"]:
                rec(s, path)
        elif k in ("Ref", "Deref", "Guard"):
            rec(p["sub"], path)
        elif k == "Slice":
            for s in p.get("before", []) + p.get("after", []):
                rec(s, path + [("slice", "?")])
            if "mid" in p:
                rec(p["mid"], path + [("slice", "..")])

    rec(p, [])
    return out


def pat_variants(p):
    """Set of (adt, variant) a pattern can match at its top level; None means 'anything'."""
    k = p.get("p")
    if k in ("Wild", "Bind") and "sub" not in p:
        return None
    if k == "Bind":
        return pat_variants(p["sub"])
    if k in ("Struct", "TupleStruct", "Path"):
        if p.get("variant") is not None:
            return {(p.get("adt"), p["variant"])}
        return None
    if k == "Or":
        s = set()
        for q in p["pats"]:
            v = pat_variants(q)
            if v is None:
                return None
            s |= v
        return s
    if k in ("Ref", "Deref", "Guard"):
        return pat_variants(p["sub"])
    return None


def enclosing(ps, pred):
    """Innermost ancestor (node,key) satisfying pred, searching from the node upwards."""
    for n, k in reversed(ps):
        if pred(n, k):
            return n, k
    return None


def enclosing_arms(ps):
    """List of (match_node, arm) for each match arm body the node sits in (innermost first)."""
    out = []
    for i in range(len(ps) - 1, 0, -1):
        n, k = ps[i]
        if k == "body" and "pat" in n and "k" not in n and "p" not in n:
            # n is an arm; its parent is the match
            m, mk = ps[i - 1]
            if m.get("k") == "Match":
                out.append((m, n))
    return out


def in_loop(ps):
    for n, k in ps:
        if n.get("k") == "Loop":
            return True
    return False


# ------------------------------------------------------------------------------------------
# MIR helpers


class Mir:
    def __init__(self, body):
        self.body = body
        self.name = body["def"]
        m = body["mir"]
        self.locals = m["locals"]
        self.arg_count = m["arg_count"]
        self.blocks = m["blocks"]
        self.n = len(self.blocks)
        self.debug = {}
        for d in m["debug"]:
            pl = d["place"]
            if not pl["proj"]:
                self.debug[pl["l"]] = d["name"]
        self.succ = [[] for _ in range(self.n)]
        self.pred = [[] for _ in range(self.n)]
        for b in self.blocks:
            for s in self.normal_succs(b):
                self.succ[b["i"]].append(s)
                self.pred[s].append(b["i"])
        self._dom = None
        self._pdom = None
        self._defs = None

    @staticmethod
    def normal_succs(b):
        t = b["term"]
        k = t["t"]
        if k == "Goto":
            return [t["target"]]
        if k == "SwitchInt":
            return [c[1] for c in t["cases"]] + [t["otherwise"]]
        if k in ("Drop", "Assert"):
            return [t["target"]]
        if k == "Call":
            return [t["target"]] if t.get("target") is not None else []
        return []

    def ty(self, l):
        return self.locals[l]["ty"]

    def name_of(self, l):
        return self.debug.get(l, f"_{l}")

    # -- dominators (iterative, on non-cleanup CFG from block 0) ----------------------
    def dominators(self):
        if self._dom is not None:
            return self._dom
        n = self.n
        order = []
        seen = [False] * n
        stack = [(0, iter(self.succ[0]))]
        seen[0] = True
        while stack:
            node, it = stack[-1]
            adv = False
            for s in it:
                if not seen[s]:
                    seen[s] = True
                    stack.append((s, iter(self.succ[s])))
                    adv = True
                    break
            if not adv:
                order.append(node)
                stack.pop()
        rpo = list(reversed(order))
        idx = {b: i for i, b in enumerate(rpo)}
        idom = {0: 0}

        def intersect(a, b):
            while a != b:
                while idx[a] > idx[b]:
                    a = idom[a]
                while idx[b] > idx[a]:
                    b = idom[b]
            return a

        changed = True
        while changed:
            changed = False
            for b in rpo[1:]:
                preds = [p for p in self.pred[b] if p in idom]
                if not preds:
                    continue
                new = preds[0]
                for p in preds[1:]:
                    new = intersect(p, new)
                if idom.get(b) != new:
                    idom[b] = new
                    changed = True
        self._dom = idom
        self.reachable = set(idom)
        return idom

    def dominates(self, a, b):
        idom = self.dominators()
        if b not in idom:
            return False
        while True:
            if a == b:
                return True
            if b == 0:
                return False
            b = idom[b]

    def reach_from(self, start, avoid=()):
        """Blocks reachable from start (inclusive) along normal edges, not entering `avoid`."""
        seen = set()
        stack = [start]
        avoid = set(avoid)
        while stack:
            b = stack.pop()
            if b in seen or b in avoid:
                continue
            seen.add(b)
            stack.extend(self.succ[b])
        return seen

    def back_edges(self):
        self.dominators()
        out = []
        for b in range(self.n):
            for s in self.succ[b]:
                if self.dominates(s, b):
                    out.append((b, s))
        return out

    def loops(self):
        """Natural loops: header -> set of blocks."""
        loops = {}
        for tail, head in self.back_edges():
            body = {head}
            stack = [tail]
            while stack:
                x = stack.pop()
                if x in body:
                    continue
                body.add(x)
                stack.extend(self.pred[x])
            loops.setdefault(head, set()).update(body)
        return loops

    # -- definitions ------------------------------------------------------------------
    def defs(self):
        """local -> list of ('assign', bb, stmt_index, rvalue) | ('call', bb, term) definitions of
        the *whole* local (no projection)."""
        if self._defs is not None:
            return self._defs
        d = defaultdict(list)
        for b in self.blocks:
            for i, s in enumerate(b["stmts"]):
                if s["s"] == "Assign":
                    p = s["p"]
                    if not p["proj"]:
                        d[p["l"]].append(("assign", b["i"], i, s["rv"], s))
                    else:
                        d[p["l"]].append(("partial", b["i"], i, s["rv"], s))
            t = b["term"]
            if t["t"] == "Call":
                p = t["dest"]
                if not p["proj"]:
                    d[p["l"]].append(("call", b["i"], None, t, t))
                else:
                    d[p["l"]].append(("partial_call", b["i"], None, t, t))
        self._defs = d
        return d

    def calls(self):
        for b in self.blocks:
            t = b["term"]
            if t["t"] == "Call":
                yield b, t

    @staticmethod
    def callee(term):
        f = term["func"]
        if f.get("k") == "const":
            return f.get("resolved") or f.get("fn_full") or f.get("fn")
        return None

    @staticmethod
    def callee_def(term):
        f = term["func"]
        if f.get("k") == "const":
            return f.get("resolved_def") or f.get("fn")
        return None

    @staticmethod
    def callee_generic(term):
        f = term["func"]
        if f.get("k") == "const":
            return f.get("fn")
        return None


def op_local(op):
    """Local of an operand that is a bare local (copy/move, no projection)."""
    if op.get("k") in ("copy", "move") and not op["p"]["proj"]:
        return op["p"]["l"]
    return None


def op_base_local(op):
    if op.get("k") in ("copy", "move"):
        return op["p"]["l"]
    return None


def op_const(op):
    if op.get("k") == "const" and "v" in op:
        try:
            return int(op["v"])
        except ValueError:
            return None
    return None


# ------------------------------------------------------------------------------------------
# call graph over HIR (resolved callees; closures are part of their parent's tree)


def strip_generics(path):
    """'a::B::<T>::f::<U>' -> 'a::B::<T>::f' is NOT wanted; we normalise resolved paths to def paths
    by removing every '::<...>' group."""
    out = []
    depth = 0
    i = 0
    while i < len(path):
        if path.startswith("::<", i) and depth == 0:
            depth = 1
            i += 3
            continue
        c = path[i]
        if depth > 0:
            if c == "<":
                depth += 1
            elif c == ">":
                depth -= 1
            i += 1
            continue
        out.append(c)
        i += 1
    return "".join(out)


class CallGraph:
    def __init__(self, fx):
        self.fx = fx
        self.edges = defaultdict(set)  # def -> set of crate-local defs (bodies)
        self.ext = defaultdict(set)  # def -> set of external callee strings
        self.sites = defaultdict(list)  # def -> [(callee_def, node)]
        self.norm = {}
        for name in fx.bodies:
            self.norm[strip_generics(name)] = name
        self.dyn_impls = defaultdict(list)  # trait method generic def -> impl bodies
        self.impl_index = defaultdict(list)
        for i in fx.impls:
            tr = i.get("trait")
            if not tr:
                continue
            self.impl_index[(i.get("self_adt") or i.get("self_ty"), tr)].append(i)
            for it in i["items"]:
                if it["def"] in fx.bodies:
                    self.dyn_impls[f"{tr}::{it['name']}"].append(it["def"])
        for b in fx.bodies.values():
            if "hir" not in b:
                continue
            self._scan(b)

    def _impl_method(self, res):
        """'<SELF as TRAIT>::m' -> local body of that impl method, or 'ext' if SELF/TRAIT impl is not local."""
        if not res or not res.startswith("<") or " as " not in res:
            return None
        depth = 0
        end = None
        for i, c in enumerate(res):
            if c == "<":
                depth += 1
            elif c == ">":
                depth -= 1
                if depth == 0:
                    end = i
                    break
        if end is None:
            return None
        inner = res[1:end]
        method = res[end + 1 :].lstrip(":")
        method = strip_generics(method)
        # split at top-level ' as '
        depth = 0
        cut = None
        i = 0
        while i < len(inner):
            c = inner[i]
            if c == "<":
                depth += 1
            elif c == ">":
                depth -= 1
            elif depth == 0 and inner.startswith(" as ", i):
                cut = i
                break
            i += 1
        if cut is None:
            return None
        self_ty, trait = inner[:cut], inner[cut + 4 :]
        self_adt = self_ty.split("<")[0].lstrip("&").replace("mut ", "").strip()
        trait_def = trait.split("<")[0]
        if self_adt.startswith("dyn "):
            return ("dyn", f"{trait_def}::{method}")
        cands = self.impl_index.get((self_adt, trait_def), [])
        if len(cands) > 1:
            # several impls of one generic trait for the type (e.g. From<A> and From<B>): pick by the trait's arguments
            want = f"<{self_ty} as {trait}>".replace(" ", "")
            exact = [i2 for i2 in cands if (i2.get("trait_full") or "").replace(" ", "") == want]
            if exact:
                cands = exact
        for i2 in cands:
            for it in i2["items"]:
                if it["name"] == method and it["def"] in self.fx.bodies:
                    return it["def"]
        return "ext"

    def resolve_local(self, n):
        """Crate-local body names a call node may dispatch to."""
        fx = self.fx
        res = n.get("resolved") if n.get("k") != "Call" else n["f"].get("resolved")
        gen = callee_def(n)
        full = callee(n)
        for cand in (res, full, gen):
            if not cand:
                continue
            if cand in fx.bodies:
                return [cand]
            s = strip_generics(cand)
            if s in self.norm:
                return [self.norm[s]]
        if res:
            # the blanket `Into` / `TryInto` impls of std call the crate's `From` / `TryFrom` impl of the mirrored pair
            mi = re.match(r"^<(.+) as std::convert::Into<(.+)>>::into$", res)
            if mi:
                res = f"<{mi.group(2)} as std::convert::From<{mi.group(1)}>>::from"
            mi = re.match(r"^<(.+) as std::convert::TryInto<(.+)>>::try_into$", res)
            if mi:
                res = f"<{mi.group(2)} as std::convert::TryFrom<{mi.group(1)}>>::try_from"
            m = self._impl_method(res)
            if isinstance(m, tuple):
                return list(self.dyn_impls.get(m[1], []))
            if m == "ext" or m is None:
                # resolved to something outside the crate (or a local trait default handled above)
                return []
            return [m]
        if gen in self.dyn_impls:
            # unresolved trait method call (dyn Trait or a generic receiver): all impls in the crate
            return list(self.dyn_impls[gen])
        return []

    def _scan(self, b):
        name = b["def"]
        for n, ps in walk(b["hir"]["value"]):
            k = n.get("k")
            if k in ("Call", "MethodCall"):
                locs = self.resolve_local(n)
                for l in locs:
                    self.edges[name].add(l)
                    self.sites[name].append((l, n))
                if not locs:
                    self.ext[name].add(callee(n) or callee_def(n) or "?")
            elif k == "Path" and n.get("res") == "def" and str(n.get("defkind", "")).startswith(("Fn", "AssocFn")):
                # function value mentioned (callbacks)
                d = n.get("resolved") or n.get("def_full") or n.get("def")
                for cand in (d, n.get("def")):
                    if not cand:
                        continue
                    if cand in self.fx.bodies:
                        self.edges[name].add(cand)
                        break
                    s = strip_generics(cand)
                    if s in self.norm:
                        self.edges[name].add(self.norm[s])
                        break
            elif k in ("Binary", "Unary", "AssignOp", "Index") and n.get("resolved"):
                s = strip_generics(n["resolved"])
                if n["resolved"] in self.fx.bodies:
                    self.edges[name].add(n["resolved"])
                elif s in self.norm:
                    self.edges[name].add(self.norm[s])

    def reachable(self, roots):
        seen = set()
        stack = list(roots)
        while stack:
            x = stack.pop()
            if x in seen:
                continue
            seen.add(x)
            stack.extend(self.edges.get(x, ()))
        return seen

    def callers_of(self, target):
        return {a for a, bs in self.edges.items() if target in bs}


INLINED_ARGS = {}


def _remember_inlined_args(args):
    """The argument expressions of a call that was replaced by its callee's body, kept outside the tree (tree walkers would
    otherwise visit them a second time)."""
    INLINED_ARGS[len(INLINED_ARGS) + 1] = list(args)
    return len(INLINED_ARGS)


def inline_module_helpers(fx, body, max_nodes=400, methods=False):
    """A copy of `body` whose HIR has the calls of small free functions of the SAME module replaced by a block that binds the
    parameters to the arguments and runs the helper's body (locals renumbered), so that a structural analysis of one function
    still sees the code a refactoring moved into a private helper next to it. Helpers that are used as plain utilities by the
    function before the refactoring (already small calls) are inlined as well - that only shows the analysis more code."""
    import copy

    mod = body["def"].rsplit("::", 1)[0] + "::"
    if body["def"].startswith("<") and body.get("impl_self"):
        # a trait method: the module is that of the implementing type
        mod = strip_generics(body["impl_self"]).rsplit("::", 1)[0] + "::"
    offset = [1_000_000]

    def renumber(node, off):
        if isinstance(node, dict):
            if "local" in node and isinstance(node["local"], int):
                node["local"] = node["local"] + off
            for v in node.values():
                renumber(v, off)
        elif isinstance(node, list):
            for v in node:
                renumber(v, off)

    def rewrite(node, depth):
        if isinstance(node, list):
            return [rewrite(x, depth) for x in node]
        if not isinstance(node, dict):
            return node
        out = {k: rewrite(v, depth) for k, v in node.items()}
        is_call = out.get("k") == "Call"
        is_self_method = out.get("k") == "MethodCall" and methods and body.get("impl_self")
        if (is_call or is_self_method) and depth < 2:
            d = (callee_def(out) if is_call else (out.get("def") or "")) or ""
            hb = None
            if is_call and d.rsplit("::", 1)[0] + "::" == mod and d != body["def"]:
                hb = fx.body(d)
                if hb is not None and (hb.get("impl_self") or str(hb.get("kind", "")).lower() != "fn"):
                    hb = None
            elif is_self_method:
                cand = fx.body(d) or fx.body(strip_generics(d))
                if cand is not None and cand.get("impl_self") == body.get("impl_self") and cand["def"] != body["def"] and not cand.get("impl_trait"):
                    hb = cand
                    out = dict(out)
                    out["args"] = [out["recv"]] + list(out.get("args", []))
            if hb is not None and hb.get("hir"):
                hir = hb["hir"]
                params = hir["params"]
                if len(params) == len(out.get("args", [])) and all(p.get("p") == "Bind" for p in params) and sum(1 for _ in walk(hir["value"])) <= max_nodes:
                    h = copy.deepcopy({"params": params, "value": hir["value"]})
                    off = offset[0]
                    offset[0] += 100_000
                    renumber(h, off)
                    # a parameter that is handed a plain local (or a reference to one) IS that local in the inlined copy
                    stmts = []
                    for p, a in zip(h["params"], out["args"]):
                        a0 = a
                        while isinstance(a0, dict) and a0.get("k") in ("AddrOf", "DropTemps", "Use") and "e" in a0:
                            a0 = a0["e"]
                        if isinstance(a0, dict) and a0.get("k") == "Path" and a0.get("res") == "local":
                            def subst(node, frm=p["local"], to=a0["local"], nm=a0.get("name")):
                                if isinstance(node, dict):
                                    if node.get("local") == frm and node.get("k") == "Path":
                                        node["local"] = to
                                        if nm:
                                            node["name"] = nm
                                    for v in node.values():
                                        subst(v)
                                elif isinstance(node, list):
                                    for v in node:
                                        subst(v)
                            subst(h["value"])
                        else:
                            stmts.append({"s": "Let", "pat": p, "init": a, "span": out.get("span")})
                    hv = rewrite(h["value"], depth + 1)
                    # a closure handed to the helper and called there (`wrap(data)`) is applied in place
                    clos = {}
                    for st in stmts:
                        ci = strip(st["init"]) if isinstance(st.get("init"), dict) else {}
                        if st["pat"].get("p") == "Bind" and ci.get("k") == "Closure":
                            clos[st["pat"]["local"]] = ci

                    def beta(node):
                        if isinstance(node, list):
                            return [beta(x) for x in node]
                        if not isinstance(node, dict):
                            return node
                        node = {k_: beta(v_) for k_, v_ in node.items()}
                        if node.get("k") == "Call" and isinstance(node.get("f"), dict) and node["f"].get("k") == "Path" and node["f"].get("res") == "local" and node["f"].get("local") in clos:
                            c = clos[node["f"]["local"]]
                            if len(c.get("params", [])) == len(node.get("args", [])):
                                lets = [{"s": "Let", "pat": cp, "init": ca, "span": node.get("span")} for cp, ca in zip(c["params"], node["args"])]
                                return {"k": "Block", "block": {"stmts": lets, "expr": c["body"]}, "ty": node.get("ty"), "span": node.get("span")}
                        return node

                    if clos:
                        hv = beta(hv)
                        # a closure that was only ever called is now gone from the body: its binding would show its body twice
                        still = {x.get("local") for x, _ in walk(hv) if x.get("k") == "Path" and x.get("res") == "local"}
                        stmts = [st for st in stmts if not (st["pat"].get("p") == "Bind" and st["pat"]["local"] in clos and st["pat"]["local"] not in still)]
                    return {"k": "Block", "block": {"stmts": stmts, "expr": hv}, "ty": out.get("ty"), "span": out.get("span"), "inlined_from": d, "inlined_id": _remember_inlined_args(out.get("args", []))}
        return out

    new = dict(body)
    new["hir"] = dict(body["hir"])
    new["hir"]["value"] = rewrite(body["hir"]["value"], 0)
    return new
