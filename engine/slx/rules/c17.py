"""C17 — strict mode surfaces every execution error; permissive mode tolerates bad jumps.

R17.1 error-buffer writers : every call recording an execution error is enumerated with the error kinds that can reach it;
      a site that can receive one of the four jump-target kinds is on the `!permissive` side of the flag, any other site does
      not depend on the flag; the kinds filtered by the flag are exactly the four jump-target kinds.
R17.2 failure iff non-empty: the main loop returns Ok only on the buffer-is-empty edge and Err(buffer) otherwise; the staged
      API propagates that result with `?`.
R17.3 strict records all    : in the main loop's Err arm the payload is recorded for the jump kinds (when not permissive) and for
      every other kind unconditionally, and the thread is killed on every path of the arm.
R17.4 flag read only there  : the permissive flag is read only in conditions guarding an error-buffer writer.
R17.6 error sources intact  : every operation that grows the stack sits behind the 1024-item depth test, an empty pop is turned
      into an error, and gas is charged / inherited as C03 R03.4 requires: an error that is never raised cannot be surfaced.
R17.5 errors are located    : in opcode implementations, the stack handle and the VM loop, the argument of `.locate(..)` derives
      from the current instruction pointer.
R17.7 pipeline complete     : every exit of Extractor::analyze / TypeChecker::run that is not an error has passed through every
      stage (by-value state transitions of the extractor; the polled public stages of the type checker), read from the code.
"""
import re
from .. import facts as F
from .. import terms as T
from ..vmmodel import ERRORS_ADT, EXEC_ERR, JUMP_KINDS, PERMISSIVE, CONFIG, KindFlagEval, VMModel


def variants_built(node):
    out = set()
    for n, _ in F.walk(node):
        if n.get("k") == "Path" and (n.get("def") or "").startswith(EXEC_ERR + "::"):
            out.add(n["def"].split("::")[-1])
        if n.get("k") == "Struct" and n.get("adt") == EXEC_ERR and n.get("variant"):
            out.add(n["variant"])
    return out


def kinds_from_binding(root, lid):
    """`let x = match e.payload { K1 | K2 => Ok(p), _ => Err(p) }?;` -> {K1, K2}"""
    for n, ps in F.walk(root):
        if n.get("s") == "Let" and n["pat"].get("p") == "Bind" and n["pat"]["local"] == lid and "init" in n:
            init = n["init"]
            if init.get("k") == "Match" and "TryDesugar" in init.get("source", ""):
                inner = init["scrut"]["args"][0] if init["scrut"].get("k") == "Call" and init["scrut"]["args"] else None
                if inner is not None and inner.get("k") == "Match":
                    kinds = set()
                    for a in inner["arms"]:
                        pv = F.pat_variants(a["pat"])
                        body = F.strip(a["body"])
                        is_ok = body.get("k") == "Call" and (F.path_def(body["f"]) or "").endswith("Ok")
                        if is_ok:
                            if pv is None:
                                return None
                            kinds |= {v for _, v in pv}
                    return kinds
    return None


def check_pipeline_complete(fx, rep, cg, rule="R17.7"):
    """The one-call entry points answer only what the staged pipeline answers: every exit of `Extractor::analyze` that is not an
    error has passed through every stage of the extractor (each by-value transition from one state type to the next), and every
    such exit of `TypeChecker::run` through every polled stage of the engine. A shortcut around a stage returns a layout for
    code whose execution (or inference) would have failed - the error raised on a path is then never listed - and is never
    polled."""
    def stages_of_extractor():
        out = {}
        for b in fx.fn_bodies():
            imp = b.get("impl_self") or ""
            sig = fx.fns.get(b["def"], {})
            ins = sig.get("inputs") or []
            outp = sig.get("output") or ""
            if not imp.startswith("extractor::Extractor<extractor::state::") or not ins or ins[0] != imp:
                continue
            m = re.search(r"extractor::Extractor<(extractor::state::\w+)>", outp)
            if m and m.group(1) not in imp:
                out[F.strip_generics(b["def"])] = b
        return out

    def stages_of_engine():
        out = {}
        polled = set()
        for b in fx.fn_bodies():
            if b.get("impl_self") != "tc::TypeChecker" or not b.get("hir"):
                continue
            inl = F.inline_module_helpers(fx, b, max_nodes=400, methods=True)
            if any((F.callee_def(c) or "").endswith("Watchdog::should_stop") for c, _ in F.calls(inl["hir"]["value"])):
                polled.add(b["def"])
        for d in polled:
            b = fx.body(d)
            sig = fx.fns.get(d, {})
            if sig.get("vis") == "Public" and (sig.get("inputs") or [""])[0].startswith("&mut ") and "Result" in (sig.get("output") or ""):
                out[F.strip_generics(d)] = b
        return out

    def exits(root):
        leaves = {id(x) for x in T.result_leaves(root)}
        out = []
        for n, ps in F.walk(root):
            if any(a.get("k") == "Closure" for a, _ in ps):
                continue
            if any(a.get("k") == "Match" and "TryDesugar" in str(a.get("source", "")) and key != "scrut" for a, key in ps[-6:]):
                continue
            if n.get("k") == "Ret" and n.get("e") is not None:
                out.append((n["e"], ps))
            elif id(n) in leaves and not any(a.get("k") == "Ret" for a, _ in ps):
                out.append((n, ps))
        return out

    def plain_calls(node):
        for c, cps in F.calls(node):
            if any(a.get("k") in ("Closure", "Loop") or (a.get("k") in ("If", "Match") and "Desugar" not in str(a.get("source", "")) and key not in ("cond", "scrut")) for a, key in cps):
                continue
            yield c

    def called(c):
        ds = set(cg.resolve_local(c))
        if c.get("def"):
            ds.add(c["def"])
        return {F.strip_generics(d) for d in ds}

    n_exit = 0
    for entry, stages, what in (
        (next((b for b in fx.fn_bodies() if (b.get("impl_self") or "").startswith("extractor::Extractor<") and b.get("name") == "analyze"), None), stages_of_extractor(), "stages of the extractor (state transitions)"),
        (fx.body("tc::TypeChecker::run"), stages_of_engine(), "polled stages of the type checker"),
    ):
        if not rep.anchor(rule, entry is not None and entry.get("hir"), f"the one-call entry point over the {what}"):
            continue
        stages = {k: v for k, v in stages.items() if k != F.strip_generics(entry["def"])}
        rep.floor(rule, len(stages), 4, what)
        root = entry["hir"]["value"]
        rep.fn(entry["def"])
        for val, ps in exits(root):
            v = F.strip(val)
            if v.get("k") == "Call" and (F.path_def(v["f"]) or "").endswith("::Err"):
                continue
            n_exit += 1
            dom = set()
            for c in plain_calls(val):
                dom |= called(c)
            chain = [a for a, _ in ps] + [val]
            for i, (anc, key) in enumerate(ps):
                if "stmts" in anc and "k" not in anc:
                    nxt = chain[i + 1] if i + 1 < len(chain) else None
                    for s_ in anc["stmts"]:
                        if s_ is nxt or any(x is val for x, _ in F.walk(s_)):
                            break
                        for c in plain_calls(s_):
                            dom |= called(c)
                if anc.get("s") == "Let" and key != "init" and "init" in anc:
                    for c in plain_calls(anc["init"]):
                        dom |= called(c)
            missing = sorted(k.split("::")[-1] for k in stages if k not in dom)
            ordn = n_exit
            rep.oblige(
                not missing,
                rule,
                f"pipeline-complete:{F.strip_generics(entry['def'])}#{ordn}",
                F.loc(val.get("span")),
                f"`{entry['def']}` can return a non-error answer here without having passed through {missing}: for such input the one-call entry point answers although the staged pipeline would execute (and possibly fail, or be stopped) - an execution error on a path is never listed, the watchdog never polled",
                sample={"rule": rule, "entry": entry["def"], "stages": sorted(k.split("::")[-1] for k in stages), "exit": F.loc(val.get("span"))},
            )
    rep.floor(rule, n_exit, 2, "non-error exits of the one-call entry points")


def check(fx, rep, tier):
    cg = F.CallGraph(fx)
    vm = VMModel(fx, cg)
    if not rep.anchor("R17.1", not vm.problems, "; ".join(vm.problems) or "VM anchors"):
        return rep.finish("anchor lost", "n/a")
    err_adt = fx.adt(EXEC_ERR)
    all_kinds = [v["name"] for v in err_adt["variants"]]
    rep.anchor("R17.1", JUMP_KINDS <= set(all_kinds), f"the four jump-target error kinds {sorted(JUMP_KINDS)} exist in execution::Error")

    # ---------------------------------------------------------------- R17.1
    sites = vm.buffer_writer_sites()
    rep.floor("R17.1", len(sites), 2, "calls recording an execution error in the VM's buffer")
    site_info = []
    evals = {}
    FLAGS = (False, True)
    for b, n, ps, via in sites:
        rep.fn(b["def"])
        w = F.loc(n["span"])
        root_b = b["hir"]["value"]
        ev = evals.get(b["def"])
        if ev is None:
            ev = evals[b["def"]] = KindFlagEval(fx, root_b, all_kinds)
        built = set()
        for a in F.call_args(n)[1:] if n.get("k") == "MethodCall" else F.call_args(n):
            built |= variants_built(a)
        ordinal = sum(1 for x in site_info if x["fn"] == b["def"]) + 1
        key = f"writer:{F.strip_generics(b['def'])}#{ordinal}"
        if built:
            # the recorded error is constructed at the site: its kind is known, only the flag matters
            table = {(k, p): ev.reach(ps, n, None, p) for k in built for p in FLAGS}
            kinds = built
            how = "constructed in place"
        else:
            # the recorded error is the one being handled: evaluate every (kind, flag) combination along the path
            table = {(k, p): ev.reach(ps, n, k, p) for k in all_kinds for p in FLAGS}
            kinds = {k for k in all_kinds if table[(k, False)] is not False or table[(k, True)] is not False}
            how = "evaluated over all (kind, flag) combinations"
        info = {"fn": b["def"], "node": n, "ps": ps, "table": table, "kinds": kinds, "built": bool(built), "key": key}
        site_info.append(info)
        jump_in_permissive = sorted(k for k in kinds & JUMP_KINDS if table[(k, True)] is not False)
        flag_dependent = sorted(k for k in kinds - JUMP_KINDS if (table[(k, True)] is False) != (table[(k, False)] is False))
        unknown = sorted(k for k in kinds if table[(k, True)] is None or table[(k, False)] is None)
        msg = ""
        if jump_in_permissive:
            msg = f"jump-target errors {jump_in_permissive} can be recorded in permissive mode{' (the conditions on the way are not understood: unrecognised idiom)' if set(jump_in_permissive) & set(unknown) else ''}: permissive mode must tolerate bad jump targets"
        elif flag_dependent:
            only = "strict" if table[(flag_dependent[0], True)] is False else "permissive"
            msg = f"errors {flag_dependent[:4]} are recorded only in {only} mode: every error other than a bad jump target must fail the run in both modes"
        rep.oblige(
            not jump_in_permissive and not flag_dependent,
            "R17.1",
            key,
            w,
            msg,
            sample={
                "rule": "R17.1",
                "fn": b["def"],
                "at": w,
                "kinds_from": how,
                "recorded_when_strict": sorted(k for k in kinds if table[(k, False)] is True)[:8],
                "recorded_when_permissive": sorted(k for k in kinds if table[(k, True)] is True)[:8],
            },
        )
    # ---------------------------------------------------------------- R17.2
    ml = vm.main_loop
    root = ml["hir"]["value"]
    oks = []
    for n, ps in F.walk(root):
        if n.get("k") == "Call" and (F.path_def(n["f"]) or "").endswith("::Ok") and not n.get("exp"):
            # skip Ok inside closures / match arms handling instruction results
            if any(a.get("k") == "Closure" for a, _ in ps):
                continue
            # only value-position Oks of the function: tail expression chain or `return`
            oks.append((n, ps))
    result_oks = []
    for n, ps in oks:
        # is it the function's result? every ancestor up to the root must be a tail position
        is_result = True
        child = n
        for anc, key in reversed(ps):
            if anc.get("k") == "Ret":
                break
            if "stmts" in anc and key == "stmts":
                is_result = False
                break
            if anc.get("k") in ("Call", "MethodCall", "Let", "Assign", "Struct") or anc.get("s") in ("Let",):
                is_result = False
                break
            if anc.get("k") == "Match" and key == "scrut":
                is_result = False
                break
            if anc.get("k") == "Loop":
                is_result = False
                break
        if is_result:
            result_oks.append((n, ps))
    rep.floor("R17.2", len(result_oks), 1, "Ok results of the VM main loop function")
    def is_empty_test(c):
        """(True, polarity) if c is `[!]*buffer.is_empty()` on the execution-error buffer."""
        neg = False
        while c.get("k") in ("DropTemps", "Use") or (c.get("k") == "Unary" and c.get("op") == "Not"):
            if c.get("k") == "Unary":
                neg = not neg
            c = c["e"]
        if c.get("k") == "MethodCall" and c["method"] == "is_empty" and EXEC_ERR in (c.get("recv_ty") or ""):
            return True, not neg
        return False, None

    for n, ps in result_oks:
        guarded = False
        # enclosing `if buffer.is_empty() { Ok } else { Err }` (either polarity) ...
        for anc, key in ps:
            if anc.get("k") == "If" and key in ("then", "else"):
                is_t, pol = is_empty_test(anc["cond"])
                if is_t and (key == "then") == pol:
                    guarded = True
                    other = anc.get("else") if key == "then" else anc.get("then")
                    err_ok = other is not None and any(x.get("k") == "Call" and (F.path_def(x["f"]) or "").endswith("::Err") for x, _ in F.walk(other))
                    rep.oblige(err_ok, "R17.2", "err-when-nonempty", F.loc(anc["span"]), "when the error buffer is not empty the main loop does not return Err(buffer)")
        # ... or an earlier `if !buffer.is_empty() { return Err(..) }` in an enclosing block
        if not guarded:
            nk = T._span_key(n["span"])
            for anc, key in ps:
                if "stmts" in anc and "k" not in anc:
                    for st in anc["stmts"]:
                        e = st.get("e") if st.get("s") == "Expr" else None
                        while e is not None and e.get("k") in ("DropTemps", "Use"):
                            e = e["e"]
                        if e is None or e.get("k") != "If" or "else" in e or not T.diverges(e["then"]):
                            continue
                        ek = T._span_key(e["span"])
                        is_t, pol = is_empty_test(e["cond"])
                        if is_t and pol is False and ek and nk and ek[2] <= nk[1]:
                            guarded = True
                            err_ok = any(x.get("k") == "Call" and (F.path_def(x["f"]) or "").endswith("::Err") for x, _ in F.walk(e["then"])) and any(x.get("k") == "Ret" for x, _ in F.walk(e["then"]))
                            rep.oblige(err_ok, "R17.2", "err-when-nonempty", F.loc(e["span"]), "when the error buffer is not empty the main loop does not return Err(buffer)")
        rep.oblige(
            guarded,
            "R17.2",
            "ok-iff-empty",
            F.loc(n["span"]),
            "the VM main loop can return Ok while errors are buffered: strict mode would not surface them",
            sample={"rule": "R17.2", "ok_at": F.loc(n["span"]), "guard": "errors.is_empty()"},
        )
    # propagation through the staged API
    n_prop = 0
    for caller in sorted(cg.callers_of(ml["def"])):
        cb = fx.body(caller)
        if not cb or "hir" not in cb or cb.get("from_expansion"):
            continue
        for n, ps in F.calls(cb["hir"]["value"]):
            if ml["def"] in cg.resolve_local(n):
                n_prop += 1
                propagated = any(a.get("k") == "Match" and "TryDesugar" in a.get("source", "") for a, _ in ps[-3:])
                is_tail = not any("stmts" in a and k == "stmts" for a, k in ps[-2:])
                propagated = propagated or T.explicit_err_exit(ps)
                rep.oblige(propagated or (is_tail and False), "R17.2", f"propagate:{F.strip_generics(caller)}", F.loc(n["span"]), f"`{caller}` does not propagate the result of the VM main loop with `?`")
    rep.floor("R17.2", n_prop, 1, "callers of the VM main loop in the staged API")

    # ---------------------------------------------------------------- R17.3
    err_arm = None
    en, eps = vm.exec_call
    # the match on the execute result: the let-bound local of the call or a direct match
    res_local = None
    for anc, key in reversed(eps):
        if anc.get("s") == "Let" and key == "init" and anc["pat"].get("p") == "Bind":
            res_local = anc["pat"]["local"]
            break
    for m, ps in F.exprs(root, "Match"):
        sc = m["scrut"]
        if (res_local is not None and F.local_of(sc) == res_local) or any(x is en for x, _ in F.walk(sc)):
            for a in m["arms"]:
                pv = F.pat_variants(a["pat"])
                if pv and any(v == "Err" for _, v in pv):
                    err_arm = a
    if rep.anchor("R17.3", err_arm is not None, "the Err arm of the match on the opcode's execute result in the main loop"):
        body = err_arm["body"]
        # kill is a top-level statement of the arm (not under a condition)
        kills = [(n, ps) for n, ps in F.calls(body) if (F.callee_def(n) or "").endswith("kill_current_thread")]
        uncond = False
        for n, ps in kills:
            cond = any(a.get("k") in ("If", "Match", "Loop", "Closure") for a, _ in ps)
            if not cond:
                uncond = True
        # or: one kill in every arm of an exhaustive inner match
        if not uncond and kills:
            for m, ps in F.exprs(body, "Match"):
                if all(any((F.callee_def(c) or "").endswith("kill_current_thread") and not any(a.get("k") == "If" for a, _ in cps) for c, cps in F.calls(a["body"])) for a in m["arms"]):
                    uncond = True
        rep.oblige(
            uncond,
            "R17.3",
            "kill-on-error",
            F.loc(err_arm["span"]),
            "an opcode error does not end the current thread on every path of the main loop's Err arm: the thread keeps executing past the failed instruction",
            sample={"rule": "R17.3", "kills": len(kills), "unconditional": uncond},
        )
        # coverage of (kind, flag) combinations by the recording sites inside the arm
        arm_sites = [x for x in site_info if x["fn"] == ml["def"] and not x["built"] and any(y is x["node"] for y, _ in F.walk(body))]
        # recording delegated to a helper that receives the error: its sites count, under the condition of the call
        ev_ml = evals.get(ml["def"]) or KindFlagEval(fx, ml["hir"]["value"], all_kinds)
        for c, cps in F.calls(body):
            for callee in cg.resolve_local(c):
                helper_sites = [x for x in site_info if x["fn"] == callee and not x["built"]]
                if not helper_sites or callee == ml["def"]:
                    continue
                full_ps = None
                for n0, ps0 in F.walk(ml["hir"]["value"]):
                    if n0 is c:
                        full_ps = ps0
                        break
                for x in helper_sites:
                    tbl = {}
                    for k in all_kinds:
                        for p in FLAGS:
                            r_call = ev_ml.reach(full_ps, c, k, p) if full_ps is not None else None
                            r_site = x["table"].get((k, p))
                            tbl[(k, p)] = False if (r_call is False or r_site is False) else (True if (r_call is True and r_site is True) else None)
                    arm_sites.append({"fn": callee, "node": x["node"], "ps": x["ps"], "table": tbl, "kinds": x["kinds"], "built": False, "key": x["key"]})

        def recorded(k, p):
            return any(x["table"].get((k, p)) is True for x in arm_sites)
        missing_other = sorted(k for k in set(all_kinds) - JUMP_KINDS if not (recorded(k, False) and recorded(k, True)))
        missing_jump = sorted(k for k in JUMP_KINDS if not recorded(k, False))
        rep.oblige(not missing_other, "R17.3", "record-all-other", F.loc(err_arm["span"]), f"errors of kind {missing_other[:4]} raised by an instruction are not recorded in both modes: the run would succeed despite them")
        rep.oblige(not missing_jump, "R17.3", "record-jump-strict", F.loc(err_arm["span"]), f"jump-target errors {missing_jump} are not recorded in strict mode")
        filtered = sorted(k for k in all_kinds if recorded(k, False) and not any(x["table"].get((k, True)) is not False for x in arm_sites))
        rep.oblige(
            set(filtered) == JUMP_KINDS,
            "R17.1",
            "filtered-kinds",
            F.loc(err_arm["span"]),
            f"the permissive flag filters {filtered}; it must filter exactly the four jump-target kinds {sorted(JUMP_KINDS)}",
            sample={"rule": "R17.1", "filtered_by_flag": filtered},
        )

    # ---------------------------------------------------------------- R17.4
    reads = []
    for b in fx.fn_bodies():
        hir = b.get("hir")
        if not hir or (b.get("impl_self") == CONFIG):
            continue
        for n, ps in F.walk(hir["value"]):
            if n.get("k") == "Field" and n["field"] == PERMISSIVE and n.get("adt") == CONFIG:
                reads.append((b, n, ps))
    rep.floor("R17.4", len(reads), 1, "reads of the permissive flag outside the configuration type")
    def guards_a_writer(holder):
        if any(any(y is x["node"] for y, _ in F.walk(holder)) for x in site_info):
            return True
        # `{}` arm guarded by the flag with no writer inside: a legitimate "tolerate" form if the arm matches jump kinds
        if "pat" in holder:
            pv = F.pat_variants(holder["pat"])
            if pv and {v for _, v in pv} <= JUMP_KINDS:
                return True
        return False

    def condition_holder(ps):
        for anc, key in reversed(ps):
            if (anc.get("k") == "If" and key == "cond") or ("pat" in anc and key == "guard"):
                return anc
            if anc.get("s") == "Let" or anc.get("k") in ("Closure", "Loop"):
                return None
        return None

    for b, n, ps in reads:
        # the read sits in a condition (If cond / arm guard) that guards a writer site, or in the initialiser of an
        # immutable boolean local that is used only in such conditions
        guards_writer = False
        holder = condition_holder(ps)
        if holder is not None:
            guards_writer = guards_a_writer(holder)
        else:
            let = next((anc for anc, key in reversed(ps) if anc.get("s") == "Let" and key == "init"), None)
            if let is not None and let["pat"].get("p") == "Bind" and let["pat"]["local"] not in T.mutated_locals(b["hir"]["value"]):
                lid = let["pat"]["local"]
                uses = [(u, ups) for u, ups in F.walk(b["hir"]["value"]) if u.get("k") == "Path" and u.get("res") == "local" and u.get("local") == lid]
                if uses:
                    guards_writer = all((lambda h: h is not None and guards_a_writer(h))(condition_holder(ups)) for u, ups in uses)
        rep.oblige(
            guards_writer,
            "R17.4",
            f"flag-read:{F.strip_generics(b['def'])}",
            F.loc(n["span"]),
            f"`{b['def']}` reads the permissive flag outside a condition that guards the recording of an error: a run without errors could differ between the modes",
            sample={"rule": "R17.4", "fn": b["def"], "at": F.loc(n["span"])},
        )

    # ---------------------------------------------------------------- R17.5
    scope = {b["def"] for b in vm.opcode_execs} | {ml["def"], vm.advance["def"]}
    scope = cg.reachable(scope)
    n_loc = 0
    listed = 0
    for name in sorted(scope):
        b = fx.body(name)
        if not b or "hir" not in b or b.get("from_expansion"):
            continue
        if not (name.startswith("<opcode::") or name.startswith("opcode::") or name.startswith("vm::")):
            continue
        root2 = b["hir"]["value"]
        mutated = None
        for n, ps in F.calls(root2):
            is_locate = (F.callee_def(n) or "") == "error::container::Locatable::locate"
            # the container's own located adder takes the location as its first argument
            is_adder = n.get("k") == "MethodCall" and n["method"] == "add_located" and (n.get("recv_ty") or "").replace("&mut ", "").replace("&", "").startswith(ERRORS_ADT) and n["args"]
            if not is_locate and not is_adder:
                continue
            if is_locate and EXEC_ERR not in (n.get("def_full") or n.get("resolved") or "") and EXEC_ERR not in (n.get("ty") or ""):
                continue
            if mutated is None:
                mutated = T.mutated_locals(root2)
            n_loc += 1
            env = T.env_at(ps, n, mutated)
            t = T.term(n["args"][0], env, mutated)
            ok = False
            why = T.short(t)[:60]
            s = t
            while s[0] == "cast":
                s = s[1]
            if s[0] == "call" and isinstance(s[1], str) and F.strip_generics(s[1]).endswith("instruction_pointer"):
                ok = True
            if s[0] == "field" and s[2] == "instruction_pointer":
                ok = True
            if s[0] == "local" and str(s[2]) in ("instruction_pointer", "current_instruction"):
                ok = True  # a parameter carrying the pointer (checked at its callers by the same rule)
            if not ok and t[0] == "call" and isinstance(t[1], str) and F.strip_generics(t[1]).endswith("instructions_len"):
                # "no current thread" errors: no instruction is executing; listed, not alarmed
                listed += 1
                ok = True
            rep.oblige(
                ok,
                "R17.5",
                f"locate:{F.strip_generics(name)}",
                F.loc(n["span"]),
                f"an execution error in `{name}` is located at `{why}`, which does not derive from the current instruction pointer",
                sample={"rule": "R17.5", "fn": name, "location": why} if n_loc <= 6 else None,
            )
    rep.floor("R17.5", n_loc, 20, "located execution errors on execution paths")
    rep.extra["no_current_thread_sites_listed"] = listed
    rep.exhaustive = True
    # ---------------------------------------------------------------- R17.6 the error sources are intact
    # "any error raised": an overflow / underflow / gas exhaustion that is no longer *raised* cannot be surfaced.
    STACK = "vm::state::stack::Stack"
    GROW = {"push", "insert", "extend", "extend_from_slice", "extend_from_within", "resize", "resize_with", "append", "splice", "push_within_capacity"}
    n_src = 0
    for b in fx.fn_bodies():
        if b.get("impl_self") != STACK or not b.get("hir"):
            continue
        root6 = b["hir"]["value"]
        for c, cps in F.calls(root6):
            if c.get("k") != "MethodCall":
                continue
            recv = T.term(c["recv"], T.Env())
            on_data = recv[0] == "field" and recv[1][0] == "local" and recv[1][2] == "self"
            if not on_data or "std::vec::Vec<" not in (c.get("recv_ty") or ""):
                continue
            if c["method"] in GROW:
                n_src += 1
                ck = T._span_key(c["span"])
                guarded = False
                for m, mps in F.walk(root6):
                    if m.get("k") == "If" and "else" not in m and T.diverges(m["then"]) and T._span_key(m["span"])[2] <= ck[1]:
                        builds = any(x.get("k") == "Struct" and x.get("adt") == EXEC_ERR and x.get("variant") == "StackDepthExceeded" for x, _ in F.walk(m["then"]))
                        ct = T.term(m["cond"], T.env_at(mps, m, T.mutated_locals(root6)), T.mutated_locals(root6))  # lets inlined (`let requested = len + 1`)
                        bound = None
                        for q in T.subterms(ct):
                            if q[0] == "path":
                                v = fx.const_value(q[1])
                                if v is not None:
                                    bound = v
                        mentions_len = any(q[0] == "call" and isinstance(q[1], str) and F.strip_generics(q[1]).endswith("::len") for q in T.subterms(ct))
                        if builds and mentions_len and bound == 1024:
                            guarded = True
                rep.oblige(
                    guarded,
                    "R17.6",
                    f"stack-growth:{b['name']}:{c['method']}",
                    F.loc(c["span"]),
                    f"`Stack::{b['name']}` grows the stack with `{c['method']}` without the depth test against the 1024-item limit in front of it: a stack overflow through this operation is never raised, so no mode can surface it",
                    sample={"rule": "R17.6", "fn": b["def"], "grows_with": c["method"], "depth_test_first": guarded},
                )
            if c["method"] == "pop":
                n_src += 1
                turned = any(a.get("k") == "MethodCall" and a["method"] in ("ok_or", "ok_or_else") and key == "recv" for a, key in cps[-2:])
                rep.oblige(turned, "R17.6", f"stack-underflow:{b['name']}", F.loc(c["span"]), f"`Stack::{b['name']}` does not turn an empty stack into an error: a stack underflow is never raised")
    rep.floor("R17.6", n_src, 2, "operations of the stack that can overflow / underflow")
    # no opcode drops an error it was handed: every fallible call inside an opcode implementation (stack operations first of all)
    # is propagated - `?`, the tail / returned value, or an explicit Err exit. An adaptor that flattens Results (`flat_map`,
    # `filter_map(Result::ok)`, `.ok()`) turns a stack underflow into "fewer operands" and the path carries on.
    n_prop3 = 0
    for ob in [b for i_, b in fx.trait_method_bodies("opcode::Opcode", "execute")] + [b for b in fx.fn_bodies() if b["def"].startswith("opcode::") and str(b.get("kind")).lower() == "fn" and b.get("hir") and not b.get("impl_self")]:
        root = ob["hir"]["value"]
        for c, cps in F.calls(root):
            ty = (c.get("ty") or "").replace(" ", "")
            if not ty.startswith("std::result::Result<") or "error::execution::Error" not in ty:
                continue
            if c.get("exp"):
                continue
            if c.get("k") == "Call" and (F.path_def(c["f"]) or "").split("::")[-1] in ("Ok", "Err"):
                continue  # building a Result, not receiving one
            n_prop3 += 1
            under_try = any(isinstance(a, dict) and a.get("k") == "Match" and "TryDesugar" in (a.get("source") or "") for a, _ in cps[-3:])
            # tail / returned: no enclosing statement list entered through `stmts` inside the innermost closure or function
            inner = cps
            for i_ in range(len(cps) - 1, -1, -1):
                if isinstance(cps[i_][0], dict) and cps[i_][0].get("k") == "Closure":
                    inner = cps[i_ + 1:]
                    break
            in_closure = inner is not cps
            is_tail = not any(("stmts" in a and k_ == "stmts") or (isinstance(a, dict) and a.get("k") in ("Call", "MethodCall") and a is not c) for a, k_ in inner if isinstance(a, dict))
            ret = any(isinstance(a, dict) and a.get("k") == "Ret" for a, _ in cps[-2:])
            matched = T.explicit_err_exit(cps)
            for a, k_ in reversed(cps):
                if isinstance(a, dict) and a.get("k") == "Match" and k_ == "scrut" and "TryDesugar" not in (a.get("source") or ""):
                    matched = True  # the kinds it handles are judged by the swallowed-kinds rule below
                    break
                if isinstance(a, dict) and a.get("k") not in ("DropTemps", "Use", "AddrOf"):
                    break
            # a Result that is the value of a closure is only as good as what consumes the closure's results
            flattening = False
            if in_closure and is_tail:
                for a, k_ in reversed(cps):
                    if isinstance(a, dict) and a.get("k") == "MethodCall" and a["method"] in ("flat_map", "filter_map", "flatten", "map_while"):
                        flattening = True
                        break
                    if isinstance(a, dict) and a.get("k") == "Closure":
                        continue
            let_bound = any(isinstance(a, dict) and a.get("s") == "Let" and k_ == "init" for a, k_ in cps[-2:])
            ok3 = (under_try or ret or matched or (is_tail and not flattening) or let_bound) and not (c.get("k") == "MethodCall" and False)
            if c.get("k") == "MethodCall" and any(isinstance(a, dict) and a.get("k") == "MethodCall" and a["method"] in ("ok", "unwrap_or", "unwrap_or_default", "unwrap_or_else", "is_ok", "is_err") and k_ == "recv" for a, k_ in cps[-1:]):
                ok3 = False
            kname = c["method"] if c.get("k") == "MethodCall" else (F.callee_def(c) or "").split("::")[-1]
            ordn = sum(1 for y in rep.instances.get("R17.3", []) if y.startswith(f"propagated:{F.strip_generics(ob['def'])}:{kname}#")) + 1
            rep.oblige(ok3, "R17.3", f"propagated:{F.strip_generics(ob['def'])}:{kname}#{ordn}", F.loc(c["span"]), f"`{ob['def']}` does not hand on the failure of `{kname}` (its Result is flattened, defaulted or dropped): an execution error that was raised - a stack underflow, say - is not recorded, and the path continues as if the operation had succeeded", sample={"rule": "R17.3", "fn": ob["def"], "call": kname} if n_prop3 <= 3 else None)
    rep.floor("R17.3", n_prop3, 150, "fallible calls inside opcode implementations")
    # no opcode swallows an error it was handed: an arm that matches execution-error kinds and answers Ok(()) records the error
    # (at least in strict mode) first
    n_sw = 0
    for ob in vm.opcode_execs:
        rootO = ob["hir"]["value"]
        for m, mps in F.exprs(rootO, "Match"):
            for a in m["arms"]:
                pv = F.pat_variants(a["pat"])
                if not pv or not all(x == EXEC_ERR for x, _ in pv):
                    continue
                n_sw += 1
                body = a["body"]
                answers_ok = any(x.get("k") == "Call" and (F.path_def(x["f"]) or "").endswith("::Ok") and not x.get("exp") for x, _ in F.walk(body))
                records = any(any(y is x["node"] for y, _ in F.walk(body)) for x in site_info)
                # `K => Ok(payload)` feeding a later `?`-free recording (the conditional jump's kind-selecting match) counts
                feeds = any(x.get("k") == "Call" and (F.path_def(x["f"]) or "").endswith("::Ok") and x["args"] and F.local_of(F.strip(x["args"][0])) is not None and F.strip(x["args"][0]).get("k") == "Path" and (F.strip(x["args"][0]).get("ty") or "").find("Located") >= 0 for x, _ in F.walk(body))
                if answers_ok and not records and not feeds:
                    kinds = sorted(v for _, v in pv)
                    rep.oblige(
                        False,
                        "R17.3",
                        f"swallowed:{F.strip_generics(ob['def'])}:{'+'.join(kinds)}",
                        F.loc(a["span"]),
                        f"`{ob['def']}` matches the error kind(s) {kinds} and answers Ok(()) without recording the error: in strict mode the run succeeds although that error was raised",
                        sample={"rule": "R17.3", "opcode": ob["def"], "kinds": kinds},
                    )
    rep.floor("R17.3", n_sw, 1, "arms of opcode implementations that match execution-error kinds")
    # what has been recorded stays recorded: nothing in the error container removes payloads
    ERRS = "error::container::Errors"
    DROPPERS = {"dedup", "dedup_by", "dedup_by_key", "retain", "retain_mut", "truncate", "pop", "remove", "swap_remove", "clear", "drain", "split_off", "take"}
    n_cont = 0
    for b in fx.fn_bodies():
        if not (b.get("impl_self") or "").startswith(ERRS) or not b.get("hir"):
            continue
        n_cont += 1
        for c, cps in F.calls(b["hir"]["value"]):
            if c.get("k") == "MethodCall" and c["method"] in DROPPERS and "std::vec::Vec<" in (c.get("recv_ty") or ""):
                recv = T.term(c["recv"], T.Env())
                if recv[0] == "field" and recv[1][0] == "local" and recv[1][2] == "self":
                    rep.oblige(False, "R17.6", f"container-drops:{b['name']}:{c['method']}", F.loc(c["span"]), f"`Errors::{b['name']}` removes recorded errors with `{c['method']}`: an error that was raised and recorded is no longer listed in the result")
    rep.floor("R17.6", n_cont, 5, "methods of the error container scanned for removals")
    # ... and what is handed to the container is recorded: every adder appends its argument unconditionally (an insertion that
    # happens only when no error is listed at that location yet drops the second error of a location)
    n_add = 0
    for b in fx.fn_bodies():
        if not (b.get("impl_self") or "").startswith(ERRS) or not b.get("hir") or not (b.get("name") or "").startswith("add"):
            continue
        n_add += 1
        root = b["hir"]["value"]
        appends = [(c, cps) for c, cps in F.calls(root) if c.get("k") == "MethodCall" and c["method"] in ("push", "extend", "insert", "append", "extend_from_slice", "push_back") and "std::vec::Vec<" in (c.get("recv_ty") or "")]
        uncond = [c for c, cps in appends if not T.path_conditions(cps, c) and not any(isinstance(a, dict) and a.get("k") in ("If", "Match", "Loop", "Closure") for a, _ in cps)]
        rep.oblige(bool(uncond), "R17.6", f"adder-unconditional:{b['name']}", F.loc(b["span"]), f"`Errors::{b['name']}` does not append what it is handed on every path (the insertion is conditional or missing): an error that was raised is not listed in the result", sample={"rule": "R17.6", "adder": b["name"], "appends": len(appends)} if n_add <= 2 else None)
    rep.floor("R17.6", n_add, 3, "adders of the error container")
    # ... and nothing outside the container empties or replaces the buffer as a whole (mem::take on it, an assignment)
    from .c06 import check_no_replacement

    vm_adt = fx.adt("vm::VM")
    err_tys = sorted({f["ty"] for f in vm_adt["variants"][0]["fields"] if (f.get("ty") or "").startswith(ERRS)}) if vm_adt and vm_adt.get("variants") else []
    if rep.anchor("R17.6", bool(err_tys), "the error buffer field of the VM"):
        check_no_replacement(fx, rep, "R17.6", tuple(err_tys), "errors recorded so far are no longer in the machine's buffer, so a later look at the same run (its result, a second call) reports success or an incomplete list", owner_suffix="VM")
    # gas exhaustion is recorded whenever the comparison holds: the test that guards the recording is the bare comparison of the
    # thread's gas with the limit (not conjoined with "the thread still has something to execute")
    advb = vm.advance
    gas_sites = [x for x in site_info if x["fn"] == advb["def"] and x["built"] and "GasLimitExceeded" in x["kinds"]]
    rep.oblige(bool(gas_sites), "R17.6", "gas-error-raised", F.loc(advb["span"]), "the function that retires a thread for exceeding the gas limit never records GasLimitExceeded: running out of gas silently truncates the path, and the analysis succeeds with whatever was seen up to there", sample={"rule": "R17.6", "gas_error_sites": len(gas_sites)})
    for site in gas_sites:
        n6, ps6 = site["node"], site["ps"]
        mut6 = T.mutated_locals(advb["hir"]["value"])
        conds = [T.term(a["cond"], T.env_at(ps6, a, mut6), mut6) for a, key in ps6 if a.get("k") == "If" and key == "then"]
        inner = conds[-1] if conds else None
        bare = inner is not None and inner[0] == "bin" and inner[1] in ("Gt", "Ge", "Lt", "Le") and any(st[0] == "field" and st[2] == "gas_limit" for st in T.subterms(inner))
        rep.oblige(
            bare,
            "R17.6",
            "gas-error-iff-over-limit",
            F.loc(n6["span"]),
            f"the recording of GasLimitExceeded is guarded by `{T.short(inner)[:90] if inner else '?'}` rather than by the bare comparison of the thread's gas with the limit: a path that crosses the limit under the extra condition is retired without the error being raised",
            sample={"rule": "R17.6", "guard": T.short(inner)[:80] if inner else None},
        )
    # gas exhaustion: the counter is charged per instruction, inherited on fork and written nowhere else (C03 R03.4)
    from .. import core

    core.import_rules(rep, fx, "C03", "R17.6", only_rules=("R03.4",), floor=3, what="gas accounting obligations (C03 R03.4) behind 'gas exhaustion is raised'")
    # a bad jump target is an execution error only if the validator raises it: its clauses (constant only, full-width checked
    # conversion, an instruction exists there, it is the JUMPDEST type) are C08's R08.1
    core.import_rules(rep, fx, "C08", "R17.3", only_rules=("R08.1",), floor=4, what="validator obligations (C08 R08.1) behind 'every bad jump target is raised as an error'")

    check_pipeline_complete(fx, rep, cg)
    return rep.finish(
        "Case analysis of every place an execution error is recorded in the VM's buffer (kinds reaching it x dependence on the permissive flag), "
        "of the main loop's result (Ok only on the empty-buffer edge), of the Err arm (record + unconditional kill), of every read of the flag, and of "
        "every `.locate(..)` argument on execution paths.",
        "instances = recording sites, result expressions, flag reads, locate calls; enumerated from the call graph rooted at the main loop and the opcode implementations",
        ["the four jump-target kinds are identified by variant name in execution::Error (public API names)"],
    )
