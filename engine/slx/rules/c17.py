"""C17 — strict mode surfaces every execution error; permissive mode tolerates bad jumps.

R17.1 error-buffer writers : every call recording an execution error is enumerated with the error kinds that can reach it;
      a site that can receive one of the four jump-target kinds is on the `!permissive` side of the flag, any other site does
      not depend on the flag; the kinds filtered by the flag are exactly the four jump-target kinds.
R17.2 failure iff non-empty: the main loop returns Ok only on the buffer-is-empty edge and Err(buffer) otherwise; the staged
      API propagates that result with `?`.
R17.3 strict records all    : in the main loop's Err arm the payload is recorded for the jump kinds (when not permissive) and for
      every other kind unconditionally, and the thread is killed on every path of the arm.
R17.4 flag read only there  : the permissive flag is read only in conditions guarding an error-buffer writer.
R17.5 errors are located    : in opcode implementations, the stack handle and the VM loop, the argument of `.locate(..)` derives
      from the current instruction pointer.
"""
from .. import facts as F
from .. import terms as T
from ..vmmodel import EXEC_ERR, JUMP_KINDS, PERMISSIVE, CONFIG, VMModel, arm_kinds, mentions_flag, permissive_guard


def variants_built(node):
    out = set()
    for n, _ in F.walk(node):
        if n.get("k") == "Path" and (n.get("def") or "").startswith(EXEC_ERR + "::"):
            out.add(n["def"].split("::")[-1])
        if n.get("k") == "Struct" and n.get("adt") == EXEC_ERR and n.get("variant"):
            out.add(n["variant"])
    return out


def kinds_from_binding(root, lid):
    """`let x = match e.payload { K1 | K2 => Ok(p), _ => Err(p) }?;` -> {K1, K2}"""
    for n, ps in F.walk(root):
        if n.get("s") == "Let" and n["pat"].get("p") == "Bind" and n["pat"]["local"] == lid and "init" in n:
            init = n["init"]
            if init.get("k") == "Match" and "TryDesugar" in init.get("source", ""):
                inner = init["scrut"]["args"][0] if init["scrut"].get("k") == "Call" and init["scrut"]["args"] else None
                if inner is not None and inner.get("k") == "Match":
                    kinds = set()
                    for a in inner["arms"]:
                        pv = F.pat_variants(a["pat"])
                        body = F.strip(a["body"])
                        is_ok = body.get("k") == "Call" and (F.path_def(body["f"]) or "").endswith("Ok")
                        if is_ok:
                            if pv is None:
                                return None
                            kinds |= {v for _, v in pv}
                    return kinds
    return None


def check(fx, rep, tier):
    cg = F.CallGraph(fx)
    vm = VMModel(fx, cg)
    if not rep.anchor("R17.1", not vm.problems, "; ".join(vm.problems) or "VM anchors"):
        return rep.finish("anchor lost", "n/a")
    err_adt = fx.adt(EXEC_ERR)
    all_kinds = [v["name"] for v in err_adt["variants"]]
    rep.anchor("R17.1", JUMP_KINDS <= set(all_kinds), f"the four jump-target error kinds {sorted(JUMP_KINDS)} exist in execution::Error")

    # ---------------------------------------------------------------- R17.1
    sites = vm.buffer_writer_sites()
    rep.floor("R17.1", len(sites), 2, "calls recording an execution error in the VM's buffer")
    filtered_kinds = set()
    site_info = []
    for b, n, ps, via in sites:
        rep.fn(b["def"])
        w = F.loc(n["span"])
        kinds, implied = arm_kinds(ps, all_kinds, with_implied=True, fx=fx)
        how = "match arm"
        if kinds is None:
            built = set()
            for a in F.call_args(n)[1:] if n.get("k") == "MethodCall" else F.call_args(n):
                built |= variants_built(a)
            if built:
                kinds, how = built, "constructed in place"
        if kinds is None:
            for a in F.call_args(n):
                lid = F.local_of(a)
                if lid is not None:
                    k2 = kinds_from_binding(b["hir"]["value"], lid)
                    if k2 is not None:
                        kinds, how = k2, "bound from a kind-selecting match"
        guard = permissive_guard(ps)
        ordinal = sum(1 for x in site_info if x[0] == b["def"]) + 1
        key = f"writer:{F.strip_generics(b['def'])}#{ordinal}"
        if kinds is not None and implied and guard is None and (kinds & JUMP_KINDS) <= implied:
            # jump kinds reach this site only with the flag off (an earlier arm guarded by the flag took them):
            # record it as two logical sites
            site_info.append((b["def"], kinds & JUMP_KINDS, "not-permissive", n, ps))
            filtered_kinds |= kinds & JUMP_KINDS
            kinds = kinds - JUMP_KINDS
            how = "match arm (jump kinds intercepted by a flag-guarded arm)"
        site_info.append((b["def"], kinds, guard, n, ps))
        if kinds is None:
            rep.oblige(False, "R17.1", key, w, f"cannot determine which error kinds reach this recording site in `{b['def']}` (unrecognised idiom): it may record jump-target errors in permissive mode")
            continue
        jump = kinds & JUMP_KINDS
        other = kinds - JUMP_KINDS
        if jump and other:
            ok = False
            msg = f"site can receive both jump-target kinds {sorted(jump)} and other kinds {sorted(other)[:3]}..: the two classes need different treatment in permissive mode"
        elif jump:
            ok = guard == "not-permissive"
            msg = f"jump-target errors {sorted(jump)} are recorded {'only in permissive mode' if guard=='permissive' else 'regardless of the permissive flag'}: permissive mode must tolerate them, strict mode must surface them"
            if ok:
                filtered_kinds |= jump
        else:
            ok = guard is None
            msg = f"errors {sorted(other)[:4]} are recorded only when {guard}: every error other than a bad jump target must fail the run in both modes"
        rep.oblige(
            ok,
            "R17.1",
            key,
            w,
            msg,
            sample={"rule": "R17.1", "fn": b["def"], "kinds": sorted(kinds)[:6], "kinds_from": how, "guard": guard, "at": w},
        )
    rep.oblige(
        filtered_kinds == JUMP_KINDS or not filtered_kinds,
        "R17.1",
        "filtered-kinds",
        "-",
        f"the permissive flag filters {sorted(filtered_kinds)}; it must filter exactly the four jump-target kinds {sorted(JUMP_KINDS)}",
    )
    # no arm that matches jump kinds under the permissive flag may swallow other kinds
    ml = vm.main_loop
    for m, ps in F.exprs(ml["hir"]["value"], "Match"):
        for a in m["arms"]:
            pv = F.pat_variants(a["pat"])
            if pv and all(x == EXEC_ERR for x, _ in pv):
                ks = {v for _, v in pv}
                if mentions_flag(a["body"]) or ("guard" in a and mentions_flag(a["guard"])):
                    rep.oblige(
                        ks <= JUMP_KINDS,
                        "R17.1",
                        "flag-arm-kinds",
                        F.loc(a["span"]),
                        f"the arm whose treatment depends on the permissive flag also matches {sorted(ks - JUMP_KINDS)}: those errors would be tolerated in permissive mode",
                        sample={"rule": "R17.1", "arm_kinds": sorted(ks)},
                    )

    # ---------------------------------------------------------------- R17.2
    root = ml["hir"]["value"]
    oks = []
    for n, ps in F.walk(root):
        if n.get("k") == "Call" and (F.path_def(n["f"]) or "").endswith("::Ok") and not n.get("exp"):
            # skip Ok inside closures / match arms handling instruction results
            if any(a.get("k") == "Closure" for a, _ in ps):
                continue
            # only value-position Oks of the function: tail expression chain or `return`
            oks.append((n, ps))
    result_oks = []
    for n, ps in oks:
        # is it the function's result? every ancestor up to the root must be a tail position
        is_result = True
        child = n
        for anc, key in reversed(ps):
            if anc.get("k") == "Ret":
                break
            if "stmts" in anc and key == "stmts":
                is_result = False
                break
            if anc.get("k") in ("Call", "MethodCall", "Let", "Assign", "Struct") or anc.get("s") in ("Let",):
                is_result = False
                break
            if anc.get("k") == "Match" and key == "scrut":
                is_result = False
                break
            if anc.get("k") == "Loop":
                is_result = False
                break
        if is_result:
            result_oks.append((n, ps))
    rep.floor("R17.2", len(result_oks), 1, "Ok results of the VM main loop function")
    for n, ps in result_oks:
        guarded = False
        for anc, key in ps:
            if anc.get("k") == "If" and key in ("then", "else"):
                c = anc["cond"]
                neg = False
                while c.get("k") == "Unary" and c.get("op") == "Not":
                    neg = not neg
                    c = c["e"]
                if c.get("k") == "MethodCall" and c["method"] == "is_empty" and EXEC_ERR in (c.get("recv_ty") or ""):
                    if (key == "then") != neg:
                        guarded = True
                        other = anc.get("else") if key == "then" else anc.get("then")
                        err_ok = other is not None and any(x.get("k") == "Call" and (F.path_def(x["f"]) or "").endswith("::Err") for x, _ in F.walk(other))
                        rep.oblige(err_ok, "R17.2", "err-when-nonempty", F.loc(anc["span"]), "when the error buffer is not empty the main loop does not return Err(buffer)")
        rep.oblige(
            guarded,
            "R17.2",
            "ok-iff-empty",
            F.loc(n["span"]),
            "the VM main loop can return Ok while errors are buffered: strict mode would not surface them",
            sample={"rule": "R17.2", "ok_at": F.loc(n["span"]), "guard": "errors.is_empty()"},
        )
    # propagation through the staged API
    n_prop = 0
    for caller in sorted(cg.callers_of(ml["def"])):
        cb = fx.body(caller)
        if not cb or "hir" not in cb or cb.get("from_expansion"):
            continue
        for n, ps in F.calls(cb["hir"]["value"]):
            if ml["def"] in cg.resolve_local(n):
                n_prop += 1
                propagated = any(a.get("k") == "Match" and "TryDesugar" in a.get("source", "") for a, _ in ps[-3:])
                is_tail = not any("stmts" in a and k == "stmts" for a, k in ps[-2:])
                rep.oblige(propagated or (is_tail and False), "R17.2", f"propagate:{F.strip_generics(caller)}", F.loc(n["span"]), f"`{caller}` does not propagate the result of the VM main loop with `?`")
    rep.floor("R17.2", n_prop, 1, "callers of the VM main loop in the staged API")

    # ---------------------------------------------------------------- R17.3
    err_arm = None
    en, eps = vm.exec_call
    # the match on the execute result: the let-bound local of the call or a direct match
    res_local = None
    for anc, key in reversed(eps):
        if anc.get("s") == "Let" and key == "init" and anc["pat"].get("p") == "Bind":
            res_local = anc["pat"]["local"]
            break
    for m, ps in F.exprs(root, "Match"):
        sc = m["scrut"]
        if (res_local is not None and F.local_of(sc) == res_local) or any(x is en for x, _ in F.walk(sc)):
            for a in m["arms"]:
                pv = F.pat_variants(a["pat"])
                if pv and any(v == "Err" for _, v in pv):
                    err_arm = a
    if rep.anchor("R17.3", err_arm is not None, "the Err arm of the match on the opcode's execute result in the main loop"):
        body = err_arm["body"]
        # kill is a top-level statement of the arm (not under a condition)
        kills = [(n, ps) for n, ps in F.calls(body) if (F.callee_def(n) or "").endswith("kill_current_thread")]
        uncond = False
        for n, ps in kills:
            cond = any(a.get("k") in ("If", "Match", "Loop", "Closure") for a, _ in ps)
            if not cond:
                uncond = True
        # or: one kill in every arm of an exhaustive inner match
        if not uncond and kills:
            for m, ps in F.exprs(body, "Match"):
                if all(any((F.callee_def(c) or "").endswith("kill_current_thread") and not any(a.get("k") == "If" for a, _ in cps) for c, cps in F.calls(a["body"])) for a in m["arms"]):
                    uncond = True
        rep.oblige(
            uncond,
            "R17.3",
            "kill-on-error",
            F.loc(err_arm["span"]),
            "an opcode error does not end the current thread on every path of the main loop's Err arm: the thread keeps executing past the failed instruction",
            sample={"rule": "R17.3", "kills": len(kills), "unconditional": uncond},
        )
        # coverage of kinds by recording sites inside the arm
        arm_sites = [(k, g) for fn, k, g, n, ps in site_info if fn == ml["def"] and any(x is n for x, _ in F.walk(body))]
        covered_jump = set()
        covered_other = set()
        for k, g in arm_sites:
            if k is None:
                continue
            if g == "not-permissive":
                covered_jump |= k & JUMP_KINDS
            if g is None:
                covered_other |= k
        missing_other = set(all_kinds) - JUMP_KINDS - covered_other
        rep.oblige(not missing_other, "R17.3", "record-all-other", F.loc(err_arm["span"]), f"errors of kind {sorted(missing_other)[:4]} raised by an instruction are not recorded: strict mode would succeed despite them")
        rep.oblige(covered_jump == JUMP_KINDS or JUMP_KINDS <= covered_other, "R17.3", "record-jump-strict", F.loc(err_arm["span"]), f"jump-target errors {sorted(JUMP_KINDS - covered_jump)} are not recorded in strict mode")

    # ---------------------------------------------------------------- R17.4
    reads = []
    for b in fx.fn_bodies():
        hir = b.get("hir")
        if not hir or (b.get("impl_self") == CONFIG):
            continue
        for n, ps in F.walk(hir["value"]):
            if n.get("k") == "Field" and n["field"] == PERMISSIVE and n.get("adt") == CONFIG:
                reads.append((b, n, ps))
    rep.floor("R17.4", len(reads), 1, "reads of the permissive flag outside the configuration type")
    for b, n, ps in reads:
        # the read sits in a condition (If cond / arm guard) that guards a writer site
        guards_writer = False
        for anc, key in reversed(ps):
            if (anc.get("k") == "If" and key == "cond") or ("pat" in anc and key == "guard"):
                holder = anc
                for fn, k, g, wn, wps in site_info:
                    if any(x is wn for x, _ in F.walk(holder)):
                        guards_writer = True
                # `{}` arm guarded by the flag with no writer inside: also a legitimate "tolerate" form if the arm matches jump kinds
                if not guards_writer and "pat" in anc:
                    pv = F.pat_variants(anc["pat"])
                    if pv and {v for _, v in pv} <= JUMP_KINDS:
                        guards_writer = True
                break
        rep.oblige(
            guards_writer,
            "R17.4",
            f"flag-read:{F.strip_generics(b['def'])}",
            F.loc(n["span"]),
            f"`{b['def']}` reads the permissive flag outside a condition that guards the recording of an error: a run without errors could differ between the modes",
            sample={"rule": "R17.4", "fn": b["def"], "at": F.loc(n["span"])},
        )

    # ---------------------------------------------------------------- R17.5
    scope = {b["def"] for b in vm.opcode_execs} | {ml["def"], vm.advance["def"]}
    scope = cg.reachable(scope)
    n_loc = 0
    listed = 0
    for name in sorted(scope):
        b = fx.body(name)
        if not b or "hir" not in b or b.get("from_expansion"):
            continue
        if not (name.startswith("<opcode::") or name.startswith("opcode::") or name.startswith("vm::")):
            continue
        root2 = b["hir"]["value"]
        mutated = None
        for n, ps in F.calls(root2):
            if (F.callee_def(n) or "") != "error::container::Locatable::locate":
                continue
            if EXEC_ERR not in (n.get("def_full") or n.get("resolved") or "") and EXEC_ERR not in (n.get("ty") or ""):
                continue
            if mutated is None:
                mutated = T.mutated_locals(root2)
            n_loc += 1
            env = T.env_at(ps, n, mutated)
            t = T.term(n["args"][0], env, mutated)
            ok = False
            why = T.short(t)[:60]
            s = t
            while s[0] == "cast":
                s = s[1]
            if s[0] == "call" and isinstance(s[1], str) and F.strip_generics(s[1]).endswith("instruction_pointer"):
                ok = True
            if s[0] == "field" and s[2] == "instruction_pointer":
                ok = True
            if s[0] == "local" and str(s[2]) in ("instruction_pointer", "current_instruction"):
                ok = True  # a parameter carrying the pointer (checked at its callers by the same rule)
            if not ok and t[0] == "call" and isinstance(t[1], str) and F.strip_generics(t[1]).endswith("instructions_len"):
                # "no current thread" errors: no instruction is executing; listed, not alarmed
                listed += 1
                ok = True
            rep.oblige(
                ok,
                "R17.5",
                f"locate:{F.strip_generics(name)}",
                F.loc(n["span"]),
                f"an execution error in `{name}` is located at `{why}`, which does not derive from the current instruction pointer",
                sample={"rule": "R17.5", "fn": name, "location": why} if n_loc <= 6 else None,
            )
    rep.floor("R17.5", n_loc, 20, "located execution errors on execution paths")
    rep.extra["no_current_thread_sites_listed"] = listed
    rep.exhaustive = True
    return rep.finish(
        "Case analysis of every place an execution error is recorded in the VM's buffer (kinds reaching it x dependence on the permissive flag), "
        "of the main loop's result (Ok only on the empty-buffer edge), of the Err arm (record + unconditional kill), of every read of the flag, and of "
        "every `.locate(..)` argument on execution paths.",
        "instances = recording sites, result expressions, flag reads, locate calls; enumerated from the call graph rooted at the main loop and the opcode implementations",
        ["the four jump-target kinds are identified by variant name in execution::Error (public API names)"],
    )
