"""C20 — layouts survive a JSON round trip with exact 256-bit indices.

R20.1 derived and symmetric : every type in the closure of the layout entry has both Serialize and Deserialize; derived
      ones carry only symmetric serde attributes (rename / rename_all); no lossy field type (floats, raw 256-bit integers
      without the wrapper, narrower-than-value integers for the index).
R20.2 hand-written pair      : the index wrapper's writer is "0x" + lower-hex of all 32 big-endian bytes handed to
      serialize_str; its reader parses a 0x-prefixed hex string straight into 256 bits; no integer narrower than 256 bits
      is on the value's path in either.
R20.3 round-trip equality    : equality/hash of the entry types ignore only the conflict payload fields (both of them,
      for both traits), so "deserialises to an equal entry" means what the property says.
"""
import re

from .. import facts as F
from .. import srcattrs
from .. import terms as T

ROOT = "layout::StorageSlot"
SYMMETRIC = {"rename", "rename_all"}
ASYMMETRIC = {
    "skip", "skip_serializing", "skip_deserializing", "skip_serializing_if", "default", "serialize_with", "deserialize_with",
    "with", "untagged", "flatten", "alias", "other", "from", "try_from", "into", "tag", "content", "transparent", "bound", "getter", "remote",
    "deny_unknown_fields", "borrow", "variant_identifier", "field_identifier", "expecting",
}
NARROW_TY = ("u8", "u16", "u32", "u64", "u128", "usize", "i8", "i16", "i32", "i64", "i128", "isize", "f32", "f64")


def adt_names_in(ty, fx):
    return [a for a in fx.adts if re.search(r"(?<![A-Za-z0-9_:])" + re.escape(a) + r"(?![A-Za-z0-9_])", ty)]


def closure_of(fx, root):
    seen = []
    stack = [root]
    while stack:
        a = stack.pop()
        if a in seen or a not in fx.adts:
            continue
        seen.append(a)
        for v in fx.adts[a]["variants"]:
            for f in v["fields"]:
                for b in adt_names_in(f["ty"], fx):
                    stack.append(b)
    return seen


def serde_args(attr):
    """'#[serde(rename = "type", skip)]' -> ['rename', 'skip']"""
    m = re.match(r"#\[\s*serde\s*\((.*)\)\s*\]$", attr.strip(), re.S)
    if not m:
        return None
    out = []
    depth = 0
    cur = ""
    for c in m.group(1):
        if c in "([{":
            depth += 1
        elif c in ")]}":
            depth -= 1
        if c == "," and depth == 0:
            out.append(cur.strip())
            cur = ""
        else:
            cur += c
    if cur.strip():
        out.append(cur.strip())
    return [re.split(r"[\s=(]", x, 1)[0] for x in out]


def check(fx, rep, tier):
    if not rep.anchor("R20.1", fx.adt(ROOT) is not None, "the layout entry type StorageSlot"):
        return rep.finish("anchor lost", "n/a")
    types = closure_of(fx, ROOT)
    rep.floor("R20.1", len(types), 4, "types in the serialisation closure of a layout entry")
    manual = {}
    for a in types:
        adt = fx.adts[a]
        w = F.loc(adt["span"])
        impls = [i for i in fx.impls if i.get("self_adt") == a and i.get("trait")]
        ser = [i for i in impls if i["trait"].endswith("::Serialize")]
        de = [i for i in impls if i["trait"].endswith("::Deserialize")]
        rep.oblige(
            len(ser) == 1 and len(de) == 1,
            "R20.1",
            f"both-impls:{a}",
            w,
            f"`{a}` has {len(ser)} Serialize and {len(de)} Deserialize implementation(s): a layout entry containing it cannot make the round trip",
            sample={"rule": "R20.1", "type": a, "serialize": len(ser), "deserialize": len(de)},
        )
        ser_manual = ser and not ser[0].get("from_expansion")
        de_manual = de and not de[0].get("from_expansion")
        if ser_manual or de_manual:
            manual[a] = (ser[0] if ser else None, de[0] if de else None)
            rep.oblige(
                bool(ser_manual) == bool(de_manual),
                "R20.1",
                f"pair-kind:{a}",
                w,
                f"`{a}` mixes a derived and a hand-written (de)serialiser: nothing ties the two formats together",
            )
        # attributes
        outer, members = srcattrs.item_attrs(adt["span"])
        all_attrs = [("<type>", x) for x in outer] + [(k, x) for k, v in members.items() for x in v]
        expected_members = sum(len(v["fields"]) for v in adt["variants"]) + (len(adt["variants"]) if adt["kind"] == "Enum" else 0)
        # fail closed if the textual reader lost track of the item
        named_fields = sum(1 for v in adt["variants"] for f in v["fields"] if not f["name"].isdigit())
        rep.oblige(
            len(members) >= named_fields,
            "R20.1",
            f"attr-reader:{a}",
            w,
            f"could not read the attributes of `{a}` from its source (found {len(members)} members, expected >= {named_fields})",
        )
        for where, attr in all_attrs:
            args = serde_args(attr)
            if args is None:
                continue
            bad = [x for x in args if x not in SYMMETRIC]
            # `default` + `skip_serializing_if = "<pred>"` is symmetric when the predicate holds exactly for the
            # default value: accepted for the std emptiness predicates and for an in-crate predicate `*v == <zero>`
            if set(bad) == {"default", "skip_serializing_if"} and "default =" not in attr.replace("default,", ""):
                m = re.search(r'skip_serializing_if\s*=\s*"([^"]+)"', attr)
                pred = m.group(1) if m else ""
                agrees = pred in ("Option::is_none", "Vec::is_empty", "String::is_empty", "std::ops::Not::not")
                if not agrees:
                    for pb in fx.fn_bodies():
                        if pb["def"].split("::")[-1] == pred.split("::")[-1] and len(pb["hir"]["params"]) == 1:
                            pt = T.block_term({"stmts": [], "expr": pb["hir"]["value"]}, T.Env())
                            if pt[0] == "bin" and pt[1] == "Eq" and (pt[3] in (("lit", "0"), ("lit", False)) or pt[2] in (("lit", "0"), ("lit", False))):
                                agrees = True
                if agrees:
                    bad = []
            rep.oblige(
                not bad,
                "R20.1",
                f"serde-attr:{a}:{where}",
                w,
                f"`{a}` {where} carries serde attribute(s) {bad}: the written and the read form can differ (only rename / rename_all are symmetric)",
                sample={"rule": "R20.1", "type": a, "member": where, "attr": attr},
            )
        # field types
        for v in adt["variants"]:
            for f in v["fields"]:
                ty = f["ty"]
                lossy = None
                if re.search(r"\bf(32|64)\b", ty):
                    lossy = "a float"
                if "ethnum::" in ty and a not in manual and "utility::U256Wrapper" not in ty:
                    lossy = "a raw 256-bit integer without the hex wrapper"
                if a == ROOT and f["name"] == "index" and ty != "utility::U256Wrapper":
                    lossy = f"`{ty}` instead of the 256-bit wrapper"
                rep.oblige(lossy is None, "R20.1", f"field-type:{a}:{v['name']}.{f['name']}", w, f"field `{f['name']}` of `{a}` is {lossy}: not exact in JSON")

    # R20.2 ---------------------------------------------------------------------------------
    wrapper = "utility::U256Wrapper"
    rep.anchor("R20.2", wrapper in manual, "hand-written Serialize/Deserialize pair of the 256-bit index wrapper")
    if wrapper in manual:
        ser, de = manual[wrapper]
        sb = fx.body([it["def"] for it in ser["items"] if it["name"] == "serialize"][0]) if ser else None
        db = fx.body([it["def"] for it in de["items"] if it["name"] == "deserialize"][0]) if de else None
        if rep.anchor("R20.2", sb is not None and db is not None, "serialize / deserialize bodies of the wrapper"):
            rep.fn(sb["def"])
            rep.fn(db["def"])
            w = F.loc(sb["span"])
            calls = [(F.callee(c) or F.callee_def(c) or "", c) for c, _ in F.calls(sb["hir"]["value"])]
            names = [F.strip_generics(n) for n, _ in calls]
            short = [n.split("::")[-1] for n in names]
            lits = [n["value"]["v"] for n, _ in F.walk(sb["hir"]["value"]) if n.get("k") == "Lit" and n["value"].get("lit") == "str"]
            be = any(n.endswith("::to_be_bytes") and "ethnum" in n for n in names)
            other_order = [s for s in short if s in ("to_le_bytes", "to_ne_bytes", "swap_bytes", "to_le", "to_be", "rev", "reverse")]
            hexenc = any(n == "hex::encode" for n in names)
            other_fmt = [s for s in short if s in ("encode_upper", "to_string", "format", "to_uppercase", "trim_start_matches", "trim_start", "strip_prefix", "truncate")]
            fmt_macro = any("format" in (n.get("exp") or "") for n, _ in F.walk(sb["hir"]["value"]) if n.get("exp"))
            # `format!("0x{}", hex::encode(..))`: the compiler lowers the template to the byte string
            # [2, '0', 'x', 0xC0 (plain `{}` of argument 0), 0]; exactly that template is the same writer
            templates = [n["value"].get("v") for n, _ in F.walk(sb["hir"]["value"]) if n.get("k") == "Lit" and "FormatLiteral" in str(n.get("exp")) and n["value"].get("lit") == "other"]
            plain_0x = templates == ["ByteStr([2, 48, 120, 192, 0], Cooked)"]
            if fmt_macro and plain_0x:
                fmt_macro = False
                lits = ["0x"]
                other_fmt = [x for x in other_fmt if x != "format"]
            ser_str = any(s == "serialize_str" for s in short)
            narrow = [s for s in short if s.startswith("as_u") or s.startswith("as_i") or s in ("low", "high")]
            casts = [n for n, _ in F.walk(sb["hir"]["value"]) if n.get("k") == "Cast"]
            ok = be and not other_order and hexenc and not other_fmt and not fmt_macro and ser_str and lits == ["0x"] and not narrow and not casts
            # alternative writer: LowerHex formatting of the whole inner 256-bit integer (`format!("0x{:x}", self.0)` or
            # `format!("{:#x}", self.0)`): every digit of the value is written and the reader accepts any digit count
            lower_hex = any(n in ("core::fmt::rt::Argument::new_lower_hex", "core::fmt::rt::Argument::new_upper_hex") for n in names)
            hex_templates = ("ByteStr([2, 48, 120, 192, 0], Cooked)", "ByteStr([193, 32, 0, 128, 96, 0], Cooked)")
            arg_is_inner = False
            for c, _ in F.calls(sb["hir"]["value"]):
                if F.strip_generics(F.callee(c) or F.callee_def(c) or "") in ("core::fmt::rt::Argument::new_lower_hex", "core::fmt::rt::Argument::new_upper_hex") and c["args"]:
                    a = F.strip(c["args"][0])
                    lid = F.local_of(a)
                    # format_args binds its arguments first: `match (&self.0,) { args => .. args.0 .. }`
                    txt = str(T.term(c["args"][0], T.Env()))
                    arg_is_inner = "ethnum::U256" in (c["args"][0].get("ty") or "")
            if not ok and lower_hex and len(templates) == 1 and templates[0] in hex_templates and arg_is_inner and ser_str and not narrow and not casts and not other_order and not hexenc:
                ok = True
            rep.oblige(
                ok,
                "R20.2",
                "writer",
                w,
                f"the index writer is not `\"0x\" + hex::encode(all 32 big-endian bytes)` -> serialize_str (be={be}, other byte order={other_order}, hex={hexenc}, other formatting={other_fmt or fmt_macro}, prefix literals={lits}, narrowing={narrow or len(casts)})",
                sample={"rule": "R20.2", "writer_calls": short, "prefix": lits},
            )
            w = F.loc(db["span"])
            calls = [(F.callee(c) or F.callee_def(c) or "") for c, _ in F.calls(db["hir"]["value"])]
            names = [F.strip_generics(n) for n in calls]
            short = [n.split("::")[-1] for n in names]
            parse256 = any(n.endswith("::from_str_hex") and "ethnum" in n and "I256" not in n for n in names)
            narrow = [n for n in names if any(f"{t}::from_str_radix" in n or f"<{t} as std::str::FromStr>" in n for t in NARROW_TY)] + [s for s in short if s.startswith("as_u") or s.startswith("as_i")]
            mangling = [s for s in short if s in ("trim_start_matches", "strip_prefix", "to_lowercase", "to_uppercase", "rev", "reverse", "swap_bytes", "from_le_bytes", "to_be", "to_le", "truncate", "split_at", "get")]
            casts = [n for n, _ in F.walk(db["hir"]["value"]) if n.get("k") == "Cast"]
            str_in = any("std::string::String" in (n.get("ty") or "") or "&str" in (n.get("ty") or "") for n, _ in F.walk(db["hir"]["value"]) if n.get("s") == "Let" or n.get("p") == "Bind")
            wraps = any(n.get("k") == "Call" and (F.path_def(n["f"]) or "").startswith(wrapper) for n, _ in F.walk(db["hir"]["value"])) or any(
                n.get("k") == "Path" and (n.get("ctor_of") or n.get("def") or "").startswith(wrapper) and str(n.get("defkind", "")).startswith("Ctor") for n, _ in F.walk(db["hir"]["value"])
            )
            # the text is deserialised into an owned string (or Cow): `&str` only works for inputs that can lend a
            # borrowed, escape-free slice (from_str / from_slice) and fails for from_reader / from_value / escaped text
            # (resolved callee: `..::<impl Deserialize<'_> for std::string::String>::deserialize::<D>`; the result type of
            # the call says which text type is produced)
            de_calls = [c for c, _ in F.calls(db["hir"]["value"]) if (F.callee_def(c) or "").endswith("Deserialize::deserialize")]
            de_impls = []
            for c in de_calls:
                ty = (c.get("ty") or "")
                inner = ty[len("std::result::Result<"):] if ty.startswith("std::result::Result<") else ty
                de_impls.append(inner.split(", <")[0].strip())
            borrowed = [t for t in de_impls if t.startswith("&")]
            owned = [t for t in de_impls if t.startswith("std::string::String") or t.startswith("std::borrow::Cow<")]
            rep.oblige(
                bool(owned) and not borrowed,
                "R20.2",
                "reader-owned-text",
                w,
                f"the index reader deserialises its text as {de_impls or 'an unrecognised type'}: a borrowed `&str` cannot be produced by readers, `Value`s or escaped strings, so a layout saved to a file does not read back",
                sample={"rule": "R20.2", "text_type": de_impls},
            )
            ok = parse256 and not narrow and not mangling and not casts and wraps
            rep.oblige(
                ok,
                "R20.2",
                "reader",
                w,
                f"the index reader does not parse the 0x-prefixed hex string straight into 256 bits (from_str_hex={parse256}, narrowing={narrow or len(casts)}, string/byte mangling={mangling})",
                sample={"rule": "R20.2", "reader_calls": short},
            )

    # R20.3 ---------------------------------------------------------------------------------
    ignored = {}
    for a in types:
        adt = fx.adts[a]
        outer, members = srcattrs.item_attrs(adt["span"])
        for k, attrs in members.items():
            for x in attrs:
                if "derivative" in x and "ignore" in x:
                    ignored.setdefault(a, {})[k] = x
        # manual PartialEq impls in the closure would also change what "equal" means
        for i in fx.impls:
            if i.get("self_adt") == a and i.get("trait") in ("std::cmp::PartialEq",) and not i.get("from_expansion"):
                rep.oblige(False, "R20.3", f"manual-eq:{a}", F.loc(i["span"]), f"`{a}` has a hand-written PartialEq: round-trip equality is no longer structural")
    want = {"tc::abi::AbiType": {"ConflictedType.conflicts", "ConflictedType.reasons"}}
    got = {a: set(v) for a, v in ignored.items()}
    rep.oblige(
        got == want,
        "R20.3",
        "ignored-fields",
        "-",
        f"fields ignored by equality in the entry types are {got}; the property allows exactly the conflict explanations {want}",
        sample={"rule": "R20.3", "ignored": {a: sorted(v) for a, v in got.items()}},
    )
    for a, m in ignored.items():
        for k, x in m.items():
            both = re.search(r"PartialEq\s*=\s*\"ignore\"", x) and re.search(r"Hash\s*=\s*\"ignore\"", x)
            rep.oblige(bool(both), "R20.3", f"eq-hash-agree:{a}:{k}", "-", f"`{a}::{k}` is ignored by only one of PartialEq / Hash ({x}): equal values would hash differently")
    # `nested to any depth`: the entry type is recursive (two JSON levels per type level) and the standard reader gives up at 128
    # levels, so a reported type nested 64 deep is written but cannot be read back. Nothing in the serialised types can change
    # that; what can is a bound on the depth of reported types, where they are produced - the conversion of resolved types into
    # reported ones (C01 R01.3: a recursion that ends through a seen set also bounds its depth).
    from .. import core as _core20

    _core20.import_rules(rep, fx, "C01", "R20.3", only_rules=("R01.3",), floor=1, what="the depth bound of the conversion into reported types (C01 R01.3 recursion-depth)", key_filter=lambda k: "recursion-depth" in k and "abi_type" in k)
    rep.exhaustive = True
    return rep.finish(
        "Writer/reader agreement by construction over the type closure of a layout entry: presence of both serde impls per type, "
        "only symmetric serde attributes on derived types, no lossy field type, and the hand-written hex pair of the 256-bit wrapper "
        "classified call by call (big-endian, all 32 bytes, 0x prefix, straight 256-bit parse, nothing narrower on the path).",
        "instances = types in the closure x {impl pair, attributes per member, field types} + writer + reader + ignored-field table; the closure is enumerated completely",
        ["serde_json, hex::encode and ethnum::U256::from_str_hex behave as documented (trusted); the round trip itself is not executed"],
    )
