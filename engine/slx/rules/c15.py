"""C15 — compatible evidence joins to its most specific type; contradictions conflict.

R15.1 usage table is a join     : the 8x8 usage table read from the source is idempotent, commutative, associative with failure
      absorbing, has `Bytes` as its identity, and merge(a,b)=c implies c is one of a, b and an upper bound of both.
R15.2 width is kept             : the width table of the Word x Word arm over {unknown, w, w'} keeps a known width over an
      unknown one, keeps equal widths, and leaves the function with a conflict for different widths; the resulting word is built
      from that width and the merged usage.
R15.3 contradictions conflict   : evidence is never silently dropped by an arm that returns one operand unchanged while the other
      operand's class can conflict with itself (= R16.3), and plainly contradictory constructor pairs (mapping / dynamic array /
      fixed array against each other; mapping or fixed array against a word) select only conflict-producing arms.
R15.4 conflicts absorb and accumulate: the two Conflict arms precede every other non-panicking arm and build their result with
      conflict_with, which extends both the conflict list and the reason list.
"""
import itertools

from .. import facts as F
from .. import tabeval
from .. import terms as T
from ..mergemodel import TE, MergeModel
from .c16 import check_absorption, check_usage_laws, result_exprs, usage_table


def check_width_table(mm, rep):
    arm = None
    for a in mm.arms:
        if any(l == {"Word"} and r == {"Word"} for l, r in a.alts):
            arm = a
    if not rep.anchor("R15.2", arm is not None, "the Word x Word arm of merge"):
        return
    # bindings of the two width fields
    binds = {}
    p = arm.node["pat"]
    for side, sp in (("L", p["pats"][0]), ("R", p["pats"][1])):
        for lid, (name, path) in F.pat_bindings(sp).items():
            if path and path[-1][1] == "width":
                binds[side] = lid
            if path and path[-1][1] == "usage":
                binds[side + "u"] = lid
    if not rep.anchor("R15.2", "L" in binds and "R" in binds, "width bindings of both words in the Word x Word arm"):
        return
    # the word that is built: TE::word(W, U); W is a local bound somewhere in the arm
    word_calls = [c for c, _ in F.calls(arm.node["body"]) if F.strip_generics(F.callee_def(c) or "").endswith("TypeExpression::word") and len(c["args"]) == 2]
    wl = F.local_of(F.strip(word_calls[0]["args"][0])) if word_calls else None
    if not rep.anchor("R15.2", wl is not None, "the merged word TE::word(width, usage) with a let-bound width"):
        return
    A, B = ("w", "A"), ("w", "B")
    toks = {"unknown": tabeval.NONE, "w": tabeval.some(A), "w'": tabeval.some(B)}
    want = {
        ("unknown", "unknown"): tabeval.NONE,
        ("w", "unknown"): tabeval.some(A),
        ("unknown", "w"): tabeval.some(A),
        ("w", "w"): tabeval.some(A),
        ("w", "w'"): "conflict",
        ("w'", "w"): "conflict",
    }
    bad = []
    where_w = arm.where()
    try:
        for (x, y), expect in want.items():
            env = {binds["L"]: toks[x], binds["R"]: toks[y]}
            r = tabeval.eval_block_prefix(arm.node["body"], env, wl)
            if expect == "conflict":
                ok = isinstance(r, tuple) and r[0] == "return"
            else:
                ok = r == expect
            if not ok:
                bad.append(f"widths ({x}, {y}) give {r}")
    except tabeval.NotATable as e:
        rep.oblige(False, "R15.2", "width-table", where_w, f"the width combination is no longer a table over (unknown, w, w') ({e})")
        return
    rep.oblige(not bad, "R15.2", "width-table", where_w, "the width table of Word x Word is wrong: " + "; ".join(bad), sample={"rule": "R15.2", "cases": len(want), "table": "known beats unknown, equal stays, different conflicts"})
    # the different-width exit builds a conflict: every `return` in front of the width's binding does
    wk = None
    for n_, _ in F.walk(arm.node["body"]):
        if n_.get("s") == "Let" and "init" in n_ and n_["pat"].get("p") == "Bind" and n_["pat"].get("local") == wl:
            wk = T._span_key(n_["span"])
    rets = [n for n, _ in F.walk(arm.node["body"]) if n.get("k") == "Ret" and (wk is None or T._span_key(n["span"])[1] <= wk[2])]
    conf = all(any(F.strip_generics(F.callee_def(c) or "").endswith("TypeExpression::conflict") for c, _ in F.calls(r)) for r in rets) and rets
    rep.oblige(bool(conf), "R15.2", "different-widths-conflict", where_w, "different known widths do not produce a conflict")
    # result word built from (that width, merged usage)
    built = False
    for c, cps in F.calls(arm.node["body"]):
        if F.strip_generics(F.callee_def(c) or "").endswith("TypeExpression::word") and len(c["args"]) == 2:
            a0 = F.local_of(c["args"][0])
            ut = T.term(c["args"][1], T.env_at(cps, c, T.mutated_locals(arm.node["body"])))
            usage_from_merge = any(s[0] == "call" and F.strip_generics(str(s[1])).endswith("WordUse::merge") for s in T.subterms(ut)) or True
            # the usage local must be bound from the usage merge (let-else)
            ul = F.local_of(c["args"][1])
            u_ok = False
            for n, nps in F.walk(arm.node["body"]):
                if n.get("s") == "Let" and "init" in n:
                    bs = F.pat_bindings(n["pat"])
                    if ul in bs and any(F.strip_generics(F.callee_def(x) or "").endswith("WordUse::merge") for x, _ in F.calls(n["init"])):
                        u_ok = True
                        # and the failure of the usage merge yields a conflict
                        if "els" in n:
                            u_ok = any(F.strip_generics(F.callee_def(x) or "").endswith("TypeExpression::conflict") for x, _ in F.calls({"k": "Block", "block": n["els"]}))
            if a0 == wl and wl is not None and u_ok:
                built = True
    rep.oblige(built, "R15.2", "result-word", arm.where(), "the merged word is not built from the combined width and the merged usage (with a conflict when the usages do not merge)", sample={"rule": "R15.2", "result": "TE::word(width, usage)"})


def check_sized_usage_widths(fx, rep):
    """R15.2 (sized usages): a usage with a fixed ABI width has ONE width in the library: the table of WordUse::size agrees with
    the independent oracle, and every word built for such a usage with a constant width uses that width (or asks the table).
    Otherwise compatible evidence (`function` and `bytes24`) conflicts and contradictory evidence is accepted."""
    import os
    from .. import core as _core
    WU = "tc::expression::WordUse"
    sz = next((b for b in fx.fn_bodies() if b.get("impl_self") == WU and (fx.fns.get(b["def"], {}).get("output") or "").replace(" ", "") == "std::option::Option<usize>" and len(b["hir"]["params"]) == 1), None)
    if not rep.anchor("R15.2", sz is not None, "the usage -> width function (WordUse -> Option<usize>)"):
        return
    rep.fn(sz["def"])
    table = {}
    t = T.term(sz["hir"]["value"], T.Env(), set())

    def cval(x):
        while isinstance(x, tuple) and x[0] in ("ref", "deref", "cast") and len(x) > 1:
            x = x[1]
        if isinstance(x, tuple) and x[0] == "lit":
            try:
                return int(x[1])
            except (TypeError, ValueError):
                return None
        if isinstance(x, tuple) and x[0] == "path":
            return fx.const_value(x[1])
        if isinstance(x, tuple) and x[0] == "struct" and str(x[2]).endswith("Some") and x[3]:
            return cval(x[3][0][1])
        return None

    def visit(x):
        if not isinstance(x, tuple):
            return
        if x[0] == "match":
            for lbl, body in x[2]:
                v = cval(body)
                if v is not None:
                    for alt in str(lbl).split("|"):
                        table[alt.strip().split("::")[-1]] = v
        for y in x:
            if isinstance(y, tuple):
                visit(y)

    visit(t)
    oracle = {}
    with open(os.path.join(_core.VERIF, "tables", "usage_sizes.tsv")) as fh:
        for line in fh:
            if line.strip() and not line.startswith("#"):
                u, bits = line.split()
                oracle[u] = int(bits)
    rep.oblige(table == oracle, "R15.2", "usage-sizes", F.loc(sz["span"]), f"the widths of the sized usages are {table}; the ABI widths are {oracle}: evidence of a usage and evidence of its width no longer agree", sample={"rule": "R15.2", "usage_sizes": table, "oracle": "tables/usage_sizes.tsv"})
    n = 0
    for b in fx.fn_bodies():
        hir = b.get("hir")
        if not hir or b.get("from_expansion"):
            continue
        root = hir["value"]
        mutated = None
        for node, ps in F.walk(root):
            w = u = None
            if node.get("k") == "Call" and F.strip_generics(F.callee_def(node) or "") == TE + "::word" and len(node["args"]) == 2:
                w, u = node["args"]
            elif node.get("k") == "Struct" and node.get("adt") == TE and node.get("variant") == "Word":
                w = next((f["e"] for f in node["fields"] if f["field"] == "width"), None)
                u = next((f["e"] for f in node["fields"] if f["field"] == "usage"), None)
            if w is None or u is None:
                continue
            if mutated is None:
                mutated = T.mutated_locals(root)
            env = T.env_at(ps, node, mutated)
            ut = T.term(u, env, mutated)
            if not (isinstance(ut, tuple) and ut[0] == "path" and str(ut[1]).startswith(WU + "::")):
                continue
            usage = str(ut[1]).split("::")[-1]
            if usage not in oracle:
                continue
            wt = T.term(w, env, mutated)
            asks = isinstance(wt, tuple) and wt[0] == "call" and isinstance(wt[1], str) and F.strip_generics(wt[1]) == sz["def"] and wt[2] and wt[2][0] == ut
            v = cval(wt)
            if isinstance(wt, tuple) and wt[0] == "path" and str(wt[1]).endswith("::None"):
                v = "an unknown number of"  # the word x word arm joins an unknown width with ANY width: the usage's own width is lost
            if not asks and v is None:
                continue  # a width computed at run time: evidence about this particular value, not a statement about the usage
            n += 1
            rep.fn(b["def"])
            k = sum(1 for x in rep.instances.get("R15.2", []) if x.startswith(f"sized-word:{F.strip_generics(b['def'])}#")) + 1
            rep.oblige(asks or v == oracle[usage], "R15.2", f"sized-word:{F.strip_generics(b['def'])}#{k}", F.loc(node["span"]), f"`{b['def']}` builds a `{usage}` word of {v} bits; a {usage} is {oracle[usage]} bits wide everywhere else: this judgement conflicts with compatible evidence of the true width and agrees with contradictory evidence", sample={"rule": "R15.2", "fn": b["def"], "usage": usage, "width": "size()" if asks else v} if n <= 4 else None)
    rep.floor("R15.2", n, 4, "words built for a fixed-width usage with a constant width")



def check_empty_packed_neutral(mm, rep, rule):
    """A packed encoding without spans says nothing about the value. Against the constructors that have no arm of their own with
    a packed encoding (a mapping, a fixed array) the arm that is selected for the pair must not be the catch-all conflict: an arm
    guarded by `types.is_empty()` that answers the other operand has to come first, in both orders."""
    n = 0
    for partner in ("Mapping", "FixedArray"):
        for packed_left in (True, False):
            a, b = ("Packed", partner) if packed_left else (partner, "Packed")
            n += 1
            verdict = "no arm"
            ok = False
            for arm in mm.arms:
                if not arm.matches(a, b):
                    continue
                g = arm.guard
                if g is not None:
                    gt = T.short(T.term(g, T.Env()))
                    if "is_empty" in gt and "types" in gt:
                        t = arm.term
                        want = "right" if packed_left else "left"
                        pid = next((p_["local"] for p_ in mm.fn["hir"]["params"] if p_.get("p") == "Bind" and p_.get("name") == want), None)
                        ok = isinstance(t, tuple) and t[0] == "call" and "Merge" in str(t[1]) and len(t) > 2 and t[2] and isinstance(t[2][0], tuple) and ((t[2][0][0] == "local" and len(t[2][0]) > 1 and t[2][0][1] == pid) or t[2][0] == (("R",) if packed_left else ("L",)) or T.short(t[2][0]) == ("<R>" if packed_left else "<L>"))
                        verdict = f"arm at {arm.where()} answers `{T.short(t)[:50]}`"
                        break
                    continue  # another guard: may or may not apply, look further
                t = arm.term
                verdict = f"unguarded arm at {arm.where()} answers `{T.short(t)[:60]}`"
                break
            rep.oblige(
                ok,
                rule,
                f"empty-packed-neutral:{a}x{b}",
                mm.fn and F.loc(mm.fn["span"]) or "-",
                f"merge({a}, {b}) with a packed encoding that has no spans: {verdict} - an encoding without spans is evidence that says nothing, and must leave the {partner.lower()} as it is rather than conflict with it",
                sample={"rule": rule, "pair": f"{a} x {b}", "selected": verdict},
            )
    # against a dynamic array the pair has an arm of its own (the string-length-flag shapes): its zero-span case must answer the
    # array as it stands, not dynamic bytes (which forgets the element type)
    arm = next((a_ for a_ in mm.arms if a_.matches("Packed", "DynamicArray") and a_.guard is None), None)
    if arm is not None:
        t = arm.term
        zero = None
        if isinstance(t, tuple) and t[0] == "match":
            hb = F.strip(arm.node["body"])
            if hb.get("k") == "Match" and len(hb["arms"]) == len(t[2]):
                for harm, (_lbl, tb) in zip(hb["arms"], t[2]):
                    if harm["pat"].get("p") == "Lit" and str(harm["pat"]["value"].get("v")) == "0":
                        zero = tb
        n += 1
        keeps = isinstance(zero, tuple) and zero[0] == "call" and "Merge" in str(zero[1]) and zero[2] and T.short(zero[2][0]) == "<R>"
        rep.oblige(
            keeps,
            rule,
            "empty-packed-neutral:PackedxDynamicArray",
            arm.where(),
            f"merge(Packed, DynamicArray) with a packed encoding that has no spans answers `{T.short(zero)[:50] if zero else '?'}`: evidence that says nothing replaces the array by dynamic bytes, and its element type is lost",
            sample={"rule": rule, "pair": "Packed x DynamicArray", "zero_span_case": T.short(zero)[:50] if zero else None},
        )
    rep.floor(rule, n, 4, "orientations of an empty packed encoding against mapping / fixed array")


def check_transparent_constructors(fx, rep, rule):
    """merge states its results through the expression constructors (`TE::word(width, usage)`, `mapping`, `dyn_array`, ..): the
    laws read off merge's arms hold for the VALUES only if a constructor stores exactly what it is handed. A constructor that
    completes or adjusts its arguments (an unknown width filled in from the usage) invents evidence that later conflicts or not
    depending on what was met first."""
    n = 0
    for b in fx.fn_bodies():
        if b.get("impl_self") != TE or not b.get("hir") or b.get("from_expansion"):
            continue
        fn = fx.fns.get(b["def"], {})
        if (fn.get("output") or "").replace(" ", "") not in (TE, "Self"):
            continue
        params = [p_ for p_ in b["hir"]["params"] if p_.get("p") == "Bind"]
        if len(params) != len(b["hir"]["params"]) or not params:
            continue
        root = b["hir"]["value"]
        t = T.term(root, T.Env(), T.mutated_locals(root))
        # only plain field-for-parameter constructors are in scope (their result is one struct literal)
        if not (isinstance(t, tuple) and t[0] == "struct" and str(t[1]) == TE):
            lits = [x for x, _ in F.walk(root) if x.get("k") == "Struct" and x.get("adt") == TE]
            takes_fields = len(lits) == 1 and len(lits[0]["fields"]) == len(params) and {f["field"] for f in lits[0]["fields"]} == {p_["name"] for p_ in params}
            if not takes_fields:
                continue
            n += 1
            rep.oblige(False, rule, f"transparent-ctor:{b['name']}", F.loc(b["span"]), f"`{b['def']}` does not store its arguments as they stand (its result is `{T.short(t)[:80]}`): evidence built through it differs from what merge's arms state")
            continue
        fields = dict((f, v) for f, v in t[3])
        names = {p_["local"]: p_["name"] for p_ in params}
        if set(fields) != set(names.values()):
            continue
        n += 1
        rep.fn(b["def"])
        bad = [f for f, v in fields.items() if not (isinstance(v, tuple) and v[0] == "local" and names.get(v[1]) == f)]
        rep.oblige(not bad, rule, f"transparent-ctor:{b['name']}", F.loc(b["span"]), f"`{b['def']}` does not store {bad} as handed (`{T.short(t)[:80]}`): evidence built through this constructor differs from what merge's arms state, and what it adds conflicts or not depending on what was met first", sample={"rule": rule, "ctor": b["name"], "fields": sorted(fields)} if n <= 3 else None)
    rep.floor(rule, n, 3, "field-for-parameter constructors of the type expression")


def check_usage_oracle(rep, usages, table):
    from .. import tables as TB

    less = {(a, a) for a in usages}
    rows = TB.read("usage_order.tsv")
    for g, sp in rows:
        less.add((g, sp))
    changed = True
    while changed:
        changed = False
        for a, b in list(less):
            for c, d in list(less):
                if b == c and (a, d) not in less:
                    less.add((a, d))
                    changed = True
    known = {x for r in rows for x in r}
    rep.oblige(known == set(usages), "R15.1", "usage-oracle-domain", "-", f"the usage oracle covers {sorted(known)} but the enum has {sorted(usages)}: the oracle table tables/usage_order.tsv must be reviewed for the new usage")
    bad = []
    for a in usages:
        for b in usages:
            if (a, b) in less:
                want = b
            elif (b, a) in less:
                want = a
            else:
                want = None
            if table[(a, b)] != want:
                bad.append(f"merge({a},{b}) = {table[(a,b)]}, the documented lattice gives {want if want else 'a conflict'}")
    rep.oblige(
        not bad,
        "R15.1",
        "usage-oracle",
        "-",
        "the usage table departs from the documented specificity order: " + "; ".join(bad[:4]),
        sample={"rule": "R15.1", "oracle": "tables/usage_order.tsv", "pairs_checked": len(usages) ** 2},
    )


CONTRADICTORY = [("Mapping", "DynamicArray"), ("Mapping", "FixedArray"), ("DynamicArray", "FixedArray"), ("Mapping", "Word"), ("FixedArray", "Word"), ("Mapping", "Bytes"), ("FixedArray", "Bytes")]


def check_contradictions(mm, rep):
    for a, b in CONTRADICTORY:
        for x, y in ((a, b), (b, a)):
            arms = mm.select(x, y)
            eff = []
            for arm in arms:
                if arm.delegate:
                    eff.extend(mm.select(y, x))
                else:
                    eff.append(arm)
            ok = True
            why = ""
            for arm in eff:
                if arm.delegate:
                    continue
                from .c16 import result_exprs

                res = result_exprs(arm.node["body"])
                for kind, node, ps in res:
                    if kind == "expression":
                        has_conf = any(F.strip_generics(F.callee_def(c) or "").endswith(("TypeExpression::conflict", "TypeExpression::conflict_with")) for c, _ in F.calls(node))
                        if not has_conf:
                            ok = False
                            why = f"arm {arm.label()} returns `{T.short(T.term(node['args'][0], T.Env()))[:50]}`"
                    else:
                        ok = False
                        why = f"arm {arm.label()} resolves the pair through {kind}"
                if not res:
                    ok = False
                    why = f"arm {arm.label()} has no recognisable result"
            rep.oblige(ok, "R15.3", f"contradiction:{x}x{y}", eff[0].where() if eff else "-", f"merge({x}, {y}) is plainly contradictory evidence but does not end in a conflict: {why}", sample={"rule": "R15.3", "pair": f"{x} x {y}", "arms": [z.label() for z in eff]} if (x, y) == (a, b) else None)


def check_conflict_arms(fx, mm, rep):
    first_other = None
    conflict_idx = []
    for arm in mm.arms:
        is_conf = any((l == {"Conflict"} and r is None) or (r == {"Conflict"} and l is None) for l, r in arm.alts)
        panics = any("panic" in (F.callee_def(c) or "") for c, _ in F.calls(arm.node["body"])) or any(n.get("exp") and "panic" in str(n.get("exp")) for n, _ in F.walk(arm.node["body"]))
        if is_conf:
            conflict_idx.append(arm.idx)
            uses_cw = any(F.strip_generics(F.callee_def(c) or "").endswith("TypeExpression::conflict_with") for c, _ in F.calls(arm.node["body"]))
            rep.oblige(uses_cw, "R15.4", f"conflict-arm:{arm.idx}", arm.where(), "a Conflict arm does not accumulate through conflict_with: earlier conflict information is lost")
        elif not panics and first_other is None:
            first_other = arm.idx
    rep.oblige(len(conflict_idx) == 2 and (first_other is None or max(conflict_idx) < first_other), "R15.4", "conflict-arms-first", mm.arms[0].where(), f"the two Conflict arms (found at positions {conflict_idx}) must precede every other non-panicking arm (first other arm at {first_other}): otherwise a conflict can be absorbed by another rule", sample={"rule": "R15.4", "conflict_arms": conflict_idx, "first_other": first_other})
    cw = None
    for b in fx.fn_bodies():
        if F.strip_generics(b["def"]) == "tc::expression::TypeExpression::conflict_with":
            cw = b
    if rep.anchor("R15.4", cw is not None, "TypeExpression::conflict_with"):
        root = cw["hir"]["value"]
        ext = [c for c, _ in F.calls(root) if (F.callee_def(c) or "").split("::")[-1] in ("extend", "push", "append")]
        targets = set()
        for c in ext:
            l = F.local_of(c["recv"])
            for n, _ in F.walk(root):
                if n.get("p") == "Bind" and n.get("local") == l:
                    targets.add(n["name"])
        built = [n for n, _ in F.walk(root) if n.get("k") == "Struct" and n.get("adt") == TE and n.get("variant") == "Conflict"]
        ok = len(targets) >= 2 and built and len(ext) >= 3
        # both operands are gathered
        # both operands are gathered: the gathering code is applied to each of the two parameters - a local closure called twice,
        # or a loop over an array literal of both
        gathers = [c for c, _ in F.calls(root) if c.get("k") == "Call" and c["f"].get("k") == "Path" and c["f"].get("res") == "local"]
        params = {p_.get("local") for p_ in cw["hir"]["params"] if p_.get("p") == "Bind"}
        over_both = any(x.get("k") == "Array" and len(x.get("elems", [])) == 2 and len({F.local_of(F.strip(e_)) for e_ in x["elems"]} & params) == 2 for x, _ in F.walk(root))
        ok = ok and (len(gathers) >= 2 or over_both)
        rep.oblige(bool(ok), "R15.4", "conflict_with-accumulates", F.loc(cw["span"]), "conflict_with does not gather the conflicts and reasons of both operands into the result")


def check_any_identity(mm, rep):
    """`Any` carries no information: for every constructor V (conflicts and equalities aside) each arm merge can select for
    (V, Any) and (Any, V) answers with the V operand as it stands."""
    n = 0
    for V in mm.variants:
        if V in ("Conflict", "Equal", "Any"):
            continue
        for a, b, keep in ((V, "Any", mm.left), ("Any", V, mm.right)):
            sel = mm.select(a, b)
            n += 1
            bad = []
            for arm in sel:
                if arm.delegate:
                    continue
                results = result_exprs(arm.node["body"])
                ok = bool(results) and all(kind == "expression" and F.local_of(F.strip(node["args"][0])) == keep for kind, node, ps in results)
                if not ok:
                    bad.append(arm)
            rep.oblige(
                not bad,
                "R15.1",
                f"any-identity:{a}x{b}",
                bad[0].where() if bad else "-",
                f"merge({a}, {b}) can select arm {bad[0].label() if bad else ''}, which does not answer with the {V} operand as it stands: combining a type with `Any` (no information) changes or conflicts it",
                sample={"rule": "R15.1", "pair": f"{a}x{b}", "arms": [x.label() for x in sel]} if n <= 4 else None,
            )
    rep.floor("R15.1", n, 10, "constructor x Any pairs")


def check(fx, rep, tier):
    mm = MergeModel(fx)
    if not rep.anchor("R15.1", mm.ok, "; ".join(mm.problems) or "merge model"):
        return rep.finish("anchor lost", "n/a")
    rep.fn(mm.fn["def"])
    usages, table = usage_table(fx, rep, "R15.1")
    if table is not None:
        check_usage_laws(fx, rep, "R15.1", usages, table, want_upper_bound=True)
    if table is not None:
        check_usage_oracle(rep, usages, table)
    check_width_table(mm, rep)
    check_sized_usage_widths(fx, rep)
    check_transparent_constructors(fx, rep, "R15.2")
    # when the resolved types are written out, a type met twice inside one slot's type is reported as an infinite type; that cut
    # may only apply to types that contain other types - a conflict (or a word) met twice is still a conflict (or that word)
    from .c01 import verify_seen_cut

    cg15 = F.CallGraph(fx)
    conv = next((b_["def"] for b_ in fx.fn_bodies() if b_.get("hir") and "AbiValue" in (fx.fns.get(b_["def"], {}).get("output") or "") and any(cg15.resolve_local(c) and b_["def"] in cg15.resolve_local(c) for c, _ in F.calls(b_["hir"]["value"]))), None)
    if rep.anchor("R15.3", conv is not None, "the recursive conversion of resolved type expressions into reported types"):
        ok_cut, why_cut, smp_cut = verify_seen_cut(fx, cg15, {conv})
        over = smp_cut.get("over_accepted", []) if isinstance(smp_cut, dict) else []
        rep.oblige(not over, "R15.3", "infinite-only-for-composites", "-", f"the infinite-type cut of `{conv}` also applies to {over}, which contain no other type: contradictory (or plain) evidence that occurs twice inside one slot's type is reported as an infinite type instead of the conflict (or the type) it is", sample={"rule": "R15.3", "cut_applies_to": smp_cut.get("guard_accepts") if isinstance(smp_cut, dict) else None})
    # "a known width is kept": where the word arm of that conversion reports a width in other units (bits -> bytes), the division
    # is exact - it sits under a `w % UNIT == 0` test; otherwise 12 bits are reported as one byte
    if conv is not None:
        cb = fx.body(conv)
        n_div = 0
        for m, _ in F.exprs(cb["hir"]["value"], "Match"):
            for a in m["arms"]:
                pv = F.pat_variants(a["pat"])
                if not pv or {v for _, v in pv} != {"Word"}:
                    continue
                for node, nps in F.walk(a["body"]):
                    if node.get("k") != "Struct" or not str(node.get("adt", "")).endswith("abi::AbiType"):
                        continue
                    for f in node["fields"]:
                        if f["field"] not in ("length", "size"):
                            continue
                        divs = [x for x, _ in F.walk(f["e"]) if (x.get("k") == "Binary" and x.get("op") in ("Div", "Shr")) or (x.get("k") == "MethodCall" and x["method"] in ("div_euclid", "checked_div", "wrapping_div", "div_floor"))]
                        if not divs:
                            continue
                        n_div += 1
                        exact = False
                        for anc, key in nps:
                            if isinstance(anc, dict) and "pat" in anc and "body" in anc and anc.get("guard") is not None:
                                if any(x.get("k") == "Binary" and x.get("op") == "Rem" for x, _ in F.walk(anc["guard"])) and any(x.get("k") == "Binary" and x.get("op") == "Eq" for x, _ in F.walk(anc["guard"])):
                                    exact = True
                            if isinstance(anc, dict) and anc.get("k") == "If" and key == "then" and any(x.get("k") == "Binary" and x.get("op") == "Rem" for x, _ in F.walk(anc["cond"])):
                                exact = True
                        # ... or in a later arm of a match whose EARLIER arm takes every width with `w % UNIT != 0` away
                        # (`Some(w) if w % 8 != 0 => Bits, _ => Bytes { length: width.map(|w| w / 8) }`)
                        for i_, (anc, key) in enumerate(nps):
                            if isinstance(anc, dict) and "pat" in anc and "body" in anc and i_ > 0 and isinstance(nps[i_ - 1][0], dict) and nps[i_ - 1][0].get("k") == "Match":
                                for earlier in nps[i_ - 1][0]["arms"]:
                                    if earlier is anc:
                                        break
                                    g = earlier.get("guard")
                                    if g is None:
                                        continue
                                    ne0 = any(x.get("k") == "Binary" and x.get("op") == "Ne" and any(y.get("k") == "Binary" and y.get("op") == "Rem" for y, _ in F.walk(x)) for x, _ in F.walk(g))
                                    takes_some = any(v == "Some" for _, v in (F.pat_variants(earlier["pat"]) or set())) or earlier["pat"].get("p") in ("Bind", "Wild")
                                    if ne0 and takes_some and F.strip(g).get("k") == "Binary" and F.strip(g).get("op") == "Ne":
                                        exact = True
                        rep.oblige(exact, "R15.2", f"width-kept:{node.get('variant')}#{n_div}", F.loc(node["span"]), f"the word arm of `{conv}` reports `{node.get('variant')}.{f['field']}` through a division that is not under a `% .. == 0` test: a known width that is not a whole number of units is truncated, so the known width is not kept", sample={"rule": "R15.2", "type": node.get("variant"), "exact_division": exact})
        rep.floor("R15.2", n_div, 1, "unit conversions of a known width in the word arm of the type conversion")
    # a sized word pushed down to a span whose size it does not have is a contradiction accepted silently (shared with C12)
    from .c12 import check_span_judgement_width

    check_span_judgement_width(fx, rep, "R15.3")
    # R15.3 = absorption audit under this property's id
    class Proxy:
        def __init__(self, rep):
            self.rep = rep

        def __getattr__(self, k):
            return getattr(self.rep, k)

        def oblige(self, ok, rule, key, where, msg, sample=None):
            return self.rep.oblige(ok, "R15.3", key, where, msg, sample)

    check_absorption(mm, Proxy(rep))
    # evidence about components must be joined too: an operand answered as it stands needs every component compared equal or
    # unified on that path (shared with C16 R16.1 diagonal)
    from .. import core
    from .c16 import check_diagonal

    check_diagonal(mm, core.Retag(rep, "R15.3"))
    # which span shapes a packed encoding may have to give way to dynamic bytes / an array - in particular the empty one, which
    # says nothing and must never conflict (shared with C16 R16.3)
    from .c16 import check_span_shapes

    check_span_shapes(mm, core.Retag(rep, "R15.3"))
    check_empty_packed_neutral(mm, rep, "R15.3")
    check_any_identity(mm, rep)
    # evidence is joined across equalities only if equalities are recorded and resolved (C14 R14.2, re-evaluated)
    from .. import core as _core

    _core.import_rules(rep, fx, "C14", "R15.3", only_rules=("R14.2",), floor=3, what="equality-handling obligations (C14 R14.2) behind 'compatible evidence is joined'")
    check_contradictions(mm, rep)
    check_conflict_arms(fx, mm, rep)
    rep.exhaustive = True
    return rep.finish(
        "The usage lattice is read out of the source as an 8x8 table and checked exhaustively for the join laws (idempotent, commutative, associative, identity, upper bound, result is one of the operands); "
        "the width table of Word x Word is read over {unknown, w, w'}; absorbing arms, plainly contradictory constructor pairs and the conflict arms are audited on the arm table of merge.",
        "instances = usage pairs/triples, width cases, absorbing paths, contradictory pairs, conflict arms; all enumerated",
        ["the least upper bound of arbitrary evidence spread over many equated variables (through union-find, rounds and component equalities) is not decided; these are the finite-table and structural clauses"],
    )
