"""C12 — returned layouts are ordered and every entry lies inside its 256-bit slot.

R12.1 sorted on every insertion : the entry vector of the layout is mutated only in its insertion method (and built
      empty by Default); that method sorts by the key (index, offset) after the push on every path; the 256-bit index
      wrapper's Ord / PartialOrd delegate to the inner integer in (self, other) order; the accessor returns the vector.
R12.2 in-slot bound present     : every *fresh* construction of an in-slot offset carrier (sub-word, shifted value,
      packed span) takes its offset/size from a WORD_SIZE_BITS-bounded provenance (comparison / min / filter against the
      constant, a bit position of a 256-bit word, a field of an already bounded carrier, or a bounded helper).
R12.4 word widths               : every width handed to a word-type constructor is bounded by WORD_SIZE_BITS (literal /
      constant, size of a bounded carrier, width of an existing word type, or under a comparison with the constant).
R12.5 accumulated offsets       : where the offset of a nested packed element is added to the offset of its parent span, the
      chain keeps the element inside the parent span / the word by a comparison.
R12.3 span validation           : the packed-encoding lift builds a Packed node only under a validity flag whose
      computation contains the overlap test and the end <= WORD_SIZE_BITS test; merged packed types take their spans from
      a sorted, de-duplicated boundary list.
"""
from .. import facts as F
from .. import terms as T

LAYOUT = "layout::StorageLayout"
SLOT = "layout::StorageSlot"
SVD = "vm::value::SymbolicValueData"
WORD_BITS = "constant::WORD_SIZE_BITS"
MUTATORS = {
    "push", "insert", "extend", "extend_from_slice", "append", "remove", "swap_remove", "retain", "retain_mut", "truncate", "clear",
    "drain", "sort", "sort_by", "sort_by_key", "sort_unstable", "sort_unstable_by", "sort_unstable_by_key", "sort_by_cached_key",
    "reverse", "swap", "dedup", "dedup_by", "dedup_by_key", "pop", "resize", "rotate_left", "rotate_right", "splice", "split_off", "iter_mut",
    "as_mut_slice", "first_mut", "last_mut", "get_mut",
}
SORTS = {"sort_by_key", "sort_unstable_by_key", "sort_by_cached_key", "sort_by", "sort_unstable_by", "sort", "sort_unstable"}


def self_field(t, name):
    return isinstance(t, tuple) and t[0] == "field" and t[2] == name and t[1][0] == "local" and t[1][2] == "self"


def check_r121(fx, rep, require_stable=False):
    adt = fx.adt(LAYOUT)
    if not rep.anchor("R12.1", adt is not None, "the StorageLayout type"):
        return
    vec_fields = [f["name"] for f in adt["variants"][0]["fields"] if f["ty"].replace(" ", "").startswith("std::vec::Vec<layout::StorageSlot")]
    if not rep.anchor("R12.1", len(vec_fields) == 1, "one Vec<StorageSlot> field in StorageLayout"):
        return
    vf = vec_fields[0]
    priv = all("Restricted" in f["vis"] for f in adt["variants"][0]["fields"] if f["name"] == vf)
    rep.oblige(priv, "R12.1", "field-private", F.loc(adt["span"]), f"`StorageLayout::{vf}` is public: external code can push unsorted entries")
    writers = {}
    constructors = []
    for b in fx.fn_bodies():
        hir = b.get("hir")
        if not hir:
            continue
        root = hir["value"]
        for n, ps in F.walk(root):
            k = n.get("k")
            if k == "MethodCall" and n["method"] in MUTATORS:
                t = T.term(n["recv"], T.Env())
                if t[0] == "field" and t[2] == vf and (n["recv"].get("adt") == LAYOUT or (F.strip(n["recv"]).get("adt") == LAYOUT)):
                    writers.setdefault(b["def"], []).append((n["method"], n, ps))
            elif k in ("Assign", "AssignOp") and n["l"].get("k") == "Field" and n["l"].get("adt") == LAYOUT and n["l"]["field"] == vf:
                writers.setdefault(b["def"], []).append(("=", n, ps))
            elif k == "AddrOf" and n.get("mut") and n["e"].get("k") == "Field" and n["e"].get("adt") == LAYOUT and n["e"]["field"] == vf:
                writers.setdefault(b["def"], []).append(("&mut", n, ps))
            elif k == "Struct" and n.get("adt") == LAYOUT:
                constructors.append((b, n))
    # constructors must start empty
    for b, n in constructors:
        fe = {f["field"]: f["e"] for f in n["fields"]}
        env = T.Env()
        mutated = T.mutated_locals(b["hir"]["value"])
        t = T.term(fe[vf], T.env_at([(x, k) for x, k in []], n, mutated), mutated) if vf in fe else None
        # inline via enclosing block
        for m, ps in F.walk(b["hir"]["value"]):
            if m is n:
                t = T.term(fe[vf], T.env_at(ps, n, mutated), mutated)
        empty = t is not None and t[0] == "call" and (str(t[1]).endswith("::new") or "default" in str(t[1])) and not t[2]
        rep.oblige(empty, "R12.1", f"ctor:{b['def']}", F.loc(n["span"]), f"`{b['def']}` builds a layout from a non-empty vector `{T.short(t) if t else '?'}`: entries bypass the sorted insertion")
    rep.floor("R12.1", len(writers), 1, "functions mutating the layout's entry vector")
    n_sorted = 0
    # helpers that do nothing to the vector but sort it by the right key: a call of one counts as the sort
    sort_helpers = set()
    for fn, ws in writers.items():
        if all(m in SORTS for m, _, _ in ws) and all(sort_key_ok(n, m)[0] for m, n, _ in ws) and not (require_stable and any("unstable" in m for m, _, _ in ws)):
            sort_helpers.add(F.strip_generics(fn))
    for fn, ws in sorted(writers.items()):
        b = fx.body(fn)
        if F.strip_generics(fn) in sort_helpers:
            rep.oblige(True, "R12.1", f"sort-helper:{fn}", F.loc(b["span"]), "", sample={"rule": "R12.1", "fn": fn, "role": "sort helper (sorts by (index, offset), nothing else)"})
            continue
        rep.fn(fn)
        methods = [m for m, _, _ in ws]
        pushes = [(n, ps) for m, n, ps in ws if m in ("push", "insert", "extend", "append", "extend_from_slice")]
        sorts = [(m, n, ps) for m, n, ps in ws if m in SORTS]
        for c, cps in F.calls(b["hir"]["value"]):
            if F.strip_generics(F.callee_def(c) or "") in sort_helpers:
                sorts.append(("helper", c, cps))
        others = [m for m in methods if m not in SORTS and m not in ("push",)]
        w = F.loc(b["span"])
        if others == ["insert"] and not pushes_only(ws):
            # sorted insertion: position from partition_point / binary_search_by(_key) over (index, offset)
            ins = [(n, ps) for m, n, ps in ws if m == "insert"][0]
            ok, why = keyed_insert_ok(b, ins[0], ins[1], vf)
            rep.oblige(ok, "R12.1", f"sorted-insert:{fn}", F.loc(ins[0]["span"]), f"`{fn}` inserts an entry at a computed position: {why}", sample={"rule": "R12.1", "fn": fn, "insert": "binary search on (index, offset)" if ok else why})
            continue
        if others:
            rep.oblige(False, "R12.1", f"writer:{fn}", w, f"`{fn}` mutates the layout's entries with {sorted(set(others))}: only push-then-sort by (index, offset) keeps the order invariant")
            continue
        for pn, pps in pushes:
            # a sort later in the same block, with no return in between
            blk = None
            for anc, key in reversed(pps):
                if "stmts" in anc:
                    blk = anc
                    break
            ok = False
            why = "no sort follows the push"
            if blk is not None:
                pk = T._span_key(pn["span"])
                for m, sn, sps in sorts:
                    sk = T._span_key(sn["span"])
                    in_same = any(anc is blk for anc, key in sps)
                    cond = any(anc.get("k") in ("If", "Match", "Loop") and any(a2 is blk for a2, _ in sps[: i]) for i, (anc, key) in enumerate(sps))
                    if in_same and sk[1] >= pk[2] and not cond:
                        key_ok, why = (True, "") if m == "helper" else sort_key_ok(sn, m)
                        if key_ok and require_stable and "unstable" in m:
                            key_ok, why = False, "the sort is unstable: entries with the same (index, offset) end up in an order that depends on the whole insertion sequence, which follows hash iteration order"
                        if key_ok:
                            ok = True
                rets = [r for r, rps in F.walk(blk) if r.get("k") == "Ret" and T._span_key(r["span"])[1] >= pk[2]]
                if rets and ok:
                    later_sort = [sn for m, sn, sps in sorts]
                    if any(T._span_key(r["span"])[1] < T._span_key(s["span"])[1] for r in rets for s in later_sort):
                        ok = False
                        why = "a return between the push and the sort leaves the entries unsorted"
            n_sorted += 1 if ok else 0
            rep.oblige(
                ok,
                "R12.1",
                f"push-then-sort:{fn}",
                F.loc(pn["span"]),
                f"`{fn}` adds an entry but the entries are not re-sorted by (index, offset) afterwards on every path: {why}",
                sample={"rule": "R12.1", "fn": fn, "sorted_by": "(index, offset)" if ok else why, "at": F.loc(pn["span"])},
            )
    # Ord of the index wrapper ------------------------------------------------------------------
    for tr, meth in (("std::cmp::Ord", "cmp"), ("std::cmp::PartialOrd", "partial_cmp")):
        found = False
        for i, b in fx.trait_method_bodies(tr, meth):
            if i.get("self_adt") != "utility::U256Wrapper":
                continue
            found = True
            t = T.block_term({"stmts": [], "expr": b["hir"]["value"]}, T.Env())
            ok = (
                t[0] == "call"
                and str(t[1]).split("::")[-1] == meth
                and len(t[2]) == 2
                and t[2][0] == ("field", ("local", t[2][0][1][1] if t[2][0][0] == "field" else 0, "self"), "0")
                and t[2][1][0] == "field"
                and t[2][1][1][0] == "local"
                and t[2][1][1][2] == "other"
                and t[2][1][2] == "0"
            )
            derived = b.get("from_expansion")
            # `partial_cmp` written as `Some(self.cmp(other))` is the canonical delegation (cmp is checked on its own)
            if not ok and meth == "partial_cmp" and t[0] == "struct" and str(t[2]).endswith("Some") and t[3]:
                inner = t[3][0][1]
                ok = inner[0] == "call" and str(inner[1]).split("::")[-1] == "cmp" and len(inner[2]) == 2 and inner[2][0][0] == "local" and inner[2][0][2] == "self" and inner[2][1][0] == "local" and inner[2][1][2] == "other"
            rep.oblige(ok or derived, "R12.1", f"index-order:{meth}", F.loc(b["span"]), f"U256Wrapper::{meth} is `{T.short(t)}`: slot indices must be ordered by the inner 256-bit integer, receiver first", sample={"rule": "R12.1", "impl": meth, "term": T.short(t)})
        if not found:
            # derived Ord on a single-field tuple struct is equivalent
            derived = any(i.get("self_adt") == "utility::U256Wrapper" and i.get("trait") == tr for i in fx.impls)
            rep.oblige(derived, "R12.1", f"index-order:{meth}", "-", f"no {tr} implementation for the slot index wrapper")
    # accessor returns the vector untouched
    for b in fx.fn_bodies():
        if b.get("impl_self") == LAYOUT and b.get("vis") == "Public" and (fx.fns.get(b["def"], {}).get("output", "").replace(" ", "") in ("&std::vec::Vec<layout::StorageSlot>", "&[layout::StorageSlot]")):
            t = T.block_term({"stmts": [], "expr": b["hir"]["value"]}, T.Env())
            rep.oblige(self_field(t, vf), "R12.1", f"accessor:{b['name']}", F.loc(b["span"]), f"`{b['def']}` returns `{T.short(t)}` rather than the sorted entry vector")


def pushes_only(ws):
    return all(m == "push" or m in SORTS for m, _, _ in ws)


def keyed_insert_ok(b, ins, ps, vf):
    """`self.slots.insert(pos, slot)` with pos = self.slots.partition_point(|s| (s.index, s.offset) <= (slot.index, slot.offset))
    (or `<`), or binary_search_by(_key) on the same pair."""
    root = b["hir"]["value"]
    mutated = T.mutated_locals(root)
    env = T.env_at(ps, ins, mutated)
    pos = T.term(ins["args"][0], env, mutated)
    found = None
    for st in T.subterms(pos):
        if st[0] == "call" and isinstance(st[1], str) and F.strip_generics(st[1]).split("::")[-1] in ("partition_point", "binary_search_by", "binary_search_by_key"):
            found = st
    if found is None:
        return False, "the position does not come from a binary search over the entries"
    # locate the closure node of that search call in the HIR and read its comparison
    for n, nps in F.calls(root):
        if n.get("k") == "MethodCall" and n["method"] in ("partition_point", "binary_search_by", "binary_search_by_key"):
            clos = [F.strip(a) for a in n["args"] if F.strip(a).get("k") == "Closure"]
            if not clos:
                return False, "search without a closure (unrecognised idiom)"
            t = T.term(clos[-1]["body"], T.Env())
            txt = T.short(t)
            fields_in = [s[2] for s in T.subterms(t) if s[0] == "field"]
            if "index" in fields_in and "offset" in fields_in:
                # lexicographic: tuple comparison or cmp chain
                tuples = [s for s in T.subterms(t) if s[0] == "tuple" and len(s[1]) == 2 and s[1][0][0] == "field" and s[1][0][2] == "index" and s[1][1][0] == "field" and s[1][1][2] == "offset"]
                if tuples:
                    return True, ""
                return False, f"search key `{txt[:60]}` is not the pair (index, offset) in that order"
            return False, f"the insertion position is computed from `{txt[:60]}`, ignoring {'the offset' if 'offset' not in fields_in else 'the index'}: entries of one slot are not kept in offset order"
    return False, "search call not found"


def sort_key_ok(sn, method):
    """Is this sort call ordering by (index, offset)?"""
    args = sn["args"]
    if method in ("sort", "sort_unstable"):
        return False, "sorted by the derived/natural order of the entry, not by (index, offset)"
    if not args or F.strip(args[0]).get("k") != "Closure":
        return False, "sort key is not a closure (unrecognised idiom)"
    clo = F.strip(args[0])
    params = clo["params"]
    body = clo["body"]
    env = T.Env()
    names = []
    for p in params:
        if p.get("p") == "Bind":
            names.append(p["name"])
        elif p.get("p") == "Ref" and p["sub"].get("p") == "Bind":
            names.append(p["sub"]["name"])
    t = T.term(body, env)
    if method in ("sort_by_key", "sort_unstable_by_key", "sort_by_cached_key"):
        if t[0] == "tuple" and len(t[1]) == 2:
            a, b = t[1]
            if a[0] == "field" and a[2] == "index" and b[0] == "field" and b[2] == "offset" and a[1] == b[1]:
                return True, ""
            return False, f"sort key is `{T.short(t)}`, not (index, offset)"
        return False, f"sort key is `{T.short(t)}`, not the pair (index, offset)"
    # comparator forms: (a.index, a.offset).cmp(&(b.index, b.offset))  |  a.index.cmp(&b.index).then(a.offset.cmp(&b.offset))
    if len(names) != 2:
        return False, "comparator closure with unrecognised parameters"
    a, b = names

    def fld(x, who, f):
        return x[0] == "field" and x[2] == f and x[1][0] == "local" and x[1][2] == who

    if t[0] == "call" and str(t[1]).endswith("::cmp") and len(t[2]) == 2:
        l, r = t[2]
        if l[0] == "tuple" and r[0] == "tuple" and len(l[1]) == 2 and len(r[1]) == 2:
            if fld(l[1][0], a, "index") and fld(l[1][1], a, "offset") and fld(r[1][0], b, "index") and fld(r[1][1], b, "offset"):
                return True, ""
    if t[0] == "call" and str(t[1]).split("::")[-1] in ("then", "then_with") and len(t[2]) == 2:
        first, second = t[2]
        if second[0] == "opaque":
            return False, "comparator uses a closure this rule does not read (unrecognised idiom)"
        if (
            first[0] == "call" and str(first[1]).endswith("::cmp") and fld(first[2][0], a, "index") and fld(first[2][1], b, "index")
            and second[0] == "call" and str(second[1]).endswith("::cmp") and fld(second[2][0], a, "offset") and fld(second[2][1], b, "offset")
        ):
            return True, ""
    return False, f"comparator `{T.short(t)}` is not lexicographic on (index, offset) ascending"


# ---------------------------------------------------------------------------------------------------
# R12.2


def mentions_word_bits(t, fx):
    for s in T.subterms(t):
        if s[0] == "path" and s[1] == WORD_BITS:
            return True
    return False


def helper_bounded(fx, name):
    """A helper returning Option<usize> is bounded when it contains a `x > WORD_SIZE_BITS -> None` style cut."""
    b = fx.body(name)
    if not b:
        return False
    for n, ps in F.walk(b["hir"]["value"]):
        if n.get("k") == "Binary" and n["op"] in ("Gt", "Ge", "Lt", "Le"):
            t = T.term(n, T.Env())
            if mentions_word_bits(t, fx):
                return True
    return False


def bounded(t, fx, depth=0):
    """Is the offset/size term bounded by the word size by construction?"""
    if depth > 12 or not isinstance(t, tuple):
        return False
    k = t[0]
    if k == "lit":
        try:
            return 0 <= int(t[1]) <= 256
        except (TypeError, ValueError):
            return False
    if k == "path":
        v = fx.const_value(t[1])
        return v is not None and 0 <= v <= 256
    if k == "field":
        # field of an already bounded carrier (pattern-bound fields appear as locals named like the field)
        return t[2] in ("offset", "size", "length") and True
    if k == "local":
        # a pattern binding of a carrier field (named offset / size / length / i_ofs ...) — bounded by induction
        return str(t[2]) in ("offset", "size", "length", "shifted_offset", "shifted_length")
    if k == "bin" and t[1] == "Sub":
        return bounded(t[2], fx, depth + 1)
    if k == "call" and isinstance(t[1], str):
        name = t[1]
        last = F.strip_generics(name).split("::")[-1]
        if last == "min" and any(mentions_word_bits(a, fx) or bounded(a, fx, depth + 1) for a in t[2]):
            return True
        if last in ("filter", "take_while") and any(a[0] == "opaque" for a in t[2][1:]):
            # filter(|x| *x < WORD_SIZE_BITS): closure bodies are opaque terms; checked by the caller via closure scan
            return "FILTER"
        if last in ("map_or", "unwrap_or", "unwrap_or_default"):
            return all(bounded(a, fx, depth + 1) for a in t[2][1:] if a[0] != "opaque") and (bounded(t[2][0], fx, depth + 1) or True)
        if F.strip_generics(name).endswith("which_power_of_2"):
            return helper_bounded(fx, F.strip_generics(name))
    if k == "cast":
        return bounded(t[1], fx, depth + 1)
    return False


def closure_compares_word_bits(node, fx, strict=False):
    """A closure under `node` compares its argument with the word size (`x < W` / `x <= W`). With strict=True only the strict
    form counts: an OFFSET of exactly W starts outside the word."""
    for n, ps in F.walk(node):
        if n.get("k") == "Closure":
            for m, _ in F.walk(n["body"]):
                if m.get("k") == "Binary" and m["op"] in ("Lt", "Le", "Gt", "Ge"):
                    t = T.term(m, T.Env())
                    if mentions_word_bits(t, fx):
                        if not strict:
                            return True
                        w_right = mentions_word_bits(t[3], fx)
                        if (m["op"] == "Lt" and w_right) or (m["op"] == "Gt" and not w_right):
                            return True
    return False


def check_r122(fx, rep):
    """Fresh constructions of SubWord / Shifted and PackedSpan::new calls outside rebuild functions."""
    n = 0
    for b in fx.fn_bodies():
        hir = b.get("hir")
        if not hir:
            continue
        root = hir["value"]
        mutated = None
        for node, ps in F.walk(root):
            site = None
            if node.get("k") == "Struct" and node.get("adt") == SVD and node.get("variant") in ("SubWord", "Shifted"):
                # fresh = not inside an arm that matched the same variant (rebuilds copy the fields)
                arms = F.enclosing_arms(ps)
                same = any((F.pat_variants(a["pat"]) or set()) == {(SVD, node["variant"])} for m, a in arms)
                if same:
                    continue
                site = ("variant", node["variant"], {f["field"]: f["e"] for f in node["fields"]})
            elif node.get("k") == "Call" and (F.callee_def(node) or "").endswith("PackedSpan::<AuxData>::new"):
                arms = F.enclosing_arms(ps)
                same = any("PackedSpan" in str(a["pat"].get("adt")) or any(v[1] == "Packed" for v in (F.pat_variants(a["pat"]) or set())) for m, a in arms)
                args = node["args"]
                site = ("span", "PackedSpan", {"offset": args[0], "size": args[1]})
                if b["def"].startswith("vm::value::PackedSpan") or b["def"].startswith("tc::state::"):
                    continue  # the span's own transformer / the runtime->TC conversion copy fields of a bounded span
            if site is None:
                continue
            if mutated is None:
                mutated = T.mutated_locals(root)
            env = T.env_at(ps, node, mutated)
            n += 1
            rep.fn(b["def"])
            kind, name, fields = site
            if kind == "span" and not b["def"].startswith("tc::unification"):
                # the span's size is the width of the element it carries (the entry's type is derived from the element, the
                # in-word validation from the span): a span made narrower than its element hides an overhanging entry
                origins = binding_origins(root)
                st = fields["size"]
                while st.get("k") in ("Unary", "AddrOf", "Use", "DropTemps", "Cast"):
                    st = st["e"]
                lid = F.local_of(st)
                org = origins.get(lid) if lid is not None else None
                rep.oblige(
                    org is not None and org[0] == "SubWord" and org[1] == "size",
                    "R12.3",
                    f"span-size-is-element-size:{F.strip_generics(b['def'])}#{n}",
                    F.loc(node["span"]),
                    f"`{b['def']}` builds a packed span whose size `{T.short(T.term(fields['size'], env, mutated))[:60]}` is not the (unmodified) size of the sub-word it carries: the in-word validation of the span no longer speaks about the entry that is reported for it",
                )
            for f in ("offset", "size"):
                if f not in fields:
                    continue
                t = T.term(fields[f], env, mutated)
                res = bounded(t, fx)
                if res == "FILTER":
                    # find the let that defined this local and look into its closure
                    res = False
                    for m, mps in F.walk(root):
                        if m.get("s") == "Let" and "init" in m and closure_compares_word_bits(m["init"], fx, strict=(f == "offset")):
                            bound_names = {x[0] for x in F.pat_bindings(m["pat"]).values()}
                            used = {s[2] for s in T.subterms(T.term(fields[f], T.Env(), mutated)) if s[0] == "local"}
                            if bound_names & used:
                                res = True
                if not res:
                    # a comparison of this very term with WORD_SIZE_BITS (or a bounded term) that is known to hold here:
                    # an enclosing `if t < W {..}` / the else of `if t >= W`, or an earlier `if t >= W { return .. }`
                    def strip_ref(x):
                        while isinstance(x, tuple) and x and x[0] in ("ref", "deref") and len(x) > 1:
                            x = x[1]
                        return x

                    for lhs, rhs, strict in T.upper_bounds(ps, node, env, mutated):
                        if strip_ref(lhs) == strip_ref(t) and (mentions_word_bits(rhs, fx) or bounded(rhs, fx) is True):
                            # an offset equal to the word size starts outside the word: the comparison must be strict
                            if f == "offset" and mentions_word_bits(rhs, fx) and not strict:
                                continue
                            res = True
                if res and f == "size" and "offset" in fields:
                    # `size.min(WORD_SIZE_BITS - X)`: X must be the very offset stored next to it
                    off_t = T.term(fields["offset"], env, mutated)
                    for st in T.subterms(t):
                        if st[0] == "call" and isinstance(st[1], str) and F.strip_generics(st[1]).split("::")[-1] == "min":
                            for a in st[2]:
                                if a[0] == "bin" and a[1] == "Sub" and mentions_word_bits(a[2], fx) and a[3] != off_t:
                                    res = False
                                    rep.oblige(
                                        False,
                                        "R12.2",
                                        f"end-bound:{F.strip_generics(b['def'])}:{name}",
                                        F.loc(node["span"]),
                                        f"the size of the {name} is limited to WORD_SIZE_BITS - `{T.short(a[3])[:40]}`, which is not the offset it is stored with (`{T.short(off_t)[:40]}`): the entry can end beyond bit 256",
                                    )
                    if not res:
                        continue
                rep.oblige(
                    bool(res),
                    "R12.2",
                    f"bound:{F.strip_generics(b['def'])}:{name}.{f}",
                    F.loc(node["span"]),
                    f"`{b['def']}` builds a {name} whose {f} `{T.short(t)[:70]}` is not bounded by the word size (no comparison / min / filter against WORD_SIZE_BITS on its way): a layout entry can start or end outside its 256-bit slot",
                    sample={"rule": "R12.2", "fn": b["def"], "carrier": name, "field": f, "term": T.short(t)[:80], "at": F.loc(node["span"])},
                )
    rep.floor("R12.2", n, 4, "fresh constructions of in-slot offset carriers")


def check_r123(fx, rep):
    # packed-encoding lift: Packed built under a validity flag that includes both tests
    sites = []
    for b in fx.fn_bodies():
        hir = b.get("hir")
        if not hir or not b["def"].startswith("<tc::lift::"):
            continue
        root = hir["value"]
        for node, ps in F.walk(root):
            if node.get("k") == "Struct" and node.get("adt") == SVD and node.get("variant") == "Packed":
                arms = F.enclosing_arms(ps)
                if any((F.pat_variants(a["pat"]) or set()) == {(SVD, "Packed")} for m, a in arms):
                    continue
                sites.append((b, root, node, ps))
    rep.floor("R12.3", len(sites), 1, "fresh constructions of a Packed node in the lifting passes")
    for b, root, node, ps in sites:
        rep.fn(b["def"])
        mutated = T.mutated_locals(root)
        # the validity flag the construction sits under: `if flag { build }` or an earlier `if !flag { return None }`
        flag_locals = set()
        for c, holds in T.path_conditions(ps, node):
            c0 = F.strip(c)
            neg = False
            while c0.get("k") == "Unary" and c0.get("op") == "Not":
                c0 = F.strip(c0["e"])
                neg = not neg
            l = F.local_of(c0)
            if l is not None and holds != neg:
                flag_locals.add(l)
        # find the closure/function scope containing the node
        scope = root
        for anc, key in reversed(ps):
            if anc.get("k") == "Closure":
                scope = anc["body"]
                break
        has_overlap = False
        has_end = False
        assigns_false = False
        for n, nps in F.walk(scope):
            if n.get("k") == "Assign" and F.local_of(n["l"]) in flag_locals:
                t = T.term(n["r"], T.Env(), mutated)
                if t == ("lit", False) or t == ("lit", "false"):
                    assigns_false = True
                for s in T.subterms(t):
                    if s[0] == "bin" and s[1] in ("Le", "Lt", "Ge", "Gt"):
                        has_overlap = True
            if n.get("k") == "Binary" and n["op"] in ("Le", "Lt", "Gt", "Ge"):
                t = T.term(n, T.Env(), mutated)
                if mentions_word_bits(t, fx):
                    has_end = True
            if n.get("k") == "Closure":
                for m, _ in F.walk(n["body"]):
                    if m.get("k") == "Binary" and m["op"] in ("Le", "Lt") and mentions_word_bits(T.term(m, T.Env()), fx):
                        has_end = True
        # the flag as the outcome of one pass over the spans (`spans.iter().try_fold(0, |last, span| ..).is_some()`, `.all(|span| ..)`):
        # both tests sit in the closure that sees EVERY span on its own - a chain that pairs, skips or filters elements
        # (`tuple_windows`, `zip`, `skip`, ..) leaves some span untested and is not accepted
        for n, nps in F.walk(scope):
            if n.get("s") == "Let" and "init" in n and n["pat"].get("p") == "Bind" and n["pat"]["local"] in flag_locals and n["pat"]["local"] not in mutated:
                chain, cur = [], F.strip(n["init"])
                while cur.get("k") == "MethodCall":
                    chain.append(cur)
                    cur = F.strip(cur["recv"])
                meths = [c_["method"] for c_ in chain]
                per_element = bool(meths) and not any(m_ in ("tuple_windows", "windows", "zip", "skip", "take", "step_by", "chunks", "filter", "skip_while", "take_while", "rev") for m_ in meths) and any(m_ in ("try_fold", "all", "fold", "try_for_each") for m_ in meths)
                if per_element:
                    for c_ in chain:
                        for a_ in c_["args"]:
                            if F.strip(a_).get("k") != "Closure":
                                continue
                            for m, _ in F.walk(F.strip(a_)["body"]):
                                if m.get("k") == "Binary" and m["op"] in ("Le", "Lt", "Ge", "Gt"):
                                    if mentions_word_bits(T.term(m, T.Env()), fx):
                                        has_end = True
                                        assigns_false = True
                                    else:
                                        has_overlap = True
        rep.oblige(
            bool(flag_locals) and has_overlap,
            "R12.3",
            f"overlap-test:{b['def']}",
            F.loc(node["span"]),
            "the packed-encoding lift builds a Packed node without the span-overlap test guarding it",
            sample={"rule": "R12.3", "fn": b["def"], "guard": "validity flag", "overlap": has_overlap, "end_in_word": has_end},
        )
        rep.oblige(
            bool(flag_locals) and has_end and assigns_false,
            "R12.3",
            f"end-in-word:{b['def']}",
            F.loc(node["span"]),
            "the packed-encoding lift does not reject spans that end beyond WORD_SIZE_BITS",
        )
    check_merge_boundaries(fx, rep, "R12.3")
    check_span_judgement_width(fx, rep, "R12.3")


def check_merge_boundaries(fx, rep, rule):
    """Merged packed types take their spans from a sorted, de-duplicated boundary list (so every derived span has end > start)."""
    merge = None
    for b in fx.fn_bodies():
        if F.strip_generics(b["def"]) == "tc::unification::merge":
            merge = b
    if rep.anchor(rule, merge is not None, "tc::unification::merge"):
        te = "tc::expression::TypeExpression"
        for m, ps in F.exprs(merge["hir"]["value"], "Match"):
            for arm in m["arms"]:
                p = arm["pat"]
                if p.get("p") == "Tuple" and len(p["pats"]) == 2:
                    vs = [F.pat_variants(x) for x in p["pats"]]
                    if vs[0] == {(te, "Packed")} and vs[1] == {(te, "Packed")}:
                        names = [F.strip_generics(F.callee_def(c) or "").split("::")[-1] for c, _ in F.calls(arm["body"])]
                        ok = ("sorted" in names or "sort" in names or "sort_unstable" in names) and ("unique" in names or "dedup" in names)
                        rep.oblige(ok, rule, "merge-boundaries", F.loc(arm["span"]), "merging two packed types no longer derives its spans from a sorted, de-duplicated boundary list: derived spans may overlap, be unordered or have end < start (underflow in `end - start`)", sample={"rule": rule, "arm": "Packed x Packed", "calls": sorted(set(names) & {"sorted", "unique", "sort", "dedup", "merge"})})


def check_span_judgement_width(fx, rep, rule):
    """A type judged onto the variable of a span describes exactly that span: when merge pushes a sized word down to a span's
    variable (`Judgement::new(span.typ, word)`), the path to that judgement compares the span's size with the word's width.
    Otherwise a 160-bit type lands on an 8-bit span - and on every other span the variable is equated with, at whatever offset."""
    merge = next((b for b in fx.fn_bodies() if F.strip_generics(b["def"]) == "tc::unification::merge"), None)
    if not rep.anchor(rule, merge is not None, "tc::unification::merge"):
        return
    root = merge["hir"]["value"]
    mutated = T.mutated_locals(root)
    n = 0
    for c, ps in F.calls(root):
        if c.get("k") != "Call" or not F.strip_generics(F.callee_def(c) or "").endswith("unification::Judgement::new") or len(c["args"]) != 2:
            continue
        env = T.env_at(ps, c, mutated)
        tv = T.term(c["args"][0], env, mutated)
        while isinstance(tv, tuple) and tv[0] in ("ref", "deref") and len(tv) > 1:
            tv = tv[1]
        if not (isinstance(tv, tuple) and tv[0] == "field" and tv[2] == "typ"):
            continue
        # only judgements of one of merge's own operands (an existing type with its own width), not freshly built packed types
        a1 = F.strip(c["args"][1])
        if a1.get("k") != "Path" or a1.get("res") != "local":
            continue
        span = tv[1]
        n += 1
        compared = False
        origins = binding_origins(root)

        def from_width(x):
            """does the term come from the `width` field of the word being judged (directly, or through `Some(w) = width`)?"""
            while isinstance(x, tuple) and x[0] in ("ref", "deref") and len(x) > 1:
                x = x[1]
            if not (isinstance(x, tuple) and x[0] == "local"):
                return False
            if origins.get(x[1]) and origins[x[1]][1] == "width":
                return True
            for m_, _ in F.walk(root):
                pat = m_.get("pat") if isinstance(m_, dict) else None
                if isinstance(pat, dict) and "init" in m_ and x[1] in F.pat_bindings(pat):
                    il = None
                    for y, _ in F.walk(m_["init"]):
                        if y.get("k") in ("Call", "MethodCall"):
                            return False  # computed (e.g. the usage's nominal size), not the word's own width
                        if y.get("k") == "Path" and y.get("res") == "local":
                            il = y["local"]
                            break
                    return il is not None and bool(origins.get(il)) and origins[il][1] == "width"
            return False

        conds = [(T.term(cond, env, mutated), holds) for cond, holds in T.path_conditions(ps, c)]
        eqs = [st for st in T.entailed_atoms(conds) if isinstance(st, tuple) and st[0] == "bin" and st[1] == "Eq"]
        # `if span.size != w { return conflict }` in front: the inequality is known to be false here
        eqs += [st for st in T.entailed_atoms(conds, want_false=True) if isinstance(st, tuple) and st[0] == "bin" and st[1] == "Ne"]
        for st in eqs:
            if True:
                for side, other in ((st[2], st[3]), (st[3], st[2])):
                    x = side
                    while isinstance(x, tuple) and x[0] in ("ref", "deref") and len(x) > 1:
                        x = x[1]
                    if isinstance(x, tuple) and x[0] == "field" and x[2] == "size" and x[1] == span and from_width(other):
                        compared = True
        rep.oblige(compared, rule, f"span-judgement-width#{n}", F.loc(c["span"]), "merge judges an operand onto the variable of a span without comparing the span's size with the operand's own width on the way: a word wider than the span becomes the type of that span (and of every span its variable is equated with), so an entry can describe bits beyond its span and beyond the slot", sample={"rule": rule, "judged": T.short(tv)[:60], "size_compared": compared})
    rep.floor(rule, n, 1, "operands judged onto a span's variable in merge")


TE_ADT = "tc::expression::TypeExpression"
WORD_CTORS = ("word", "numeric", "unsigned_word", "signed_word", "bytes")


def binding_origins(root):
    """local id -> (variant, field) of the innermost pattern hop that binds it, over every pattern of the body."""
    out = {}
    for n, _ in F.walk(root):
        pat = n.get("pat") if isinstance(n, dict) else None
        if isinstance(pat, dict) and "p" in pat:
            for lid, (name, path) in F.pat_bindings(pat).items():
                if path:
                    out.setdefault(lid, path[-1])
    return out


def check_r124(fx, rep):
    """Every width handed to a word-type constructor is at most the word size: a literal / constant <= 256, the size of a
    bounded carrier, the width of an existing word type (induction), or a value under a comparison with WORD_SIZE_BITS."""
    n_sites = 0
    for b in fx.fn_bodies():
        hir = b.get("hir")
        if not hir or b.get("impl_self") == TE_ADT:
            continue  # the constructors themselves pass their parameter through; their callers are the sites
        root = hir["value"]
        mutated = None
        origins = None
        for node, ps in F.walk(root):
            arg = None
            if node.get("k") == "Call" and F.strip_generics(F.callee_def(node) or "").startswith(TE_ADT + "::") and (F.callee_def(node) or "").split("::")[-1] in WORD_CTORS and node["args"]:
                arg = node["args"][0]
            if node.get("k") == "Struct" and node.get("adt") == TE_ADT and node.get("variant") == "Word":
                arg = next((f["e"] for f in node["fields"] if f["field"] == "width"), None)
            if arg is None:
                continue
            if mutated is None:
                mutated = T.mutated_locals(root)
                origins = binding_origins(root)
            env = T.env_at(ps, node, mutated)
            t = T.term(arg, env, mutated)
            n_sites += 1
            rep.fn(b["def"])
            outer = T.upper_bounds(ps, node, env, mutated)

            def strip_ref(x):
                while isinstance(x, tuple) and x and x[0] in ("ref", "deref") and len(x) > 1:
                    x = x[1]
                return x

            def int_ok(x, known):
                x = strip_ref(x)
                if bounded(x, fx) is True and x[0] != "local":
                    return True
                for lhs, rhs, strict in known:
                    if strip_ref(lhs) == x and (mentions_word_bits(rhs, fx) or (rhs[0] != "local" and bounded(rhs, fx) is True)):
                        return True
                rl = T.root_local(x)
                if rl is not None:
                    org = origins.get(rl[1])
                    if org is not None and org[1] in ("width", "size", "length") and (org[0] in ("Word", "SubWord", "Shifted", "Packed") or "Span" in str(org[0])):
                        return True
                    # `let Some(x) = <..>.filter(|v| *v <= WORD_SIZE_BITS) else { return }`
                    for m, _ in F.walk(root):
                        if m.get("s") == "Let" and "init" in m and rl[1] in F.pat_bindings(m["pat"]) and closure_compares_word_bits(m["init"], fx):
                            return True
                return False

            def cond_bounds(c, holds):
                out = []
                if c[0] == "un" and c[1] == "Not":
                    return cond_bounds(c[2], not holds)
                if c[0] == "bin" and c[1] in ("Lt", "Le", "Gt", "Ge"):
                    op = c[1]
                    if not holds:
                        op = {"Lt": "Ge", "Le": "Gt", "Gt": "Le", "Ge": "Lt"}[op]
                    if op in ("Lt", "Le"):
                        out.append((c[2], c[3], op == "Lt"))
                    else:
                        out.append((c[3], c[2], op == "Gt"))
                if c[0] == "bin" and ((c[1] == "And" and holds) or (c[1] == "Or" and not holds)):
                    out += cond_bounds(c[2], holds) + cond_bounds(c[3], holds)
                return out

            def opt_ok(x, known, depth=0):
                if depth > 10 or not isinstance(x, tuple):
                    return False
                if x[0] == "path" and str(x[1]).endswith("None"):
                    return True
                if x[0] == "struct" and str(x[2]).endswith("Some") and x[3]:
                    return int_ok(x[3][0][1], known)
                if x[0] == "if":
                    return opt_ok(x[2], known + cond_bounds(x[1], True), depth + 1) and opt_ok(x[3], known + cond_bounds(x[1], False), depth + 1)
                if x[0] == "match":
                    return all(opt_ok(body, known, depth + 1) for _lbl, body in x[2])
                if x[0] == "ret" or (x[0] == "call" and isinstance(x[1], str) and "expression" in x[1] and "Merge" in x[1]):
                    return True
                if x[0] == "call" and isinstance(x[1], str) and F.strip_generics(x[1]).endswith("WordUse::size"):
                    return True
                if x[0] == "call" and isinstance(x[1], str) and F.strip_generics(x[1]).split("::")[-1] in ("or", "and", "xor") and len(x[2]) == 2:
                    return opt_ok(x[2][0], known, depth + 1) and opt_ok(x[2][1], known, depth + 1)
                if x[0] == "call" and isinstance(x[1], str) and F.strip_generics(x[1]).split("::")[-1] == "filter" and "Option" in x[1]:
                    # `Some(w).filter(|w| *w <= WORD_SIZE_BITS)`: what passes the filter is bounded (every Option filter of the function
                    # compares its argument with the word size)
                    fl = [m_ for m_, _ in F.walk(root) if m_.get("k") == "MethodCall" and m_["method"] == "filter" and "Option<" in (m_.get("recv_ty") or "")]
                    return bool(fl) and all(closure_compares_word_bits(m_, fx) and not any(q.get("k") == "Binary" and q["op"] in ("Gt", "Ge") and mentions_word_bits(T.term(q, T.Env())[3], fx) for c_ in m_["args"] for q, _ in F.walk(c_)) for m_ in fl)
                rl = T.root_local(x)
                if rl is not None:
                    org = origins.get(rl[1])
                    if org is not None and org[1] == "width" and org[0] == "Word":
                        return True
                return False

            ok = opt_ok(t, list(outer))
            rep.oblige(
                ok,
                "R12.4",
                f"word-width:{F.strip_generics(b['def'])}#{sum(1 for x in rep.instances.get('R12.4', []) if x.startswith('word-width:' + F.strip_generics(b['def']) + '#')) + 1}",
                F.loc(node["span"]),
                f"`{b['def']}` builds a word type whose width `{T.short(t)[:80]}` is not bounded by WORD_SIZE_BITS: a layout entry of that type ends beyond its 256-bit slot",
                sample={"rule": "R12.4", "fn": b["def"], "width": T.short(t)[:80], "at": F.loc(node["span"])},
            )
    rep.floor("R12.4", n_sites, 6, "word-type constructions with a width argument outside the type-expression constructors")


def check_type_spans(fx, rep, rule="R12.2"):
    """Type-level spans (`Span::new(var, offset, size)`) built outside merge - by inference rules and passes - describe bits
    inside the word only if offset AND size come from one validated carrier (the two fields of one `SubWord` / packed-span
    node, whose construction R12.2 bounds together), are constants with offset + size <= 256, or are compared with the word
    size on the way. An offset taken from one node and a size from another (or from an arbitrary constant) is bounded by nothing."""
    SPAN = "tc::expression::Span"
    n = 0
    for b in fx.fn_bodies():
        if not b.get("hir") or b.get("from_expansion") or not b["def"].startswith(("<tc::rule::", "tc::rule::", "<tc::lift::", "tc::lift::", "tc::state::", "tc::TypeChecker")):
            continue
        root = b["hir"]["value"]
        mutated = None
        carrier = None
        for node, ps in F.walk(root):
            off = size = None
            if node.get("k") == "Call" and F.strip_generics(F.callee_def(node) or "") == SPAN + "::new" and len(node["args"]) == 3:
                off, size = node["args"][1], node["args"][2]
            elif node.get("k") == "Struct" and node.get("adt") == SPAN:
                fl = {f["field"]: f["e"] for f in node["fields"]}
                off, size = fl.get("offset"), fl.get("size")
            if off is None or size is None:
                continue
            if mutated is None:
                mutated = T.mutated_locals(root)
                # local -> (id of the struct pattern that binds it, variant, field)
                carrier = {}
                for m, _ in F.walk(root):
                    if isinstance(m, dict) and m.get("p") == "Struct":
                        for f in m.get("fields", []):
                            if f["pat"].get("p") == "Bind":
                                carrier[f["pat"]["local"]] = (id(m), m.get("variant") or (m.get("adt") or "").split("::")[-1], f["field"])
            env = T.env_at(ps, node, mutated)
            to, ts = T.term(off, env, mutated), T.term(size, env, mutated)

            def strip(x):
                while isinstance(x, tuple) and x and x[0] in ("ref", "deref") and len(x) > 1:
                    x = x[1]
                return x

            to, ts = strip(to), strip(ts)
            n += 1
            rep.fn(b["def"])

            def const(x):
                if x[0] == "lit":
                    try:
                        return int(x[1])
                    except (TypeError, ValueError):
                        return None
                if x[0] == "path":
                    return fx.const_value(x[1])
                return None

            ok = False
            why = "offset and size do not come from one validated node"
            co, cs = const(to), const(ts)
            if co is not None and cs is not None:
                ok = co + cs <= 256
                why = f"constants {co} + {cs} exceed the word"
            elif to[0] == "local" and ts[0] == "local" and to[1] in carrier and ts[1] in carrier:
                a, c = carrier[to[1]], carrier[ts[1]]
                ok = a[0] == c[0] and a[2] == "offset" and c[2] == "size" and (a[1] in ("SubWord", "PackedSpan") or "Span" in str(a[1]))
            elif to[0] == "field" and ts[0] == "field" and to[1] == ts[1] and to[2] == "offset" and ts[2] == "size":
                ok = True  # span.offset / span.size of one packed span
            elif co == 0 and ts[0] == "local" and ts[1] in carrier and carrier[ts[1]][2] in ("size", "width"):
                ok = True
            elif cs == 256 and to[0] == "bin" and to[1] == "Mul" and (const(strip(to[2])) == 256 or const(strip(to[3])) == 256):
                ok = True  # word #k of a multi-word value (a struct behind a mapping): whole words at word-aligned offsets
            elif cs == 256 and to[0] == "call" and isinstance(to[1], str) and F.strip_generics(to[1]).split("::")[-1] in ("saturating_mul", "wrapping_mul", "checked_mul") and any(const(strip(a_)) == 256 for a_ in to[2]):
                ok = True  # the same, with the multiplication spelt as a method
            if not ok:
                # a comparison with the word size that is known to hold here
                for lhs, rhs, strict in T.upper_bounds(ps, node, env, mutated):
                    if mentions_word_bits(rhs, fx) and any(st == to or st == ts for st in T.subterms(lhs)) and lhs[0] == "bin" and lhs[1] == "Add":
                        ok = True
            k = sum(1 for y in rep.instances.get(rule, []) if y.startswith(f"type-span:{F.strip_generics(b['def'])}#")) + 1
            rep.oblige(ok, rule, f"type-span:{F.strip_generics(b['def'])}#{k}", F.loc(node["span"]), f"`{b['def']}` builds a type-level span at (`{T.short(to)[:40]}`, `{T.short(ts)[:40]}`): {why}, so nothing bounds offset + size by the word size and the entry reported for it can lie (partly) outside its slot", sample={"rule": rule, "fn": b["def"], "offset": T.short(to)[:40], "size": T.short(ts)[:40]} if n <= 4 else None)
    rep.floor(rule, n, 3, "type-level spans built by inference rules and passes")


def check_reported_width(fx, rep, rule="R12.4"):
    """The width reported for a type is never larger than the width inferred for it: where the type checker turns a bit width
    into the `length` / `size` of an ABI type, the only arithmetic on the way rounds down (`/ BYTE_SIZE_BITS`). Rounding up
    (`div_ceil`, `next_multiple_of`), adding or scaling makes an entry at the top of a slot end beyond bit 256."""
    ABI = "tc::abi::AbiType"
    GROW = {"div_ceil", "next_multiple_of", "checked_next_multiple_of", "next_power_of_two", "max", "pow", "checked_add", "saturating_add", "wrapping_add", "checked_mul", "saturating_mul", "wrapping_mul", "checked_shl", "wrapping_shl", "abs_diff", "clamp"}
    GROW_OPS = {"Add", "Mul", "Shl", "BitOr"}
    n = 0
    for b in fx.fn_bodies():
        if not b.get("hir") or b.get("from_expansion") or not b["def"].startswith(("tc::", "<tc::")):
            continue
        for node, ps in F.walk(b["hir"]["value"]):
            if node.get("k") != "Struct" or node.get("adt") != ABI:
                continue
            for f in node["fields"]:
                if f["field"] not in ("length", "size"):
                    continue
                ty = (f["e"].get("ty") or "")
                if "usize" not in ty:
                    continue
                n += 1
                rep.fn(b["def"])
                grow = sorted({x["method"] for x, _ in F.walk(f["e"]) if x.get("k") == "MethodCall" and x["method"] in GROW} | {x["op"] for x, _ in F.walk(f["e"]) if x.get("k") in ("Binary", "AssignOp") and x.get("op") in GROW_OPS})
                # a let-bound width: look through immutable lets of the function
                for x, _ in F.walk(f["e"]):
                    if x.get("k") == "Path" and x.get("res") == "local":
                        for m, _ in F.walk(b["hir"]["value"]):
                            if m.get("s") == "Let" and "init" in m and m["pat"].get("p") == "Bind" and m["pat"].get("local") == x["local"]:
                                grow += sorted({y["method"] for y, _ in F.walk(m["init"]) if y.get("k") == "MethodCall" and y["method"] in GROW} | {y["op"] for y, _ in F.walk(m["init"]) if y.get("k") == "Binary" and y.get("op") in GROW_OPS})
                k = sum(1 for y in rep.instances.get(rule, []) if y.startswith(f"reported-width:{F.strip_generics(b['def'])}:{node.get('variant')}#")) + 1
                rep.oblige(not grow, rule, f"reported-width:{F.strip_generics(b['def'])}:{node.get('variant')}#{k}", F.loc(node["span"]), f"`{b['def']}` reports the `{f['field']}` of `{node.get('variant')}` through {grow}: the reported width can exceed the inferred one, so an entry near the top of a slot ends beyond it", sample={"rule": rule, "fn": b["def"], "type": node.get("variant"), "field": f["field"]} if n <= 3 else None)
    rep.floor(rule, n, 6, "widths handed to ABI types by the type checker")


def check_r125(fx, rep):
    """Offsets accumulate when a nested packed type is flattened into its parent (`nested offset + span offset`). The sum of
    two in-word offsets is not an in-word offset: the flattening must keep the nested elements inside the parent span (or the
    word) by a comparison on that very chain."""
    n_sites = 0
    for b in fx.fn_bodies():
        hir = b.get("hir")
        if not hir or "AbiValue" not in (fx.fns.get(b["def"], {}).get("output") or ""):
            continue
        for m, mps in F.exprs(hir["value"], "Match"):
            for a in m["arms"]:
                if F.pat_variants(a["pat"]) != {(TE_ADT, "Packed")}:
                    continue
                ordinal = 0
                for n, ps in F.walk(a["body"]):
                    if n.get("k") != "Binary" or n["op"] != "Add" or (n.get("ty") or "").strip() != "usize":
                        continue
                    ordinal += 1
                    n_sites += 1
                    rep.fn(b["def"])
                    # the enclosing iterator chain (receiver chain of the adaptor whose closure contains the sum)
                    guarded = False
                    for anc, key in reversed(ps):
                        if anc.get("k") == "MethodCall" and key == "args":
                            chain = anc
                            while chain is not None and chain.get("k") == "MethodCall":
                                if chain["method"] in ("filter", "take_while", "skip_while", "filter_map") and any(
                                    x.get("k") == "Binary" and x["op"] in ("Lt", "Le", "Gt", "Ge") for c in chain["args"] for x, _ in F.walk(c)
                                ):
                                    guarded = True
                                chain = chain.get("recv")
                        if anc.get("k") == "If" and key in ("then", "else") and any(x.get("k") == "Binary" and x["op"] in ("Lt", "Le", "Gt", "Ge") for x, _ in F.walk(anc["cond"])):
                            guarded = True
                    # or the sum itself is compared / clamped right away
                    for anc, key in reversed(ps[-3:]):
                        if anc.get("k") == "Binary" and anc["op"] in ("Lt", "Le", "Gt", "Ge"):
                            guarded = True
                        if anc.get("k") == "MethodCall" and anc["method"] in ("min", "clamp"):
                            guarded = True
                    rep.oblige(
                        guarded,
                        "R12.5",
                        f"accumulate:{F.strip_generics(b['def'])}#{ordinal}",
                        F.loc(n["span"]),
                        f"`{b['def']}` adds the offset of a nested packed element to the offset of its parent span with no bound on the way: elements that lie beyond the parent span are reported at offsets of 256 and more",
                        sample={"rule": "R12.5", "fn": b["def"], "at": F.loc(n["span"]), "bounded": guarded},
                    )
    rep.floor("R12.5", n_sites, 1, "offset accumulations in the conversion of packed types to layout entries")


def check(fx, rep, tier):
    check_r121(fx, rep)
    # the writer files each row under the index and offset it is handed (shared with C05 R05.1)
    from .c05 import check_row_as_handed

    check_row_as_handed(fx, rep, "R12.1")
    check_r122(fx, rep)
    check_r123(fx, rep)
    check_r124(fx, rep)
    check_reported_width(fx, rep)
    check_type_spans(fx, rep)
    check_r125(fx, rep)
    return rep.finish(
        "Who-may-write audit of the layout's entry vector plus the push-then-sort-by-(index,offset) path rule in the insertion method and the "
        "ordering impls of the 256-bit index wrapper; bounded-provenance audit of every fresh construction of an in-slot offset carrier "
        "(sub-word, shifted, packed span); presence and position of the overlap / end-in-word validation in the packed lift and of the "
        "sorted+unique boundary derivation in the packed merge.",
        "instances = mutators of the entry vector, pushes, ordering impls, carrier constructions x {offset,size}, packed constructions; enumerated from the crate",
        ["width arithmetic for every AbiType is value-level and not decided; only presence and position of the bounds are"],
    )
