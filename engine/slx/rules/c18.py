"""C18 — symbolic values respect the size limit and report their true size.

R18.1 recorded size = size of stored data : at every construction of SymbolicValue the `size` field is
        child_size(D) + 1 for the very D stored in `data` (term identity after inlining immutable lets).
R18.2 sibling agreement                   : for each variant of the expression enum, `child_size` counts each child
        field exactly once, `children` lists each once, the transformer (and the runtime->type-checker conversion)
        rebuilds the same variant with each child transformed into the same field and each non-child field copied.
R18.3 limit applied to instruction results: every composite value built on a path from an opcode's execute goes
        through a constructor that receives Some(limit); `None` is accepted only for leaves.
R18.4 cull comparison                     : the constructor compares child_size+1 with the limit using `>` and
        substitutes a leaf (opaque value).
"""
from .. import facts as F
from .. import terms as T

SV = "vm::value::SymbolicValue"
SVD = "vm::value::SymbolicValueData"


def child_kind(ty):
    """Classify a field type of the expression enum: 'child', 'children', 'spans' or None."""
    t = ty.replace(" ", "")
    if t.startswith("std::sync::Arc<vm::value::SymbolicValue<"):
        return "child"
    if t.startswith("std::vec::Vec<std::sync::Arc<vm::value::SymbolicValue<"):
        return "children"
    if t.startswith("std::vec::Vec<vm::value::PackedSpan<"):
        return "spans"
    return None


def big_matches(fx):
    """(body, match) for every match with >= 50 arms over variants of the expression enum."""
    out = []
    for b in fx.fn_bodies():
        hir = b.get("hir")
        if not hir:
            continue
        for m, ps in F.exprs(hir["value"], "Match"):
            n = 0
            for a in m["arms"]:
                pv = F.pat_variants(a["pat"])
                if pv and all(x[0] == SVD for x in pv):
                    n += 1
            if n >= 50:
                out.append((b, m, ps))
    return out


def uses_of(node, local):
    return sum(1 for n, _ in F.walk(node) if n.get("k") == "Path" and n.get("res") == "local" and n.get("local") == local)


def check_r181(fx, rep):
    sites = []
    size_fn = None
    for b in fx.fn_bodies():
        hir = b.get("hir")
        if not hir:
            continue
        mutated = None
        for n, ps in F.walk(hir["value"]):
            if n.get("k") == "Struct" and n.get("adt") == SV:
                if mutated is None:
                    mutated = T.mutated_locals(hir["value"])
                sites.append((b, n, ps, mutated))
    rep.floor("R18.1", len(sites), 2, "constructions of SymbolicValue")
    for b, n, ps, mutated in sites:
        rep.fn(b["def"])
        w = F.loc(n["span"])
        env = T.env_at(ps, n, mutated)
        fields = {f["field"]: T.term(f["e"], env, mutated) for f in n["fields"]}
        if "base" in n:
            rep.oblige(False, "R18.1", f"ctor:{b['def']}", w, "SymbolicValue built with struct-update syntax: `size` may be copied from another value")
            continue
        size_t = fields.get("size")
        data_t = fields.get("data")
        ok = False
        why = "size is not `child_size(data) + 1`"
        inner = None
        if size_t and size_t[0] == "bin" and size_t[1] == "Add":
            a, c = size_t[2], size_t[3]
            if a == ("lit", "1"):
                a, c = c, a
            if c == ("lit", "1") and a[0] == "call" and isinstance(a[1], str) and len(a[2]) == 1:
                inner = a[2][0]
                callee_name = F.strip_generics(a[1])
                if inner == data_t:
                    ok = True
                    if size_fn is None:
                        size_fn = callee_name
                    elif size_fn != callee_name:
                        ok = False
                        why = f"size computed with `{callee_name}` here but `{size_fn}` elsewhere"
                else:
                    why = f"size is computed from `{T.short(inner)}` but the stored data is `{T.short(data_t)}`"
        # a mutable local between computation and use defeats term identity
        if ok:
            for t in T.subterms(data_t):
                if t[0] == "local" and t[1] in mutated:
                    ok = False
                    why = f"`{t[2]}` is reassigned in this function; cannot show the size is that of the stored data (unrecognised idiom)"
        rep.oblige(
            ok,
            "R18.1",
            f"ctor:{b['def']}",
            w,
            f"SymbolicValue constructed in `{b['def']}`: {why}",
            sample={"rule": "R18.1", "fn": b["def"], "size": T.short(size_t) if size_t else None, "data": T.short(data_t)[:80] if data_t else None, "at": w},
        )
    return size_fn


def check_r182(fx, rep, size_fn):
    adt = fx.adt(SVD)
    if not rep.anchor("R18.2", adt is not None, "the expression enum SymbolicValueData"):
        return
    variants = {v["name"]: v for v in adt["variants"]}
    kinds = {v: {f["name"]: child_kind(f["ty"]) for f in vv["fields"]} for v, vv in variants.items()}
    rep.extra["variants"] = len(variants)
    found = {"sum": [], "list": [], "rebuild": []}
    for b, m, ps in big_matches(fx):
        fn = fx.fns.get(b["def"], {})
        out = fn.get("output", "")
        name = F.strip_generics(b["def"])
        if out == "usize":
            found["sum"].append((b, m))
        elif out.startswith("std::vec::Vec<std::sync::Arc<vm::value::SymbolicValue<"):
            found["list"].append((b, m))
        elif "SymbolicValueData<" in out or out == "Self" or "SymbolicValue<" in out:
            # transformer (returns the enum) or runtime -> type checker conversion
            if any(n.get("k") == "Struct" and n.get("adt") == SVD for n, _ in F.walk(m)):
                found["rebuild"].append((b, m))
    rep.anchor("R18.2", len(found["sum"]) >= 1, "the child-size function (match over all variants returning usize)")
    rep.anchor("R18.2", len(found["list"]) >= 1, "the children function (match over all variants returning the child list)")
    rep.anchor("R18.2", len(found["rebuild"]) >= 1, "the transformer (match over all variants rebuilding the node)")
    if size_fn:
        names = {F.strip_generics(b["def"]) for b, _ in found["sum"]}
        rep.oblige(size_fn in names, "R18.2", "size-fn-is-sibling", "-", f"the function used for `size` at construction (`{size_fn}`) is not the audited per-variant child-size table {sorted(names)}")

    for kind, lst in found.items():
        for b, m in lst:
            rep.fn(b["def"])
            seen = set()
            for arm in m["arms"]:
                pv = F.pat_variants(arm["pat"])
                w = F.loc(arm["span"])
                if not pv:
                    # catch-all: every variant not yet seen must have no child fields
                    rest = [v for v in variants if v not in seen and any(k for k in kinds[v].values())]
                    rep.oblige(not rest, "R18.2", f"{kind}:{b['def']}:catch-all", w, f"catch-all arm of `{b['def']}` covers variants with children {rest[:4]}: their children are not {'counted' if kind=='sum' else 'visited'}")
                    seen |= set(variants)
                    continue
                binds_all = F.pat_bindings(arm["pat"])
                for adt_name, V in sorted(pv):
                    if adt_name != SVD or V in seen:
                        continue
                    seen.add(V)
                    vk = kinds.get(V, {})
                    # field -> local for this arm. In an or-pattern every alternative binds the same names; uses refer to the
                    # bindings of the first alternative, so fields are mapped through the binding *name*.
                    if len(pv) > 1 and any(vk.values()):
                        if kind == "rebuild":
                            rep.oblige(False, "R18.2", f"{kind}:{V}", w, f"or-pattern arm covers `{V}` which has children: one arm cannot rebuild two different variants (unrecognised idiom)")
                            continue
                        alts = arm["pat"]["pats"] if arm["pat"].get("p") == "Or" else [arm["pat"]]
                        canon = {}
                        for alt in alts:
                            for lid, (nm, path) in F.pat_bindings(alt).items():
                                canon.setdefault(nm, lid)
                        mine = next((alt for alt in alts if (F.pat_variants(alt) or set()) == {(SVD, V)}), None)
                        f2l = {}
                        if mine is not None:
                            for lid, (nm, path) in F.pat_bindings(mine).items():
                                if path:
                                    f2l[path[-1][1]] = canon.get(nm, lid)
                    else:
                        f2l = {path[-1][1]: lid for lid, (nm, path) in binds_all.items() if path}
                    key = f"{kind}:{F.strip_generics(b['def']).split('::')[-1]}:{V}"
                    if kind in ("sum", "list"):
                        ok = True
                        msg = ""
                        for f, k in vk.items():
                            if k:
                                lid = f2l.get(f)
                                u = uses_of(arm["body"], lid) if lid is not None else 0
                                if u != 1:
                                    ok = False
                                    msg = f"child field `{f}` of `{V}` is used {u} time(s) in `{b['def']}` (must be exactly once)"
                            else:
                                lid = f2l.get(f)
                                if lid is not None and uses_of(arm["body"], lid) and kind == "sum":
                                    ok = False
                                    msg = f"non-child field `{f}` of `{V}` contributes to the size"
                        if ok and kind == "sum":
                            n_child = sum(1 for k in vk.values() if k)
                            n_size = 0
                            for c, cps in F.calls(arm["body"]):
                                if not (F.callee_def(c) or "").endswith("SymbolicValue::<AuxData>::size"):
                                    continue
                                mult = 1
                                # `[a, b].iter().map(|v| v.size()).sum()`: one term per element of the array literal
                                for anc, key in reversed(cps):
                                    if anc.get("k") == "MethodCall" and key == "args" and anc["method"] in ("map", "fold", "for_each"):
                                        r = anc["recv"]
                                        while r.get("k") == "MethodCall" and r["method"] in ("iter", "into_iter", "copied", "cloned"):
                                            r = r["recv"]
                                        r = F.strip(r)
                                        if r.get("k") == "Array":
                                            mult = len(r.get("elems", []))
                                        break
                                n_size += mult
                            if n_size != n_child:
                                ok = False
                                msg = f"`{V}` has {n_child} child field(s) but {n_size} `.size()` term(s)"
                            # constants added
                            for n2, _ in F.walk(arm["body"]):
                                if n2.get("k") == "Lit" and n2["value"].get("lit") == "int" and int(n2["value"]["v"]) != 0:
                                    ok = False
                                    msg = f"`{V}`: a constant {n2['value']['v']} is added to the child size"
                        rep.oblige(ok, "R18.2", key, w, msg, sample={"rule": "R18.2", "table": kind, "variant": V, "children": [f for f, k in vk.items() if k], "at": w})
                    else:
                        structs = [n for n, _ in F.walk(arm["body"]) if n.get("k") == "Struct" and (n.get("adt") == SVD)]
                        n_child = sum(1 for k in vk.values() if k)
                        if not structs:
                            ok = n_child == 0
                            rep.oblige(ok, "R18.2", key, w, f"`{V}` has children but `{b['def']}` does not rebuild it", sample={"rule": "R18.2", "table": kind, "variant": V, "leaf": True, "at": w})
                            continue
                        ok = True
                        msg = ""
                        for s in structs:
                            if s.get("variant") != V:
                                ok = False
                                msg = f"arm for `{V}` rebuilds a `{s.get('variant')}`"
                                break
                            sf = {f["field"]: f["e"] for f in s["fields"]}
                            if set(sf) != set(vk):
                                ok = False
                                msg = f"`{V}` rebuilt with fields {sorted(sf)}"
                                break
                            for f, k in vk.items():
                                lid = f2l.get(f)
                                others = [l for ff, l in f2l.items() if ff != f]
                                e = sf[f]
                                if lid is None or uses_of(e, lid) != 1 or any(uses_of(e, o) for o in others):
                                    ok = False
                                    msg = f"field `{f}` of rebuilt `{V}` is not built from the matched `{f}`"
                                    break
                                if k:
                                    COPYING = {"clone", "iter", "into_iter", "map", "collect", "collect_vec", "cloned", "copied", "to_vec", "to_owned", "as_ref", "borrow", "deref"}
                                    has_call = any((c["method"] if c.get("k") == "MethodCall" else (F.callee_def(c) or "").split("::")[-1]) not in COPYING for c, _ in F.calls(e))
                                    if not has_call:
                                        ok = False
                                        msg = f"child `{f}` of `{V}` is copied without being transformed"
                                        break
                            if not ok:
                                break
                        rep.oblige(ok, "R18.2", key, w, msg, sample={"rule": "R18.2", "table": kind, "variant": V, "at": w})
            missing = set(variants) - seen
            rep.oblige(not missing, "R18.2", f"{kind}:{b['def']}:coverage", F.loc(b["span"]), f"variants without an arm: {sorted(missing)[:4]}")


BUILDER_FNS = ("vm::ValueBuilder::symbolic", "vm::ValueBuilder::symbolic_exec")


def unwrapped_callers(fx, cg, helper, reach):
    """Callers (within `reach`) that use the helper's result other than as (part of) the data argument of a
    limit-checking builder call. Returns a set of caller names, or None if the helper has no caller."""
    bad = set()
    n_callers = 0
    for caller in sorted(cg.callers_of(helper)):
        if caller not in reach:
            continue
        b = fx.body(caller)
        if not b or "hir" not in b:
            continue
        root = b["hir"]["value"]
        for n, ps in F.calls(root):
            if helper not in cg.resolve_local(n):
                continue
            n_callers += 1

            def in_builder(pp):
                for anc, key in pp:
                    if anc.get("k") in ("Call", "MethodCall") and (F.callee_def(anc) or "") in BUILDER_FNS:
                        return True
                return False

            if in_builder(ps):
                continue
            # let-bound?
            lid = None
            for anc, key in reversed(ps):
                if anc.get("s") == "Let" and key == "init" and anc["pat"].get("p") == "Bind":
                    lid = anc["pat"]["local"]
                    break
                if anc.get("k") in ("Call", "MethodCall", "Struct", "Match", "If"):
                    break
            if lid is None:
                bad.add(caller)
                continue
            uses = [(m, pp) for m, pp in F.walk(root) if m.get("k") == "Path" and m.get("res") == "local" and m.get("local") == lid]
            if not uses or not all(in_builder(pp) for m, pp in uses):
                bad.add(caller)
    if n_callers == 0:
        return None
    return bad


def check_r183(fx, rep, cg):
    ex = [b["def"] for i, b in fx.trait_method_bodies("opcode::Opcode", "execute")]
    rep.floor("R18.3", len(ex), 70, "Opcode::execute implementations")
    reach = cg.reachable(ex)
    ctor_names = ("SymbolicValue::<()>::new", "SymbolicValue::<()>::new_from_execution", "SymbolicValue::<()>::new_known_value", "SymbolicValue::<()>::new_synthetic")
    n_sites = 0
    ordinal = {}
    unlimited_nodes = set()
    for name in sorted(reach):
        b = fx.body(name)
        if not b or "hir" not in b or b.get("from_expansion"):
            continue
        if F.strip_generics(name).startswith("vm::value::SymbolicValue::"):
            continue  # the constructors themselves (delegation), audited by R18.1/R18.4
        mutated = None
        for n, ps in F.calls(b["hir"]["value"]):
            cd = F.callee(n) or ""
            if not any(cd.endswith(x) for x in ctor_names):
                continue
            n_sites += 1
            if mutated is None:
                mutated = T.mutated_locals(b["hir"]["value"])
            env = T.env_at(ps, n, mutated)
            args = [T.term(a, env, mutated) for a in F.call_args(n)]
            w = F.loc(n["span"])
            short = cd.split("::")[-1]
            if short == "new_synthetic":
                limit = ("path", "None")
                data = args[1]
            elif short == "new":
                data, limit = args[1], args[3]
            elif short == "new_from_execution":
                data, limit = args[1], args[2]
            else:
                data, limit = ("struct", SVD, "KnownData", ()), args[3]
            has_limit = limit[0] == "struct" and str(limit[2]).endswith("Some")
            leaf = False
            if data[0] == "struct" and data[2] in ("KnownData", "Value"):
                leaf = True
            if data[0] == "call" and isinstance(data[1], str) and (data[1].endswith("::new_value") or data[1].endswith("::new_known")):
                leaf = True
            variant = data[2] if data[0] == "struct" else "computed"
            ordinal[(name, variant)] = ordinal.get((name, variant), 0) + 1
            key = f"nolimit:{F.strip_generics(name)}:{variant}#{ordinal[(name, variant)]}"
            ok = has_limit or leaf
            how = "limit passed" if has_limit else "leaf"
            if not ok and name not in ex:
                # a helper: acceptable when every caller wraps the result in a limit-checked node
                bad_callers = unwrapped_callers(fx, cg, name, reach)
                if bad_callers is not None and not bad_callers:
                    ok = True
                    how = "every caller wraps the result in a builder-constructed node"
                elif bad_callers:
                    how = "returned unwrapped to " + ", ".join(sorted(bad_callers))
            if not ok:
                unlimited_nodes.add(id(n))
            rep.oblige(
                ok,
                "R18.3",
                key,
                w,
                f"`{name}` (reachable from an opcode's execute) builds a composite `{variant}` value with no size limit and hands it on unwrapped ({how}): an instruction result can exceed the configured number of nodes",
                sample={"rule": "R18.3", "fn": name, "data": str(variant), "limit": T.short(limit), "discharge": how, "at": w},
            )
    rep.extra["constructor_call_sites_on_execution_paths"] = n_sites
    # unlimited wrappers must not nest: a composite built without the limit stays small only if none of its children can be
    # another unlimited composite of the same kind. Per (site, child field): the channel is closed when the construction sits in
    # the else-branch of a *pure* `if let <same variant> { .. } = <that child>.data()` test (no guard, no extra condition).
    adt = fx.adt(SVD)
    vfields = {v["name"]: {f["name"]: child_kind(f["ty"]) for f in v["fields"]} for v in adt["variants"]} if adt else {}
    for name in sorted(reach):
        b = fx.body(name)
        if not b or "hir" not in b or b.get("from_expansion") or F.strip_generics(name).startswith("vm::value::SymbolicValue::"):
            continue
        for n, ps in F.calls(b["hir"]["value"]):
            cd = F.callee(n) or ""
            if not any(cd.endswith(x) for x in ctor_names) or id(n) not in unlimited_nodes:
                continue
            allargs = F.call_args(n)
            short = cd.split("::")[-1]
            lim = allargs[3] if short == "new" and len(allargs) > 3 else (allargs[2] if short == "new_from_execution" and len(allargs) > 2 else None)
            limt = T.term(lim, T.Env()) if lim is not None else ("path", "None")
            if limt[0] == "struct" and str(limt[2]).endswith("Some"):
                continue
            data_arg = allargs[1] if len(allargs) > 1 else None
            if data_arg is None:
                continue
            # the data may be let-bound in front of the call (`let data = match .. { .. }; RSV::new(ip, data, ..)`)
            hops = 0
            while hops < 4 and F.local_of(F.strip(data_arg)) is not None:
                lid_d = F.local_of(F.strip(data_arg))
                init_d = None
                for m_, _ in F.walk(b["hir"]["value"]):
                    if m_.get("s") == "Let" and "init" in m_ and m_["pat"].get("p") == "Bind" and m_["pat"].get("local") == lid_d:
                        init_d = m_["init"]
                if init_d is None:
                    break
                data_arg = init_d
                hops += 1
            for S, sps in F.walk(data_arg):
                if S.get("k") != "Struct" or S.get("adt") != SVD or S.get("variant") in ("KnownData", "Value"):
                    continue
                for f in S["fields"]:
                    if not vfields.get(S["variant"], {}).get(f["field"]):
                        continue
                    x = F.local_of(F.strip(f["e"]))
                    closed = False
                    for anc, key in sps:
                        if anc.get("k") == "If" and key == "else" and anc["cond"].get("k") == "Let":
                            c = anc["cond"]
                            if (F.pat_variants(c["pat"]) or set()) == {(SVD, S["variant"])} and "guard" not in c:
                                init_l = None
                                for m, _ in F.walk(c["init"]):
                                    if m.get("k") == "Path" and m.get("res") == "local":
                                        init_l = m["local"]
                                        break
                                if init_l is not None and init_l == x:
                                    closed = True
                        # `match <child>.data() { <same variant> {..} => reuse, _ => build }`: closed by an earlier arm of that
                        # variant WITHOUT a guard (a guarded arm lets the variant fall through to the building arm)
                        if anc.get("k") == "Match" and isinstance(key, str) is not None:
                            mine = None
                            for ai, a_ in enumerate(anc.get("arms", [])):
                                if any(y is S for y, _ in F.walk(a_["body"])):
                                    mine = ai
                            if mine is not None:
                                scr_l = None
                                for m_, _ in F.walk(anc["scrut"]):
                                    if m_.get("k") == "Path" and m_.get("res") == "local":
                                        scr_l = m_["local"]
                                        break
                                for a_ in anc["arms"][:mine]:
                                    if (F.pat_variants(a_["pat"]) or set()) == {(SVD, S["variant"])} and a_.get("guard") is None and scr_l is not None and scr_l == x:
                                        closed = True
                    rep.oblige(
                        closed,
                        "R18.3",
                        f"nolimit-nesting:{F.strip_generics(name)}:{S['variant']}.{f['field']}",
                        F.loc(S["span"]),
                        f"`{name}` builds `{S['variant']}` without the size limit and nothing keeps its `{f['field']}` child from being another unlimited `{S['variant']}`: such values nest (and share sub-trees), so their tree size grows without any bound the limit could enforce",
                        sample={"rule": "R18.3", "fn": name, "variant": S["variant"], "child": f["field"], "nesting_closed_by_pure_test": closed},
                    )
    # the builder passes Some(limit) -------------------------------------------------------
    for b in fx.fn_bodies():
        if b.get("impl_self") == "vm::ValueBuilder" and b.get("name") in ("symbolic", "symbolic_exec", "known", "known_exec"):
            rep.fn(b["def"])
            ok = False
            for n, ps in F.calls(b["hir"]["value"]):
                cd = F.callee(n) or ""
                if any(cd.endswith(x) for x in ctor_names):
                    args = [T.term(a, T.Env()) for a in F.call_args(n)]
                    lim = args[-1]
                    if lim[0] == "struct" and str(lim[2]).endswith("Some") and "value_size_limit" in str(lim):
                        ok = True
            rep.oblige(ok, "R18.3", f"builder:{b['name']}", F.loc(b["span"]), f"ValueBuilder::{b['name']} does not pass Some(config.value_size_limit) to the value constructor")


def check_limit_writers(fx, rep, rule="R18.3", limit_field="value_size_limit"):
    """The limit the builder reads is the field `value_size_limit` of the VM configuration. Who writes it: the struct literal
    of the default configuration and exactly one builder-style setter; setters of the configuration are injective (no two of
    them write the same field), so configuring another parameter can never change the limit."""
    CFG = "vm::Config"
    adt = fx.adt(CFG)
    if not rep.anchor(rule, adt is not None, "the VM configuration type"):
        return
    setters = {}
    for b in fx.fn_bodies():
        if b.get("impl_self") != CFG or not b.get("hir"):
            continue
        fn = fx.fns.get(b["def"], {})
        if (fn.get("output") or "") not in ("Self", CFG):
            continue
        written = []
        for n, _ in F.walk(b["hir"]["value"]):
            if n.get("k") in ("Assign", "AssignOp") and n["l"].get("k") == "Field" and F.local_of(F.strip(n["l"]["e"])) is not None:
                written.append(n["l"]["field"])
        if written:
            setters[b["def"]] = written
            rep.fn(b["def"])
    by_field = {}
    for fn_name, fields in setters.items():
        for f in fields:
            by_field.setdefault(f, []).append(fn_name.split("::")[-1])
    clash = {f: sorted(v) for f, v in by_field.items() if len(v) > 1}
    multi = {k.split("::")[-1]: v for k, v in setters.items() if len(set(v)) > 1}
    rep.oblige(
        not clash and not multi,
        rule,
        "config-setters-injective",
        F.loc(adt["span"]),
        f"configuration setters are not one-to-one with fields (several setters write {clash}; setters writing several fields {multi}): setting one parameter silently changes another — e.g. the value size limit",
        sample={"rule": rule, "setters": {k.split("::")[-1]: v for k, v in sorted(setters.items())}},
    )
    rep.oblige(limit_field in by_field, rule, "limit-has-setter", F.loc(adt["span"]), f"no builder-style setter writes `{limit_field}`: the limit cannot be configured")
    rep.floor(rule, len(setters), 3, "builder-style setters of the VM configuration")


def check_leaf_survives(fx, rep, rule):
    """Not a clause of C18 (a culled leaf respects the limit) but of what is built on constants surviving: C06's literal keys."""
    # a leaf (one node) survives the limit under every configuration that is accepted: either the limit has a floor of 1 where
    # it is set, or the cull leaves values without children alone. With a limit of 0 every pushed constant is replaced by an
    # opaque value - storage keys and jump targets included
    floor = False
    for b in fx.fn_bodies():
        if not b.get("hir"):
            continue
        if b.get("impl_self") == "vm::Config" and "value_size_limit" in (b.get("name") or ""):
            for n, _ in F.walk(b["hir"]["value"]):
                if n.get("k") == "MethodCall" and n["method"] in ("max", "clamp") and n["args"]:
                    a0 = T.term(n["args"][0], T.Env())
                    if a0[0] == "lit" and str(a0[1]).isdigit() and int(a0[1]) >= 1:
                        floor = True
        if F.strip_generics(b["def"]).startswith("vm::value::SymbolicValue::") and any("limit" in (p_.get("name") or "") for p_ in b["hir"]["params"]):
            for n, _ in F.walk(b["hir"]["value"]):
                if n.get("k") == "Binary" and n["op"] in ("Gt", "Ne", "Ge") and "child_size" in str(T.term(n["l"], T.Env())):
                    r_ = T.term(n["r"], T.Env())
                    if r_ == ("lit", "0") or (n["op"] == "Ge" and r_ == ("lit", "1")):
                        floor = True
                if n.get("k") == "MethodCall" and n["method"] in ("max", "clamp") and "limit" in str(T.term(n["recv"], T.Env())) and n["args"]:
                    a0 = T.term(n["args"][0], T.Env())
                    if a0[0] == "lit" and str(a0[1]).isdigit() and int(a0[1]) >= 1:
                        floor = True
    rep.oblige(
        floor,
        rule,
        "leaf-survives",
        "-",
        "nothing keeps a single-node value from being culled: with a value size limit of 0 (accepted as it is) every constant a PUSH produces is replaced by an opaque value, so constant storage keys and jump targets are lost",
        sample={"rule": rule, "limit_floor_or_leaf_exemption": floor},
    )


def check_r184(fx, rep):
    """In the limit-taking constructor: the comparison is `child_size(data)+1 > limit` and the substitute is a leaf."""
    found = 0
    for b in fx.fn_bodies():
        if not F.strip_generics(b["def"]).startswith("vm::value::SymbolicValue::"):
            continue
        hir = b["hir"]
        params = [p.get("name") for p in hir["params"]]
        if "value_size_limit" not in params and not any("limit" in (p or "") for p in params):
            continue
        structs = [n for n, _ in F.walk(hir["value"]) if n.get("k") == "Struct" and n.get("adt") == SV]
        if not structs:
            continue
        found += 1
        mutated = T.mutated_locals(hir["value"])
        cmps = []
        for n, ps in F.walk(hir["value"]):
            if n.get("k") == "Binary" and n["op"] in ("Gt", "Ge", "Lt", "Le"):
                env = T.env_at(ps, n, mutated)
                l, r = T.term(n["l"], env, mutated), T.term(n["r"], env, mutated)
                cmps.append((n, n["op"], l, r, ps))
        ok = False
        msg = "no comparison of the value's size with the limit found"
        for n, op, l, r, ps in cmps:
            def is_size(t):
                return t[0] == "bin" and t[1] == "Add" and ("lit", "1") in (t[2], t[3]) and any(x[0] == "call" and "child_size" in str(x[1]) for x in (t[2], t[3]))

            def is_limit(t):
                return t[0] == "local" or (t[0] == "field")

            if is_size(l) and op == "Gt" and is_limit(r):
                ok = True
            elif is_size(r) and op == "Lt" and is_limit(l):
                ok = True
            elif is_size(l) or is_size(r):
                msg = f"the size limit is compared with `{op}` ({T.short(l)} {op} {T.short(r)}): values of exactly limit+1 nodes are {'kept' if op in ('Ge',) else 'handled wrongly'}"
                if (is_size(l) and op == "Ge") or (is_size(r) and op == "Le"):
                    msg = "the cull comparison is `size >= limit`: a value of exactly `limit` nodes is culled although the limit permits it"
            if ok:
                # the then-branch must substitute a leaf
                iff = None
                for anc, key in reversed(ps):
                    if anc.get("k") == "If" and key == "cond":
                        iff = anc
                        break
                if iff is not None:
                    leafs = [c for c, _ in F.calls(iff["then"]) if (F.callee_def(c) or "").endswith("::new_value")]
                    if not leafs:
                        ok = False
                        msg = "an over-limit value is not replaced by a fresh opaque leaf"
                break
        rep.oblige(ok, "R18.4", f"cull:{b['def']}", F.loc(b["span"]), msg, sample={"rule": "R18.4", "fn": b["def"]})
    rep.floor("R18.4", found, 1, "value constructors taking a size limit")


def check(fx, rep, tier):
    cg = F.CallGraph(fx)
    size_fn = check_r181(fx, rep)
    check_r182(fx, rep, size_fn)
    check_r183(fx, rep, cg)
    check_limit_writers(fx, rep)
    check_r184(fx, rep)
    rep.exhaustive = True
    return rep.finish(
        "Def-use audit of every construction of SymbolicValue (size = child_size(stored data) + 1), three finite sibling tables "
        "over all variants of the expression enum (child_size / children / transformer, plus the runtime->type-checker conversion), "
        "call-graph audit of value constructor calls reachable from Opcode::execute (limit passed or leaf), and the normal form of the cull comparison.",
        "instances = constructions x 1, variants x sibling functions, constructor call sites on execution paths, cull comparisons; all enumerated from the enum definition and the call graph",
        ["fields of SymbolicValue are private, so no code outside its module can construct one (rustc privacy; pinned by a compile-fail witness in the thorough tier)"],
    )
