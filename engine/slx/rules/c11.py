"""C11 — a slot's reported type depends only on the code that touches that slot (channel-closure necessary conditions).

R11.1 no process-global channel : the crate defines no mutable / interior-mutable static, thread-local or lazily initialised
      global; the state types that outlive one value (type-checker state, per-target fork counters) hold no such type either.
R11.2 rules are local           : in every inference rule, the type variable / value that receives a judgement derives from the
      rule's `value` argument (the value itself, a node bound by destructuring it, a var_unchecked / type_var of such a node) or
      from allocate_ty_var; rules and lifting passes read no other value's evidence from the state.
R11.3 sharing is by structure   : the variants that are stably typed on their own are exactly Value, CallData and StorageSlot; the
      stable-type cache is keyed by the value; equality and hashing of values ignore exactly the instruction pointer and the
      provenance; every registration that is not served from that cache draws a fresh type variable.
R11.5 slot-number independence  : every function of the lifting passes / inference rules that reads the numeric value of a
      constant (conversion, byte view, comparison) is enumerated and compared with a reviewed table saying what that constant is
      (a shift, a mask, an offset, a size - never a slot number used as such).
R11.4 slot identity is the key  : the layout row's index is the constant under the StorageSlot and nothing else (= R05.1).
"""
from .. import facts as F
from .. import tables
from .. import srcattrs
from .. import terms as T

SVD = "vm::value::SymbolicValueData"
STATE = "tc::state::TypeCheckerState"
WRITERS = {"infer", "infer_for", "infer_many", "infer_for_many"}
ALLOWED_STATE_CALLS = WRITERS | {"var_unchecked", "var", "allocate_ty_var"}
BAD_GLOBAL = ("Cell<", "RefCell<", "Mutex<", "RwLock<", "Atomic", "OnceCell<", "OnceLock<", "LazyLock<", "LazyCell<", "UnsafeCell<", "Lazy<")


def check_r111(fx, rep):
    for s in fx.statics:
        bad = s.get("mut") or any(x in s["ty"] for x in BAD_GLOBAL)
        rep.oblige(not bad, "R11.1", f"static:{s['def']}", F.loc(s["span"]), f"`{s['def']}: {s['ty']}` is a mutable / interior-mutable global: evidence can leak between unrelated values and runs")
    rep.inst("R11.1", f"statics:{len(fx.statics)}", sample={"rule": "R11.1", "statics_in_crate": len(fx.statics)})
    rep.extra["statics"] = len(fx.statics)
    # thread_local! / lazy_static! leave LocalKey / Lazy typed items or calls
    n = 0
    for b in fx.fn_bodies(include_expansion=True):
        hir = b.get("hir")
        if not hir:
            continue
        for c, ps in F.calls(hir["value"]):
            cd = F.strip_generics(F.callee(c) or F.callee_def(c) or "")
            if "std::thread::LocalKey" in cd or "lazy_static" in cd or "once_cell" in cd or cd.startswith("std::sync::OnceLock") or cd.startswith("std::sync::LazyLock"):
                n += 1
                rep.oblige(False, "R11.1", f"global-access:{F.strip_generics(b['def'])}", F.loc(c["span"]), f"`{b['def']}` uses a thread-local / lazily initialised global (`{cd.split('::')[-1]}`)")
    # the long-lived state types own no interior mutability
    import re

    for root in (STATE, "vm::data::JumpTargets", "tc::TypeChecker"):
        seen = []
        stack = [root]
        while stack:
            a = stack.pop()
            if a in seen or a not in fx.adts:
                continue
            seen.append(a)
            for v in fx.adts[a]["variants"]:
                for f in v["fields"]:
                    ty = f["ty"]
                    bad = [x for x in BAD_GLOBAL if x in ty]
                    # the watchdog handle is an Rc<dyn Watchdog>: shared by design, carries no typing evidence
                    if bad and a == "tc::state::type_variable::TypeVariableSource" and "Arc<" in ty and bad == ["Atomic"]:
                        # reviewed exception (one symbol): the fresh-variable counter. It is a per-state counter as long as it is
                        # created afresh by the source's constructor, which is what is checked instead.
                        ctor = [b for b in fx.fn_bodies() if b.get("impl_self") == a and b.get("name") == "new"]
                        fresh = bool(ctor) and any((F.callee_def(c) or "").startswith("std::sync::Arc") and (F.callee_def(c) or "").endswith("::new") for c, _ in F.calls(ctor[0]["hir"]["value"]))
                        rep.oblige(fresh, "R11.1", f"state-field:{a}.{f['name']}", F.loc(fx.adts[a]["span"]), "the type-variable counter is not created afresh per type-checker state", sample={"rule": "R11.1", "exception": "TypeVariableSource counter: per-state Arc<AtomicUsize> created in new()"})
                        continue
                    rep.oblige(not bad, "R11.1", f"state-field:{a}.{f['name']}", F.loc(fx.adts[a]["span"]), f"`{a}::{f['name']}: {ty}` holds {bad}")
                    for other in fx.adts:
                        if re.search(r"(?<![A-Za-z0-9_:])" + re.escape(other) + r"(?![A-Za-z0-9_])", ty) and other.startswith(("tc::", "data::", "vm::data")):
                            stack.append(other)


def value_derived_locals(body):
    """Locals that denote the rule's `value` argument or nodes/variables obtained from it."""
    hir = body["hir"]
    params = hir["params"]
    val = None
    state = None
    for p in params:
        if p.get("p") == "Bind" and "SymbolicValue<" in (p.get("ty") or ""):
            val = p["local"]
        if p.get("p") == "Bind" and STATE in (p.get("ty") or ""):
            state = p["local"]
    derived = {val} if val is not None else set()
    fresh = set()
    changed = True
    root = hir["value"]
    while changed:
        changed = False

        def mentions(e):
            return any(m.get("k") == "Path" and m.get("res") == "local" and m["local"] in derived for m, _ in F.walk(e))

        def only_derived_or_fresh(e):
            locs = [m["local"] for m, _ in F.walk(e) if m.get("k") == "Path" and m.get("res") == "local"]
            return all(l in derived or l in fresh or l == state for l in locs)

        for n, ps in F.walk(root):
            # let PAT = <expr mentioning derived> ;  if let PAT = <..> ; match <..> { PAT => }
            pats = []
            if n.get("s") == "Let" and "init" in n:
                pats.append((n["pat"], n["init"]))
            if n.get("k") == "Let":
                pats.append((n["pat"], n["init"]))
            if n.get("k") == "Match":
                for a in n["arms"]:
                    pats.append((a["pat"], n["scrut"]))
            if n.get("k") == "Closure":
                # closure params iterate over derived collections: accept when the closure is an argument of a call on derived data
                pass
            for pat, init in pats:
                is_alloc = any((F.callee_def(c) or "").endswith("TypeCheckerState::allocate_ty_var") for c, _ in F.calls(init))
                if is_alloc:
                    for lid in F.pat_bindings(pat):
                        if lid not in fresh:
                            fresh.add(lid)
                            changed = True
                elif mentions(init) and only_derived_or_fresh(init):
                    for lid in F.pat_bindings(pat):
                        if lid not in derived:
                            derived.add(lid)
                            changed = True
        # for loops / closures over derived collections
        for n, ps in F.walk(root):
            if n.get("k") == "Closure":
                # find the call this closure is an argument of
                for anc, key in reversed(ps):
                    if anc.get("k") in ("MethodCall", "Call"):
                        recv_ok = mentions(anc.get("recv", {})) if anc.get("k") == "MethodCall" else any(mentions(a) for a in anc["args"] if a is not n)
                        if recv_ok:
                            for p in n["params"]:
                                for lid in F.pat_bindings(p):
                                    if lid not in derived:
                                        derived.add(lid)
                                        changed = True
                        break
            if n.get("k") == "Match" and "ForLoop" in n.get("source", ""):
                sc = n["scrut"]
                it = sc["args"][0] if sc.get("k") == "Call" and sc["args"] else sc
                if mentions(it):
                    for m, _ in F.walk(n):
                        if m.get("k") == "Match" and "ForLoop" in m.get("source", "") and m is not n:
                            for a in m["arms"]:
                                for lid in F.pat_bindings(a["pat"]):
                                    if lid not in derived:
                                        derived.add(lid)
                                        changed = True
    return val, state, derived, fresh


def check_r112(fx, rep):
    rules = fx.trait_method_bodies("tc::rule::InferenceRule", "infer")
    rep.floor("R11.2", len(rules), 15, "inference rules")
    n_calls = 0
    for i, b in rules:
        rep.fn(b["def"])
        val, state, derived, fresh = value_derived_locals(b)
        if val is None or state is None:
            rep.oblige(False, "R11.2", f"rule-signature:{i.get('self_adt')}", F.loc(b["span"]), "inference rule without the (value, state) parameters (unrecognised)")
            continue
        root = b["hir"]["value"]
        ordinal = 0
        for c, ps in F.calls(root):
            if c.get("k") != "MethodCall" or STATE not in (c.get("recv_ty") or ""):
                continue
            m = c["method"]
            if m not in ALLOWED_STATE_CALLS:
                rep.oblige(
                    False,
                    "R11.2",
                    f"rule-reads-state:{i.get('self_adt')}:{m}",
                    F.loc(c["span"]),
                    f"rule `{i.get('self_adt')}` calls `TypeCheckerState::{m}`: rules may only add judgements (infer*), look up the variable of a node of their own value (var*), or allocate a fresh variable — reading other evidence makes a slot's type depend on unrelated code and on rule order",
                )
                continue
            if m in WRITERS:
                n_calls += 1
                ordinal += 1
                target = c["args"][0]
                locs = [x["local"] for x, _ in F.walk(target) if x.get("k") == "Path" and x.get("res") == "local"]
                ok = bool(locs) and all(l in derived or l in fresh for l in locs)
                rep.oblige(
                    ok,
                    "R11.2",
                    f"judgement-target:{i.get('self_adt')}#{ordinal}",
                    F.loc(c["span"]),
                    f"rule `{i.get('self_adt')}` adds a judgement for `{T.short(T.term(target, T.Env()))[:50]}`, which does not derive from the value the rule was given (nor from a fresh variable)",
                    sample={"rule": "R11.2", "inference_rule": i.get("self_adt"), "target": T.short(T.term(target, T.Env()))[:40]} if n_calls <= 6 else None,
                )
    rep.extra["judgement_sites"] = n_calls
    # lifting passes do not read the state at all
    for i, b in fx.trait_method_bodies("tc::lift::Lift", "run"):
        names = [b["def"]] + [k for k in fx.bodies if k.startswith(b["def"] + "::")]
        for nm in names:
            bb = fx.body(nm)
            if not bb or "hir" not in bb:
                continue
            for c, ps in F.calls(bb["hir"]["value"]):
                if c.get("k") == "MethodCall" and STATE in (c.get("recv_ty") or ""):
                    rep.oblige(False, "R11.2", f"lift-reads-state:{i.get('self_adt')}:{c['method']}", F.loc(c["span"]), f"lifting pass `{i.get('self_adt')}` consults the type-checker state (`{c['method']}`): lifting a value would depend on other values")
        rep.inst("R11.2", f"lift:{i.get('self_adt')}", nontrivial=False)


def check_r113(fx, rep):
    ist = None
    reg = None
    for b in fx.fn_bodies():
        if b.get("impl_self") == STATE and b.get("name") == "is_stable_typed":
            ist = b
        if b.get("impl_self") == STATE and b.get("name") == "register_internal":
            reg = b
    if ist is None:
        # semantic fallback: bool function over a runtime value that matches on its data and recurses into children
        for b in fx.fn_bodies():
            if b.get("impl_self") == STATE and fx.fns.get(b["def"], {}).get("output") == "bool":
                ist = b
    if rep.anchor("R11.3", ist is not None, "the stable-typing predicate of the type-checker state"):
        direct = set()
        other_true = False
        for m, ps in F.exprs(ist["hir"]["value"], "Match"):
            for a in m["arms"]:
                pv = F.pat_variants(a["pat"])
                t = T.term(a["body"], T.Env())
                if pv and all(x == SVD for x, _ in pv):
                    if t in (("lit", True), ("lit", "true")):
                        direct |= {v for _, v in pv}
                elif pv is None and t in (("lit", True), ("lit", "true")):
                    other_true = True
        want = {"Value", "CallData", "StorageSlot"}
        rep.oblige(
            direct == want and not other_true,
            "R11.3",
            "stable-variants",
            F.loc(ist["span"]),
            f"values that share one type variable by structure are those containing {sorted(direct)}{' (and everything else)' if other_true else ''}; the identity-bearing kinds are exactly {sorted(want)} — anything more makes unrelated occurrences (e.g. equal constants) share evidence",
            sample={"rule": "R11.3", "stable_on_their_own": sorted(direct)},
        )
        # of those, a storage slot IS a slot and a `Value` carries a unique id; any other kind that shares one type variable
        # between all its structurally equal occurrences joins the evidence of every slot those occurrences flow into
        for v in sorted(direct - {"StorageSlot", "Value"}):
            rep.oblige(
                False,
                "R11.3",
                f"evidence-shared-across-slots:{v}",
                F.loc(ist["span"]),
                f"every occurrence of a structurally equal `{v}` node shares one type variable: evidence that code touching only slot B puts on such a word (a mask, a comparison) reaches slot A when the same word is stored there, so adding code for B changes A's entry",
                sample={"rule": "R11.3", "kind": v},
            )
    if rep.anchor("R11.3", reg is not None, "the registration function of the type-checker state"):
        root = reg["hir"]["value"]
        mutated = T.mutated_locals(root)
        params = [p for p in reg["hir"]["params"] if p.get("p") == "Bind"]
        vparam = next((p["local"] for p in params if "SymbolicValue<" in (p.get("ty") or "")), None)
        # cache lookups / inserts are keyed by the value parameter
        cache_ok = True
        n_cache = 0
        for c, ps in F.calls(root):
            if c.get("k") == "MethodCall" and c["method"] in ("get", "insert", "entry", "contains_key"):
                r = F.strip(c["recv"])
                if r.get("k") == "Field" and r.get("adt") == STATE and "RuntimeBoxedVal" not in "" and "stable" in r["field"]:
                    n_cache += 1
                    if F.local_of(c["args"][0]) != vparam:
                        cache_ok = False
        rep.oblige(cache_ok and n_cache >= 2, "R11.3", "cache-keyed-by-value", F.loc(reg["span"]), "the stable-type cache is not looked up and filled with the value itself as the key")
        # the cache is consulted / filled only when the value is stably typed
        guarded = True
        for c, ps in F.calls(root):
            if c.get("k") == "MethodCall" and c["method"] in ("get", "insert"):
                r = F.strip(c["recv"])
                if r.get("k") == "Field" and r.get("adt") == STATE and "stable" in r["field"]:
                    conds = [T.term(a["cond"], T.env_at(ps, a, mutated), mutated) for a, key in ps if a.get("k") == "If" and key == "then"]
                    if not any("is_stable_typed" in str(ct) for ct in conds):
                        guarded = False
        rep.oblige(guarded, "R11.3", "cache-only-for-stable", F.loc(reg["span"]), "the structural sharing cache is used for values that are not stably typed (e.g. bare constants): unrelated occurrences would share a type variable")
        # a fresh variable on every non-cached path
        fresh = [c for c, ps in F.calls(root) if (F.callee_def(c) or "").endswith("TypeVariableSource::fresh")]
        fresh_uncond = [c for c, ps in F.calls(root) if (F.callee_def(c) or "").endswith("TypeVariableSource::fresh") and not any(a.get("k") in ("If", "Match") and not a.get("exp") for a, _ in ps)]
        rep.oblige(len(fresh) == 1 and len(fresh_uncond) == 1, "R11.3", "fresh-var-per-registration", F.loc(reg["span"]), "a registration that is not served from the stable-type cache does not always draw a fresh type variable", sample={"rule": "R11.3", "fresh_calls": len(fresh)})
    # equality / hash of values ignore exactly ip and provenance
    sv = fx.adt("vm::value::SymbolicValue")
    if rep.anchor("R11.3", sv is not None, "SymbolicValue"):
        outer, members = srcattrs.item_attrs(sv["span"])
        ignored = {k for k, attrs in members.items() if any("derivative" in a and "ignore" in a for a in attrs)}
        both = all(all(("PartialEq" in a and "Hash" in a) for a in attrs if "derivative" in a and "ignore" in a) for k, attrs in members.items() if k in ignored)
        manual = [i for i in fx.impls if i.get("self_adt") == "vm::value::SymbolicValue" and i.get("trait") in ("std::cmp::PartialEq", "std::hash::Hash") and not i.get("from_expansion")]
        rep.oblige(
            ignored == {"instruction_pointer", "provenance"} and both and not manual,
            "R11.3",
            "identity-is-structural",
            F.loc(sv["span"]),
            f"equality/hash of symbolic values ignore {sorted(ignored)} (hand-written impls: {len(manual)}); identity must be purely structural, ignoring exactly the instruction pointer and the provenance",
            sample={"rule": "R11.3", "ignored_by_eq_and_hash": sorted(ignored)},
        )
    svd = fx.adt(SVD)
    if svd is not None:
        manual = [i for i in fx.impls if i.get("self_adt") == SVD and i.get("trait") in ("std::cmp::PartialEq", "std::hash::Hash") and not i.get("from_expansion")]
        rep.oblige(not manual, "R11.3", "data-eq-derived", F.loc(svd["span"]), "the expression enum has a hand-written equality/hash")


def constant_readers(fx, in_scope):
    """function -> sorted, comma-joined set of ways it reads the numeric value of a constant (conversion to a native integer,
    byte / bit view, comparison), for the functions selected by in_scope(def_path)."""
    KW = "vm::value::known::KnownWord"
    found = {}
    for b in fx.fn_bodies():
        if not b.get("hir") or not in_scope(b["def"]):
            continue
        readers = set()
        for c, ps in F.calls(b["hir"]["value"]):
            name = F.strip_generics(F.callee(c) or F.callee_def(c) or "")
            argtys = [(a.get("ty") or "") for a in F.call_args(c)]
            if not any(KW in t or "ethnum::U256" in t or "ethnum::I256" in t for t in argtys):
                continue
            last = name.split("::")[-1]
            reader = name.startswith(KW + "::") or name.startswith("ethnum::") or name.startswith("vm::value::known::from") or ("KnownWord as std::convert::Into<" in name) or ("as std::convert::From<" in name and "KnownWord" in name) or ("TryFrom<" in name)
            if not reader or last in ("clone", "from_le", "from_be_bytes", "zero", "new", "fmt", "hash", "eq", "ne"):
                continue
            rt = c.get("ty") or ""
            readers.add(last + ("->" + rt if rt in ("usize", "u32", "u64", "u8", "bool") else ""))
        for n, ps in F.walk(b["hir"]["value"]):
            if n.get("k") == "Binary" and n["op"] in ("Eq", "Ne", "Lt", "Le", "Gt", "Ge") and any(KW in (n[x].get("ty") or "") or "ethnum::U256" in (n[x].get("ty") or "") for x in ("l", "r")):
                readers.add("compare")
        if readers:
            found[b["def"]] = ",".join(sorted(readers))
    return found


def check(fx, rep, tier):
    check_r111(fx, rep)
    check_r112(fx, rep)
    check_r113(fx, rep)
    # R11.4 = R05.1
    from .c05 import pattern_variants_deep

    adds = 0
    for b in fx.fn_bodies():
        hir = b.get("hir")
        if not hir or b.get("from_expansion"):
            continue
        for n, ps in F.calls(hir["value"]):
            if F.strip_generics(F.callee_def(n) or "") == "layout::StorageLayout::add":
                adds += 1
                idx_local = F.local_of(n["args"][0])
                ok = False
                for s, _ in F.walk(hir["value"]):
                    if s.get("s") == "Let" and "init" in s and idx_local in F.pat_bindings(s["pat"]) and pattern_variants_deep(s["pat"]) == {"KnownData"}:
                        ok = True
                rep.oblige(ok, "R11.4", f"row-index:{F.strip_generics(b['def'])}", F.loc(n["span"]), "the layout row index is not the constant under the StorageSlot: slot identity would depend on something positional", sample={"rule": "R11.4", "index": "KnownData under StorageSlot"})
    rep.floor("R11.4", adds, 1, "calls of StorageLayout::add")
    # ---------------------------------------------------------------- R11.5 slot-number independence
    rows5 = tables.Keyed("const_inspections.tsv", fx)
    found5 = constant_readers(fx, lambda d: "tc::lift" in d or "tc::rule" in d)
    rep.floor("R11.5", len(found5), 8, "lifting-pass / inference-rule functions that read the numeric value of a constant")
    for name, readers in sorted(found5.items()):
        row = rows5.get(name)
        rep.fn(name)
        def _norm(rs):
            # `usize::from(w)` and `w.into()` are one conversion, spelt from either side
            return sorted({r.replace("try_into->", "try_from->").replace("into->", "from->") for r in rs.split(",") if r})

        ok = row is not None and _norm(row[1]) == _norm(readers)
        rep.oblige(
            ok,
            "R11.5",
            f"constant-inspection:{name}",
            F.loc(fx.body(name)["span"]),
            (f"`{name}` reads the numeric value of a constant ({readers}) and has no reviewed row in tables/const_inspections.tsv" if row is None else f"`{name}` now inspects constants through {{{readers}}} (reviewed: {{{row[1]}}})")
            + ": a lifting pass or rule that tests the magnitude of a constant can make a slot's type depend on its number; review what the constant is",
            sample={"rule": "R11.5", "fn": name, "readers": readers, "reviewed_as": row[2][:80] if row else None},
        )

    for name, readers in sorted(found5.items()):
        row = rows5.get(name)
        if row is not None and len(row) > 3 and row[3].strip() == "slot-dependent":
            rep.oblige(
                False,
                "R11.5",
                f"slot-dependent:{name}",
                F.loc(fx.body(name)["span"]),
                f"`{name}` inspects a constant that can be (or contain) a slot number: {row[2][:200]}",
            )
    # the per-target fork budget is one table for the whole machine: code of unrelated fragments that forks to a shared target
    # uses up the budget of the others (a global limit is a channel between fragments)
    fork_tables = {b.get("impl_self") for b in fx.fn_bodies() if b.get("name") == "fork_to" and b.get("impl_self")}
    for ft in sorted(fork_tables):
        holders = []
        for an, adt in fx.adts.items():
            for v in adt.get("variants", []):
                for f in v["fields"]:
                    if ft in f["ty"]:
                        holders.append((an, f["name"]))
        global_holders = [h for h in holders if h[0] == "vm::VM"]
        rep.oblige(
            not global_holders,
            "R11.1",
            "global-fork-budget",
            F.loc(fx.adts["vm::VM"]["span"]) if "vm::VM" in fx.adts else "-",
            f"the fork budget per jump target (`{ft}`) is held by the machine ({global_holders}) and shared by every thread of the program: forks made by one fragment to a shared target count against every other fragment, so adding code that never touches a slot can remove that slot's entry",
            sample={"rule": "R11.1", "fork_table": ft, "held_by": holders},
        )

    # a table of hash pre-images built from a bounded range of slot numbers makes recognition depend on the slot number
    n_tab = 0
    cg5 = F.CallGraph(fx)
    for b in fx.fn_bodies():
        if not b.get("hir") or "tc::lift" not in b["def"]:
            continue
        root5 = b["hir"]["value"]
        for m, mps in F.exprs(root5, "Match"):
            if "ForLoop" not in m.get("source", ""):
                continue
            names = [F.strip_generics(F.callee(c) or F.callee_def(c) or "") for c, _ in F.calls(m)]
            hashes = any("Keccak" in x or x.endswith("::finalize") or "sha3" in x.lower() for x in names)
            inserts = any(c.get("k") == "MethodCall" and c["method"] == "insert" and "Map<" in (c.get("recv_ty") or "") for c, _ in F.calls(m))
            rng = [x for x, _ in F.walk(m["scrut"]) if x.get("k") == "Struct" and "ops::Range" in str(x.get("adt"))]
            if not (hashes and inserts and rng):
                continue
            n_tab += 1
            end = next((f["e"] for f in rng[0]["fields"] if f["field"] == "end"), None)
            bound = None
            et = T.term(end, T.Env()) if end is not None else None
            if et is not None and et[0] == "path":
                bound = fx.const_value(et[1])
            if et is not None and et[0] == "local":
                # a parameter: look at what the crate's callers pass
                pidx = next((i for i, p in enumerate(b["hir"]["params"]) if p.get("local") == et[1]), None)
                for cb in fx.fn_bodies():
                    if not cb.get("hir"):
                        continue
                    for c, _ in F.calls(cb["hir"]["value"]):
                        if b["def"] in cg5.resolve_local(c) and pidx is not None and pidx < len(F.call_args(c)):
                            at = T.term(F.call_args(c)[pidx], T.Env())
                            if at[0] == "path" and fx.const_value(at[1]) is not None:
                                bound = fx.const_value(at[1])
                            if at[0] == "lit":
                                try:
                                    bound = int(at[1])
                                except (TypeError, ValueError):
                                    pass
            rep.oblige(
                False,
                "R11.5",
                f"finite-hash-table:{bound if bound is not None else '?'}",
                F.loc(m["span"]),
                f"`{b['def']}` builds the table that recognises `keccak(slot number)` constants from the slot numbers 0..{bound if bound is not None else '?'} only: an array whose slot is renumbered beyond that bound is no longer recognised, so its type depends on its slot number",
                sample={"rule": "R11.5", "fn": b["def"], "slot_numbers_recognised_below": bound},
            )
    rep.extra["hash_preimage_tables"] = n_tab

    # the only VM-wide piece of mutable state that outlives a thread is the request to kill the current one: it must be cleared
    # at every retirement, or it reaches into the next queued thread - code of an unrelated fragment (C08 R08.3, re-evaluated)
    from .. import core as _core

    _core.import_rules(rep, fx, "C08", "R11.1", only_rules=("R08.3",), floor=5, what="thread-retirement obligations (C08 R08.3) behind 'no channel between threads'")
    # the visit / fork counters are per instruction offset: offsets of unrelated fragments never share one (shared with C03)
    from .c03 import check_counter_keys

    check_counter_keys(fx, rep, "R11.1")
    # a hash belongs to the mapping of ITS slot word only: the mapping lifter accepts exactly keccak(key ++ slot) (shared with C05)
    from .c05 import check_mapping_shape

    check_mapping_shape(fx, rep, "R11.5")
    # the gas a fragment has used when it starts depends on how much other code the dispatcher put in front of it; that is
    # harmless only while running out of gas is an error of the whole analysis, never a silently shorter path (C17 R17.6)
    _core.import_rules(rep, fx, "C17", "R11.1", only_rules=("R17.6",), floor=2, what="gas-exhaustion obligations (C17 R17.6) behind 'other code cannot silently truncate a fragment'", key_filter=lambda k: "gas-" in k)
    # evidence of an earlier run must not take part in the next one (shared with C05 R05.7)
    from .c05 import check_fresh_run

    check_fresh_run(fx, rep, "R11.1")
    return rep.finish(
        "Channel-closure audit: no mutable or lazily initialised global in the crate; every judgement an inference rule adds targets a variable derived from the rule's own value (or a fresh one) and rules / lifting passes "
        "read no other evidence; structural sharing is limited to values containing Value / CallData / StorageSlot, keyed by the value, with equality ignoring exactly ip and provenance and a fresh variable otherwise; "
        "row identity is the key constant.",
        "instances = statics, state field types, judgement sites of all inference rules, state calls in rules and passes, clauses of the registration function; enumerated over the crate",
        ["the relational statements (union of layouts of independent fragments, renumbering) are NOT decided; effects of the global fork budget and of value-dependent passes (hash recognition, ASCII proxy-slot heuristics) under renumbering are not decided"],
    )
