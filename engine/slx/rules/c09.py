"""C09 — constant folding preserves meaning.

R09.1 rebuild identity   : in every arm of the folding function, a rebuilt (non-constant) node is the
                           same variant with each child in the same field.
R09.2 folded operation   : the constant computed in each arm is the oracle's operation on the oracle's
                           operands in the oracle's order (tables/fold_ops.tsv).
R09.3 word arithmetic    : every known-word operation is total (no panicking primitive, divisor / shift
                           guards present), exact (no narrowing of an operand) and is the oracle's
                           primitive with the oracle's signedness and operand order (tables/word_ops.tsv).
R09.4 bottom-up          : in every arm the operands consulted with as_word(), and the children of the rebuilt
                           node, have been passed through the recursive fold first (so constant sub-expressions are
                           folded before their parent and a second fold changes nothing).
"""
from .. import facts as F
from .. import tables
from .. import terms as T

SVD = "vm::value::SymbolicValueData"
KW = "vm::value::known::KnownWord"

BIN2OP = {
    "Add": "add",
    "Sub": "sub",
    "Mul": "mul",
    "Div": "div",
    "Rem": "rem",
    "BitAnd": "bitand",
    "BitOr": "bitor",
    "BitXor": "bitxor",
    "Shl": "shl",
    "Shr": "shr",
}
METHOD_OPS = {"signed_div", "signed_rem", "exp", "lt", "gt", "signed_lt", "signed_gt", "eq", "is_zero", "sar"}
TRAIT_OPS = {
    "std::ops::Add": "add",
    "std::ops::Sub": "sub",
    "std::ops::Mul": "mul",
    "std::ops::Div": "div",
    "std::ops::Rem": "rem",
    "std::ops::BitAnd": "bitand",
    "std::ops::BitOr": "bitor",
    "std::ops::BitXor": "bitxor",
    "std::ops::Not": "not",
    "std::ops::Shl": "shl",
    "std::ops::Shr": "shr",
}
DUAL = {"lt": "gt", "gt": "lt", "signed_lt": "signed_gt", "signed_gt": "signed_lt"}


CHILD_FIELDS = {}


def origin(t):
    """Field of the matched node a term derives from, looking through the transformer / clone."""
    while isinstance(t, tuple):
        if t[0] == "fld":
            return t[1]
        if t[0] == "call" and isinstance(t[1], str) and t[2]:
            name = t[1]
            if any(s in name for s in ("::transform_data", "::constant_fold", "::clone")):
                t = t[2][0]
                continue
            return None
        return None
    return None


def folded(t):
    """Does the term pass through the recursive fold (transform_data / constant_fold) on its way from the matched field?"""
    while isinstance(t, tuple):
        if t[0] == "call" and isinstance(t[1], str) and t[2]:
            name = t[1]
            if "::transform_data" in name or "::constant_fold" in name:
                return True
            if "::clone" in name:
                t = t[2][0]
                continue
        return False
    return False


def word_origin(t):
    if isinstance(t, tuple) and t[0] == "word":
        return t[1]
    return None


def op_of(t):
    """Normalise the argument of new_known(...) to (op, [operand fields])."""
    if not isinstance(t, tuple):
        return None
    if t[0] == "bin" and t[1] in BIN2OP:
        return BIN2OP[t[1]], [word_origin(t[2]), word_origin(t[3])]
    if t[0] == "un" and t[1] == "Not":
        return "not", [word_origin(t[2])]
    if t[0] == "call" and isinstance(t[1], str):
        name = t[1]
        last = name.split("::")[-1]
        if KW in name and last in METHOD_OPS:
            return last, [word_origin(a) for a in t[2]]
        for tr, op in TRAIT_OPS.items():
            if name.startswith(f"<{KW} as {tr}"):
                return op, [word_origin(a) for a in t[2]]
        # KnownWord::from(a == b)
        if name.startswith(f"<{KW} as std::convert::From<bool>>::from") and t[2]:
            inner = t[2][0]
            if inner[0] == "bin" and inner[1] == "Eq":
                return "eq", [word_origin(inner[2]), word_origin(inner[3])]
            if inner[0] == "bin" and inner[1] in ("Lt", "Gt"):
                return inner[1].lower(), [word_origin(inner[2]), word_origin(inner[3])]
    return None


def find_folders(fx):
    """The folding function(s): bodies with a match over SymbolicValueData whose arms consult
    `as_word` and build KnownData."""
    out = []
    for b in fx.fn_bodies():
        hir = b.get("hir")
        if not hir:
            continue
        for m, ps in F.exprs(hir["value"], "Match"):
            arms = m["arms"]
            n_svd = sum(1 for a in arms if (F.pat_variants(a["pat"]) or set()) and all(x[0] == SVD for x in F.pat_variants(a["pat"])))
            if n_svd < 5:
                continue
            uses_as_word = any(
                (F.callee_def(c) or "").endswith("::as_word") for a in arms for c, _ in F.calls(a["body"])
            )
            if uses_as_word:
                out.append((b, m))
    return out


def analyse_arm(fx, rep, b, arm, oracle):
    pv = F.pat_variants(arm["pat"])
    if not pv or len(pv) != 1:
        return
    (adt, V) = next(iter(pv))
    where = F.loc(arm["span"])
    env = T.Env()
    for lid, (name, path) in F.pat_bindings(arm["pat"]).items():
        if path:
            env.map[lid] = ("fld", path[-1][1])
    variant_fields = [f["name"] for f in fx.variant(SVD, V)["fields"]]

    rebuilt = []  # (variant, {field: origin}, where)
    rebuilt_folded = []  # ({field: bool}, where)
    inspected = []  # (field, folded?, where): operands consulted with as_word()
    folds = []  # (op, fields, where)
    problems = []

    def visit(e, env):
        k = e.get("k")
        if k == "Block":
            env2 = env.child()
            for s in e["block"]["stmts"]:
                if s.get("s") == "Let":
                    if "init" in s:
                        visit(s["init"], env2)
                        T.bind_pattern(s["pat"], T.term(s["init"], env2), env2)
                    if "els" in s:
                        visit({"k": "Block", "block": s["els"]}, env2)
                elif s.get("s") == "Expr":
                    visit(s["e"], env2)
            if "expr" in e["block"]:
                visit(e["block"]["expr"], env2)
            return
        if k == "Match":
            scr = T.term(e["scrut"], env)
            elems = list(scr[1]) if scr[0] == "tuple" else [scr]
            srcs = []
            for el in elems:
                if el[0] == "call" and isinstance(el[1], str) and el[1].endswith("::as_word") or (
                    el[0] == "call" and isinstance(el[1], str) and "::as_word" in el[1]
                ):
                    srcs.append(origin(el[2][0]))
                    inspected.append((origin(el[2][0]), folded(el[2][0]), F.loc(e.get("span") or e["scrut"].get("span") or "-")))
                else:
                    srcs.append(None)
            visit(e["scrut"], env)
            for a in e["arms"]:
                env2 = env.child()
                p = a["pat"]
                subs = p["pats"] if p.get("p") == "Tuple" else [p]
                if len(subs) == len(srcs):
                    for sp, src in zip(subs, srcs):
                        if sp.get("p") == "TupleStruct" and sp.get("variant") == "Some" and len(sp["pats"]) == 1:
                            inner = sp["pats"][0]
                            if inner.get("p") == "Bind":
                                env2.map[inner["local"]] = ("word", src) if src else ("local", inner["local"], inner["name"])
                if "guard" in a:
                    visit(a["guard"], env2)
                visit(a["body"], env2)
            return
        if k == "If" and e["cond"].get("k") == "Let":
            # `if let (Some(a), Some(b)) = (x.as_word(), y.as_word())`
            let = e["cond"]
            fake = {"k": "Match", "span": e.get("span"), "scrut": let["init"], "arms": [{"pat": let["pat"], "body": e["then"]}]}
            visit(fake, env)
            if "else" in e:
                visit(e["else"], env)
            return
        if k == "Struct" and e.get("adt") == SVD:
            W = e.get("variant")
            fields = {f["field"]: T.term(f["e"], env) for f in e["fields"]}
            if W == "KnownData":
                folds.append((fields.get("value"), F.loc(e["span"])))
            else:
                rebuilt.append((W, {f: origin(t) for f, t in fields.items()}, F.loc(e["span"])))
                rebuilt_folded.append(({f: folded(t) for f, t in fields.items()}, F.loc(e["span"])))
        if k in ("Call", "MethodCall"):
            cd = F.callee_def(e) or ""
            if cd.endswith("SymbolicValueData::<AuxData>::new_known") and F.call_args(e):
                folds.append((T.term(F.call_args(e)[0], env), F.loc(e["span"])))
        if k == "Closure":
            visit(e["body"], env)
            return
        for key, c in F.children(e):
            if "k" in c:
                visit(c, env)
            elif key in ("fields",):
                if "e" in c:
                    visit(c["e"], env)
            elif key == "arms":
                pass

    visit(arm["body"], env)

    # R09.1 ---------------------------------------------------------------------------------
    for W, fo, w in rebuilt:
        ok = W == V and all(fo.get(f) == f for f in variant_fields) and set(fo) == set(variant_fields)
        msg = ""
        if W != V:
            msg = f"arm for `{V}` rebuilds a `{W}` node when an operand is not constant"
        elif not ok:
            bad = {f: o for f, o in fo.items() if o != f}
            msg = f"arm for `{V}` rebuilds the node with children in the wrong fields: {bad}"
        rep.oblige(ok, "R09.1", f"rebuild:{V}", w, msg, sample={"rule": "R09.1", "arm": V, "rebuilt": W, "fields": fo, "at": w})
    if not rebuilt:
        rep.oblige(False, "R09.1", f"rebuild:{V}", where, f"arm for `{V}` has no recognisable rebuild of the same operator (unrecognised fold idiom)")

    # R09.4 bottom-up: the operands consulted for constness, and the children of a rebuilt node, are the *folded* children
    unf = sorted({f for f, fo, w in inspected if f is not None and not fo})
    rep.oblige(
        not unf,
        "R09.4",
        f"bottom-up:{V}",
        where,
        f"arm for `{V}` tests operand(s) {unf} for constness before folding them: a constant sub-expression below this node is not folded into it (folding is no longer bottom-up / idempotent)",
        sample={"rule": "R09.4", "arm": V, "operands_consulted": sorted({f for f, _, _ in inspected if f}), "folded_first": not unf},
    )
    for fo, w in rebuilt_folded:
        raw = sorted(f for f in variant_fields if f in fo and not fo[f] and f in CHILD_FIELDS.get(V, variant_fields))
        rep.oblige(not raw, "R09.4", f"rebuild-folded:{V}", w, f"arm for `{V}` rebuilds the node with unfolded child(ren) {raw}: constant sub-expressions below it stay unfolded")

    # R09.2 ---------------------------------------------------------------------------------
    want = oracle.get(V)
    if want is None:
        rep.oblige(False, "R09.2", f"fold:{V}", where, f"`{V}` is folded but has no row in the oracle tables/fold_ops.tsv")
        return
    wop, wa, wb, comm = want
    if not folds:
        rep.oblige(False, "R09.2", f"fold:{V}", where, f"arm for `{V}` never produces a constant (unrecognised fold idiom)")
    for t, w in folds:
        got = op_of(t)
        ok = False
        if got:
            op, fs = got
            exp_fields = [wa] if wb == "-" else [wa, wb]
            if op == wop and fs == exp_fields:
                ok = True
            elif op == wop and comm and sorted(x or "" for x in fs) == sorted(exp_fields):
                ok = True
            elif DUAL.get(op) == wop and fs == list(reversed(exp_fields)):
                ok = True
        rep.oblige(
            ok,
            "R09.2",
            f"fold:{V}",
            w,
            f"arm for `{V}` folds to `{T.short(t)}`; the EVM operation is {wop}({wa}{'' if wb=='-' else ', '+wb})",
            sample={"rule": "R09.2", "arm": V, "folded": T.short(t), "oracle": f"{wop}({wa},{wb})", "at": w},
        )


# ------------------------------------------------------------------------------------------------
# R09.3

NARROW = ("as_u8", "as_u16", "as_u32", "as_u64", "as_u128", "as_usize", "as_i8", "as_i16", "as_i32", "as_i64", "as_i128", "as_isize")
PANICKY_ETHNUM = ("::pow", "::checked_", "::div_euclid", "::rem_euclid", "::abs", "::unwrap", "::expect")


def is_ethnum_ty(t):
    return t is not None and ("ethnum::U256" in t or "ethnum::I256" in t or t.endswith(KW))


def word_op_bodies(fx):
    out = {}
    for b in fx.fn_bodies():
        if b.get("impl_self") != KW:
            continue
        tr = b.get("impl_trait")
        name = b.get("name")
        if tr in TRAIT_OPS and name == TRAIT_OPS[tr].replace("bit", "bit") or (tr in TRAIT_OPS and name in ("add", "sub", "mul", "div", "rem", "bitand", "bitor", "bitxor", "not", "shl", "shr")):
            out[TRAIT_OPS[tr]] = b
        elif tr is None and name in METHOD_OPS:
            out[name] = b
    return out


def guards_of(ps):
    """List of (cond_expr, branch) for enclosing ifs: branch is 'then' or 'else'."""
    out = []
    for n, k in ps:
        if n.get("k") == "If" and k in ("then", "else"):
            out.append((n["cond"], k))
    return out


def mentions_local(e, name):
    for n, _ in F.walk(e):
        if n.get("k") == "Path" and n.get("res") == "local" and n.get("name") == name:
            return True
    return False


def derived_from(e, env_names, names):
    """Does expression e mention a local whose value derives from one of `names`?"""
    for n, _ in F.walk(e):
        if n.get("k") == "Path" and n.get("res") == "local":
            if n.get("name") in names or env_names.get(n["local"], set()) & names:
                return True
    return False


NATIVE_INTS = {"u8", "u16", "u32", "u64", "u128", "usize", "i8", "i16", "i32", "i64", "i128", "isize"}


def check_word_ops(fx, rep):
    rows = {r[0]: r[1:] for r in tables.read("word_ops.tsv")}
    bodies = word_op_bodies(fx)
    rep.floor("R09.3", len(bodies), len(rows), "known-word operations (add..sar)")
    for op, (kind, signed, guard, order) in sorted(rows.items()):
        b = bodies.get(op)
        if b is None:
            rep.violation("R09.3", f"wordop:{op}", "-", f"known-word operation `{op}` not found (anchor lost)")
            continue
        rep.fn(b["def"])
        where = F.loc(b["span"])
        hir = b["hir"]
        params = [p.get("name") for p in hir["params"] if p.get("p") == "Bind"]
        self_n = params[0] if params else "self"
        rhs_n = params[1] if len(params) > 1 else None
        # which locals derive from self / rhs (one level of let)
        deriv = {}
        for n, ps in F.walk(hir["value"]):
            if n.get("s") == "Let" and "init" in n and n["pat"].get("p") == "Bind":
                srcs = set()
                for m, _ in F.walk(n["init"]):
                    if m.get("k") == "Path" and m.get("res") == "local":
                        srcs.add(m.get("name"))
                        srcs |= deriv.get(m["local"], set())
                deriv[n["pat"]["local"]] = srcs

        def roots(e):
            s = set()
            for m, _ in F.walk(e):
                if m.get("k") == "Path" and m.get("res") == "local":
                    s.add(m.get("name"))
                    s |= deriv.get(m["local"], set())
            return s

        self_guarded = set()
        prim_sites = []  # (primname, left_roots, right_roots, is_signed, ps, node)
        problems = []
        uses_i256 = False
        for n, ps in F.walk(hir["value"]):
            k = n.get("k")
            ty = n.get("ty", "")
            if "ethnum::I256" in (ty or ""):
                uses_i256 = True
            if k == "Binary" and (is_ethnum_ty(n["l"].get("ty")) or is_ethnum_ty(n["r"].get("ty"))):
                o = n["op"]
                sgn = "I256" in (n["l"].get("ty") or "")
                if o in ("Add", "Sub", "Mul", "Div", "Rem"):
                    problems.append((F.loc(n["span"]), f"panicking operator `{o}` on a 256-bit integer (use the wrapping form)"))
                prim_sites.append((o, roots(n["l"]), roots(n["r"]), sgn, ps, n))
            elif k == "AssignOp" and is_ethnum_ty(n["l"].get("ty")):
                o = n["op"].replace("Assign", "")
                if o in ("Add", "Sub", "Mul", "Div", "Rem"):
                    problems.append((F.loc(n["span"]), f"panicking operator `{o}=` on a 256-bit integer"))
                prim_sites.append((o, roots(n["l"]), roots(n["r"]), "I256" in (n["l"].get("ty") or ""), ps, n))
            elif k == "Unary" and n.get("op") == "Not" and is_ethnum_ty(n["e"].get("ty")):
                prim_sites.append(("Not", roots(n["e"]), set(), False, ps, n))
            elif k in ("MethodCall", "Call") and (n.get("ty") or "").strip() in NATIVE_INTS and any(is_ethnum_ty((a.get("ty") or "").lstrip("&").strip()) for a in F.call_args(n)) and not (k == "MethodCall" and is_ethnum_ty(n.get("recv_ty")) and n["method"] in NARROW):
                # `rhs.into()` / `u32::from(rhs)` / `usize::try_from(..)`: a conversion of a 256-bit operand to a native integer
                nm = n["method"] if k == "MethodCall" else (F.callee_def(n) or "call").split("::")[-1]
                prim_sites.append(("narrow:" + nm + "->" + n["ty"].strip(), set().union(*[roots(a) for a in F.call_args(n)]), set(), False, ps, n))
            elif k == "MethodCall" and is_ethnum_ty(n.get("recv_ty")):
                m = n["method"]
                sgn = "I256" in n.get("recv_ty", "")
                if m in NARROW:
                    prim_sites.append(("narrow:" + m, roots(n["recv"]), set(), sgn, ps, n))
                elif m.startswith("wrapping_") or m in ("not", "pow"):
                    args = n["args"]
                    prim_sites.append((m, roots(n["recv"]), roots(args[0]) if args else set(), sgn, ps, n))
                cd = n.get("def") or ""
                if any(cd.endswith(x) or x + "<" in cd for x in ("::unwrap", "::expect")):
                    problems.append((F.loc(n["span"]), f"`{m}` may panic"))
                if m in ("checked_div", "checked_rem") and not sgn and n["args"]:
                    # on unsigned words `a.checked_div(b)` is None exactly for b == 0 and `a / b` otherwise: with None mapped to
                    # zero it IS the guarded wrapping form (not so on I256, where MIN / -1 is None as well)
                    par = ps[-1][0] if ps and ps[-1][1] == "recv" else None
                    none_is_zero = False

                    def is_zero_expr(x):
                        t_ = T.term(x, T.Env())
                        return t_ == ("lit", "0") or (t_[0] in ("path",) and str(t_[1]).split("::")[-1] in ("zero", "ZERO")) or (t_[0] == "call" and isinstance(t_[1], str) and F.strip_generics(t_[1]).split("::")[-1] == "zero" and not t_[2]) or (t_[0] == "call" and any(str(a_).endswith("ZERO')") or a_ == ("lit", "0") for a_ in t_[2]) and F.strip_generics(str(t_[1])).split("::")[-1] in ("from_le", "from"))

                    if par is not None and par.get("k") == "MethodCall":
                        if par["method"] in ("map_or_else", "map_or", "unwrap_or", "unwrap_or_else") and par["args"] and is_zero_expr(par["args"][0]):
                            none_is_zero = True
                        if par["method"] == "unwrap_or_default":
                            none_is_zero = True
                    if none_is_zero:
                        prim_sites.append(("wrapping_" + m[len("checked_"):], roots(n["recv"]), roots(n["args"][0]), sgn, ps, n))
                        self_guarded.add(id(n))
                        continue
                if m in ("pow", "checked_pow", "abs", "div_euclid", "rem_euclid") or m.startswith("checked_") or m.startswith("overflowing_") and False:
                    if m != "pow" or True:
                        problems.append((F.loc(n["span"]), f"`{m}` on a 256-bit integer is not total"))

        for w, msg in problems:
            rep.oblige(False, "R09.3", f"total:{op}", w, f"known-word `{op}`: {msg}")

        # the carrying primitive ----------------------------------------------------------
        want_names = {kind}
        if kind == "pow":
            want_names = {"wrapping_pow", "wrapping_mul"}
        if kind == "Not":
            want_names = {"Not", "not"}
        carriers = [s for s in prim_sites if s[0] in want_names]
        ok = bool(carriers)
        rep.oblige(
            ok,
            "R09.3",
            f"prim:{op}",
            where,
            f"known-word `{op}` does not compute with the expected primitive `{kind}` (found {sorted(set(s[0] for s in prim_sites))})",
            sample={"rule": "R09.3", "op": op, "primitive": kind, "sites": [F.loc(s[5]['span']) for s in carriers][:3]},
        )
        # foreign primitives: an arithmetic primitive that belongs to a different operation
        arith = {"wrapping_add", "wrapping_sub", "wrapping_mul", "wrapping_div", "wrapping_rem", "wrapping_pow", "Lt", "Gt", "Le", "Ge", "BitAnd", "BitOr", "BitXor", "Shl", "Shr", "Not", "not", "wrapping_neg", "wrapping_shl", "wrapping_shr"}
        allowed_extra = {"Eq", "Ne"}
        if guard == "shift_lt_256":
            allowed_extra |= {"Ge", "Lt", "Gt", "Le"}
        if guard == "shift_lt_256":
            # what the `>= 256` side yields: zero for the logical shifts, copies of the sign bit for the arithmetic one
            for c in carriers:
                for cond, br in guards_of(c[4]):
                    if not any(m.get("k") == "Binary" and m["op"] in ("Ge", "Gt", "Lt", "Le") for m, _ in F.walk(cond)):
                        continue
                    iff = next((anc for anc, key in c[4] if anc.get("k") == "If" and anc.get("cond") is cond), None)
                    if iff is None:
                        continue
                    other = iff.get("else") if br == "then" else iff.get("then")
                    if other is None:
                        continue
                    ot = T.term(other, T.Env())
                    tests_sign = any(st[0] == "bin" and st[1] in ("Lt", "Ge", "Gt", "Le") for st in T.subterms(ot[1])) or any(st[0] == "call" and isinstance(st[1], str) and F.strip_generics(st[1]).split("::")[-1] in ("is_negative", "is_positive", "signum") for st in T.subterms(ot[1])) if ot[0] == "if" else False
                    minus_one = any("MINUS_ONE" in str(st) or st == ("un", "Neg", ("lit", "1")) or (st[0] == "un" and st[1] == "Neg" and "ONE" in str(st[2])) or (st[0] == "un" and st[1] == "Not" and "ZERO" in str(st[2])) for st in T.subterms(ot))
                    sign_dep = ot[0] == "if" and tests_sign and minus_one
                    if signed == "yes":
                        rep.oblige(sign_dep, "R09.3", f"out-of-range:{op}", F.loc(other["span"]), f"known-word `{op}`: for shift amounts >= 256 the result must be all copies of the sign bit (-1 for a negative value, 0 otherwise); the out-of-range branch yields `{T.short(ot)[:60]}`")
                    else:
                        zero = (ot[0] == "call" and str(ot[1]).endswith("::zero")) or (ot[0] == "path" and str(ot[1]).endswith("ZERO")) or ot == ("lit", "0") or (ot[0] == "call" and any(str(x).endswith("ZERO") for x in map(str, ot[2])))
                        rep.oblige(zero, "R09.3", f"out-of-range:{op}", F.loc(other["span"]), f"known-word `{op}`: for shift amounts >= 256 the result must be zero; the out-of-range branch yields `{T.short(ot)[:60]}`")
        if guard == "full_exponent":
            # square-and-multiply over the whole exponent: the loop leaves only through its own condition (an early exit skips
            # the multiplications that the remaining exponent bits still owe)
            for lp, lps in F.exprs(hir["value"], "Loop"):
                exits = [x for x, xps in F.walk(lp["body"]) if x.get("k") in ("Break", "Ret") and not x.get("exp")]
                rep.oblige(not exits, "R09.3", f"loop-exit:{op}", F.loc(exits[0]["span"]) if exits else F.loc(lp["span"]), f"known-word `{op}`: the exponentiation loop has an exit besides its own condition: the exponent bits that have not been consumed yet still owe their multiplications, so the partial product is not the power")
                names = [m for m in (x[0] for x in prim_sites)]
                muls = [x for x in prim_sites if x[0] == "wrapping_mul"]
                rep.oblige(len(muls) == 2, "R09.3", f"loop-shape:{op}", F.loc(lp["span"]), f"known-word `{op}`: square-and-multiply needs exactly the conditional multiply of the result and the squaring of the base (found {len(muls)} multiplications)")
        if guard == "full_exponent":
            allowed_extra |= {"BitAnd", "Shr", "Ne", "Eq", "Gt"}
        for s in prim_sites:
            if s[0] in arith and s[0] not in want_names and s[0] not in allowed_extra:
                rep.oblige(False, "R09.3", f"foreign:{op}:{s[0]}", F.loc(s[5]["span"]), f"known-word `{op}` also computes with `{s[0]}`, which is not part of that operation")
        # signedness -----------------------------------------------------------------------
        if carriers:
            sgn_ok = all(c[3] == (signed == "yes") for c in carriers) if kind not in ("Eq",) else True
            rep.oblige(
                sgn_ok,
                "R09.3",
                f"signed:{op}",
                where,
                f"known-word `{op}` must operate on {'signed (I256)' if signed=='yes' else 'unsigned (U256)'} operands",
            )
        # operand order --------------------------------------------------------------------
        if order == "sr" and rhs_n and carriers and kind != "pow":
            for c in carriers:
                l_ok = self_n in c[1] and rhs_n not in c[1]
                r_ok = rhs_n in c[2] and self_n not in c[2]
                rep.oblige(
                    l_ok and r_ok,
                    "R09.3",
                    f"order:{op}",
                    F.loc(c[5]["span"]),
                    f"known-word `{op}`: operands of `{c[0]}` must be (receiver, argument) in that order; found left<-{sorted(c[1])} right<-{sorted(c[2])}",
                )
        # guards ---------------------------------------------------------------------------
        if guard == "zero_divisor":
            for c in carriers:
                gs = guards_of(c[4])
                g_ok = id(c[5]) in self_guarded
                for cond, br in gs:
                    # cond must compare something derived from rhs with a zero and we are in else (==) or then (!=)
                    for m, _ in F.walk(cond):
                        if m.get("k") == "Binary" and m["op"] in ("Eq", "Ne"):
                            sides = roots(m)
                            if rhs_n in sides:
                                if (m["op"] == "Eq" and br == "else") or (m["op"] == "Ne" and br == "then"):
                                    g_ok = True
                        if m.get("k") == "MethodCall" and m["method"] in ("is_zero",) and rhs_n in roots(m):
                            g_ok = True
                rep.oblige(g_ok, "R09.3", f"guard:{op}", F.loc(c[5]["span"]), f"known-word `{op}`: `{c[0]}` is not protected by a zero-divisor test of the second operand (EVM: x/0 = 0)")
        if guard == "shift_lt_256":
            for c in carriers:
                gs = guards_of(c[4])
                g_ok = False
                for cond, br in gs:
                    for m, _ in F.walk(cond):
                        if m.get("k") == "Binary" and m["op"] in ("Ge", "Gt", "Lt", "Le") and rhs_n in roots(m):
                            bound = None
                            for q, _ in F.walk(m):
                                if q.get("k") == "Lit" and q["value"].get("lit") == "int":
                                    bound = int(q["value"]["v"])
                                if q.get("k") == "Path" and q.get("res") == "def" and str(q.get("defkind", "")).startswith(("Const", "AssocConst")):
                                    v = fx.const_value(q["def"])
                                    if v is not None:
                                        bound = v
                            lhs_is_rhs = rhs_n in roots(m["l"])
                            o = m["op"]
                            if not lhs_is_rhs:
                                o = {"Ge": "Le", "Le": "Ge", "Gt": "Lt", "Lt": "Gt"}[o]
                            # normalised: shift o bound
                            if o == "Ge" and bound == 256 and br == "else":
                                g_ok = True
                            if o == "Gt" and bound == 255 and br == "else":
                                g_ok = True
                            if o == "Lt" and bound == 256 and br == "then":
                                g_ok = True
                            if o == "Le" and bound == 255 and br == "then":
                                g_ok = True
                rep.oblige(g_ok, "R09.3", f"guard:{op}", F.loc(c[5]["span"]), f"known-word `{op}`: the shift is not on the `< 256` side of a comparison of the shift amount (EVM: shifts >= 256 give 0 / the sign fill)")
                # the shift amount may be narrowed only under that guard; fine
        # narrowing of an operand ----------------------------------------------------------
        for s in prim_sites:
            if s[0].startswith("narrow:"):
                inside_guard = guard == "shift_lt_256" and any(True for _ in guards_of(s[4]))
                rep.oblige(
                    inside_guard,
                    "R09.3",
                    f"narrow:{op}",
                    F.loc(s[5]["span"]),
                    f"known-word `{op}` truncates an operand with `{s[0][7:]}`; the result is wrong for operands that do not fit",
                )
        if guard == "full_exponent":
            # wrapping_pow takes a u32: accepted only if there is no narrowing (i.e. square-and-multiply)
            for c in prim_sites:
                if c[0] == "wrapping_pow":
                    rep.oblige(False, "R09.3", f"narrow:{op}", F.loc(c[5]["span"]), "known-word `exp` uses a 32-bit exponent primitive; exponents above 2^32 fold incorrectly")


def check(fx, rep, tier):
    oracle = {}
    for r in tables.read("fold_ops.tsv"):
        oracle[r[0]] = (r[1], r[2], r[3], r[4] == "yes")
    folders = find_folders(fx)
    rep.anchor("R09.1", bool(folders), "a function matching on SymbolicValueData that folds `as_word()` results")
    n_arms = 0
    seen_variants = set()
    for b, m in folders:
        rep.fn(b["def"])
        for arm in m["arms"]:
            pv = F.pat_variants(arm["pat"])
            if not pv:
                # catch-all arm: must not produce anything
                has_some = False
                for n, _ in F.walk(arm["body"]):
                    if n.get("k") == "Struct" and n.get("adt") == SVD:
                        has_some = True
                rep.oblige(not has_some, "R09.1", "catchall", F.loc(arm["span"]), "the catch-all arm of the folding function rewrites nodes it does not fold")
                continue
            if len(pv) > 1:
                rep.oblige(False, "R09.1", "orpattern", F.loc(arm["span"]), "an or-pattern arm in the folding function cannot rebuild 'the same operator' for each alternative (unrecognised fold idiom)")
                continue
            n_arms += 1
            seen_variants.add(next(iter(pv))[1])
            analyse_arm(fx, rep, b, arm, oracle)
        # R09.4: the folder is handed to the recursive transformer
    rep.floor("R09.1", n_arms, 21, "arms of the folding function")
    missing = set(oracle) - seen_variants
    for v in sorted(missing):
        rep.oblige(False, "R09.2", f"fold:{v}", "-", f"operator `{v}` is foldable per the oracle but the folding function has no arm for it (constants are no longer folded through it)")
    check_word_ops(fx, rep)
    rep.exhaustive = True
    # folding reaches every sub-expression: the generic transformer the folder rides on rebuilds every variant with each of its
    # children transformed (C18 R18.2 rebuild:*); a child that is only copied keeps its constant sub-expressions unfolded
    from .. import core as _core9

    _core9.import_rules(rep, fx, "C18", "R09.4", only_rules=("R18.2",), floor=40, what="transformer obligations (C18 R18.2 rebuild) behind 'any sub-expression built only from constants is replaced'", key_filter=lambda k: "rebuild:" in k)
    return rep.finish(
        "Static audit of the constant folder: each of the arms of the folding match is checked for rebuild identity "
        "(same variant, same child in the same field) and for folding with the EVM operation and operand order given "
        "by an independent oracle table; each known-word primitive is checked for totality (no panicking operator, "
        "zero-divisor and shift<256 guards on the correct branch), exactness (no operand narrowing), signedness and operand order.",
        "instances = arms of the folding match x {rebuild, fold} + known-word operations x {primitive, signedness, order, guard, narrowing}; "
        "all arms and all operations are enumerated (exhaustive over the finite tables)",
        ["ethnum's wrapping_* primitives implement exact 256-bit arithmetic (trusted, tables/word_ops.tsv)"],
    )
