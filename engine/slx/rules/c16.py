"""C16 — combining typing evidence is independent of order and grouping.

R16.1 mirrored arms         : for every ordered pair of type-expression constructors, the arms `merge` can select for (A,B)
      and for (B,A) are mirror images: the same or-pattern arm, a delegate `merge(right, left, ..)`, twin arms whose bodies are
      equal after swapping left/right, or one arm with an orientation-free body. No delegate cycle exists.
R16.2 usage table laws      : the word-usage table (read exhaustively from WordUse::merge, 8x8) is commutative and associative
      with failure absorbing (shared with R15.1).
R16.3 absorption consistency: an arm that returns one operand unchanged while discarding an operand of class K (K != Any)
      contradicts a K x K arm that can yield a conflict: merge(merge(a,k1),k2) = a but merge(a, merge(k1,k2)) = conflict.
R16.4 Combine               : Combine for HashSet is plain set union with the empty set as identity; Combine for Option
      defers to the inner combine with None as identity.
"""
import itertools

import re
from .. import facts as F
from .. import tabeval
from .. import terms as T
from ..mergemodel import TE, MergeModel, normalise, swap_lr

WORD_USE = "tc::expression::WordUse"


def usage_table(fx, rep, rule):
    adt = fx.adt(WORD_USE)
    if not rep.anchor(rule, adt is not None, "the WordUse enum"):
        return None, None
    usages = [v["name"] for v in adt["variants"]]
    body = None
    for b in fx.fn_bodies():
        if b.get("impl_self") == WORD_USE and fx.fns.get(b["def"], {}).get("output", "").replace(" ", "") == f"std::option::Option<{WORD_USE}>" and len(b["hir"]["params"]) == 2:
            body = b
    if not rep.anchor(rule, body is not None, "the usage-merge function WordUse x WordUse -> Option<WordUse>"):
        return None, None
    rep.fn(body["def"])
    table = {}
    try:
        for a in usages:
            for b in usages:
                r = tabeval.eval_fn(body, [tabeval.variant(a), tabeval.variant(b)])
                if r == tabeval.NONE:
                    table[(a, b)] = None
                elif r[0] == "some" and r[1][0] == "v":
                    table[(a, b)] = r[1][1]
                else:
                    raise tabeval.NotATable(f"result {r}")
    except tabeval.NotATable as e:
        rep.violation(rule, "usage-table-not-a-table", F.loc(body["span"]), f"the usage merge is no longer a pure table over the usages ({e}); its algebraic laws cannot be read off the source")
        return None, None
    return usages, table


def check_usage_laws(fx, rep, rule, usages, table, want_upper_bound):
    n = 0
    bad = []
    for a in usages:
        n += 1
        if table[(a, a)] != a:
            bad.append(f"merge({a},{a}) = {table[(a,a)]} (not idempotent)")
    for a, b in itertools.product(usages, usages):
        n += 1
        if table[(a, b)] != table[(b, a)]:
            bad.append(f"merge({a},{b}) = {table[(a,b)]} but merge({b},{a}) = {table[(b,a)]}")
    def m(x, y):
        if x is None or y is None:
            return None
        return table[(x, y)]
    for a, b, c in itertools.product(usages, usages, usages):
        n += 1
        if m(m(a, b), c) != m(a, m(b, c)):
            bad.append(f"merge(merge({a},{b}),{c}) = {m(m(a,b),c)} but merge({a},merge({b},{c})) = {m(a,m(b,c))}")
    if want_upper_bound:
        for a, b in itertools.product(usages, usages):
            c = table[(a, b)]
            n += 1
            if c is not None:
                if c not in (a, b):
                    bad.append(f"merge({a},{b}) = {c}: a third usage, neither operand is kept")
                elif table[(a, c)] != c or table[(b, c)] != c:
                    bad.append(f"merge({a},{b}) = {c} is not an upper bound of both operands")
        ident = [u for u in usages if all(table[(u, x)] == x for x in usages)]
        n += 1
        if ident != ["Bytes"]:
            bad.append(f"identity element(s) of the usage table: {ident} (expected exactly the untyped `Bytes` usage)")
    rep.extra["usage_table_checks"] = n
    rep.extra["usage_table"] = {f"{a}+{b}": table[(a, b)] for a, b in itertools.product(usages, usages) if a < b and table[(a, b)] is not None}
    for msg in bad[:6]:
        pass
    rep.oblige(
        not bad,
        rule,
        "usage-laws",
        "-",
        "the word-usage table breaks an algebraic law: " + "; ".join(bad[:4]),
        sample={"rule": rule, "usages": len(usages), "pairs": len(usages) ** 2, "triples": len(usages) ** 3, "laws": "idempotent, commutative, associative" + (", upper bound, identity=Bytes" if want_upper_bound else "")},
    )
    rep.obligations += n - 1
    rep.discharged += n - 1 if not bad else max(0, n - 1 - len(bad))


def symmetric_body(t):
    n = normalise(t)
    return normalise(swap_lr(t)) == n


def check_mirrors(mm, rep):
    n_pairs = 0
    variants = mm.variants
    twin_cache = {}

    def twins(i, j):
        key = (i.idx, j.idx)
        if key not in twin_cache:
            twin_cache[key] = normalise(swap_lr(i.term)) == normalise(j.term)
        return twin_cache[key]

    def effective(a, b, depth=0):
        """list of (arm, flipped) after following delegates once"""
        out = []
        for arm in mm.select(a, b):
            if arm.delegate:
                if depth >= 1:
                    out.append(("cycle", arm))
                    continue
                for x, fl in effective(b, a, depth + 1):
                    out.append((x, not fl) if x != "cycle" else (x, fl))
            else:
                out.append((arm, False))
        return out

    for a, b in itertools.product(variants, variants):
        if a == b:
            continue
        n_pairs += 1
        ab = effective(a, b)
        ba = effective(b, a)
        cyc = [x for x in ab if x[0] == "cycle"]
        if cyc:
            rep.oblige(False, "R16.1", f"delegate-cycle:{a}x{b}", cyc[0][1].where(), f"merge({a},{b}) and merge({b},{a}) both delegate to each other: unbounded recursion")
            continue
        # compare as multisets under the equivalences
        def equivalent(x, y):
            (ax, fx_), (ay, fy_) = x, y
            if ax is ay:
                if fx_ != fy_:
                    return True  # same arm applied to the swapped operands (delegation)
                return symmetric_body(ax.term)
            if fx_ == fy_:
                return twins(ax, ay) or twins(ay, ax)
            return False

        ok = len(ab) == len(ba) and all(any(equivalent(x, y) for y in ba) for x in ab) and all(any(equivalent(y, x) for x in ab) for y in ba)
        rep.oblige(
            ok,
            "R16.1",
            f"mirror:{a}x{b}",
            ab[0][0].where() if ab else "-",
            f"merge({a},{b}) selects arm(s) [{', '.join(x[0].label() for x in ab)}] but merge({b},{a}) selects [{', '.join(x[0].label() for x in ba)}], which are not mirror images: the outcome depends on operand order",
            sample={"rule": "R16.1", "pair": f"{a} x {b}", "arms": [x[0].idx for x in ab], "mirror_arms": [x[0].idx for x in ba]} if n_pairs <= 10 else None,
        )
    rep.extra["ordered_constructor_pairs"] = n_pairs


def result_exprs(arm_body):
    """Result-producing calls in an arm body: (kind, node, parents) with kind in expression/equalities/judgements/new/conflict."""
    out = []
    for n, ps in F.calls(arm_body):
        cd = F.strip_generics(F.callee_def(n) or "")
        if cd.startswith("tc::unification::Merge::"):
            out.append((cd.split("::")[-1], n, ps))
    return out


def check_diagonal(mm, rep):
    """R16.1 (diagonal): an arm for (V, V) that answers with one of its operands as it stands is symmetric only if the two
    operands agree on every component: each field of V is either compared equal on the way (`f_l == f_r`) or, for
    type-variable fields, unified by an emitted Equality(f_l, f_r)."""
    n = 0
    ordinals = {}
    for V, fields in mm.variant_fields.items():
        if V in ("Equal", "Conflict") or not fields:
            continue
        arms = [a for a in mm.select(V, V) if not a.delegate and any(l == {V} and r == {V} for l, r in a.alts)]
        for arm in arms:
            p = arm.node["pat"]
            tops = p["pats"] if p.get("p") == "Or" else [p]
            tup = next((t for t in tops if t.get("p") == "Tuple" and len(t["pats"]) == 2), None)
            if tup is None:
                continue
            lb = {path[-1][1]: lid for lid, (nm, path) in F.pat_bindings(tup["pats"][0]).items() if path}
            rb = {path[-1][1]: lid for lid, (nm, path) in F.pat_bindings(tup["pats"][1]).items() if path}
            for kind, node, ps in result_exprs(arm.node["body"]):
                if kind not in ("expression", "equalities", "judgements", "new") or not node["args"]:
                    continue
                who = F.local_of(F.strip(node["args"][0]))
                if who not in (mm.left, mm.right):
                    continue
                n += 1
                covered = set()
                # comparisons known to hold here
                for cond, holds in T.path_conditions(ps, node):
                    for x, _ in F.walk(cond):
                        if x.get("k") == "Binary" and ((x["op"] == "Eq" and holds) or (x["op"] == "Ne" and not holds)):
                            a, b2 = F.local_of(F.strip(x["l"])), F.local_of(F.strip(x["r"]))
                            for f in fields:
                                if {a, b2} == {lb.get(f), rb.get(f)} and None not in (a, b2):
                                    covered.add(f)
                # equalities emitted with this result
                for c, _ in F.walk(node):
                    if c.get("k") == "Call" and F.strip_generics(F.callee_def(c) or "").endswith("unification::Equality::new") and len(c["args"]) == 2:
                        a, b2 = F.local_of(F.strip(c["args"][0])), F.local_of(F.strip(c["args"][1]))
                        for f, ty in fields.items():
                            if ty.endswith("TypeVariable") and {a, b2} == {lb.get(f), rb.get(f)} and None not in (a, b2):
                                covered.add(f)
                # equalities built into a local vector handed to the result
                for c, _ in F.walk(arm.node["body"]):
                    if c.get("k") == "Call" and F.strip_generics(F.callee_def(c) or "").endswith("unification::Equality::new") and len(c["args"]) == 2 and kind in ("equalities", "new"):
                        a, b2 = F.local_of(F.strip(c["args"][0])), F.local_of(F.strip(c["args"][1]))
                        for f, ty in fields.items():
                            if ty.endswith("TypeVariable") and {a, b2} == {lb.get(f), rb.get(f)} and None not in (a, b2):
                                covered.add(f)
                missing = sorted(set(fields) - covered)
                ordinals[V] = ordinals.get(V, 0) + 1
                rep.oblige(
                    not missing,
                    "R16.1",
                    f"diagonal:{V}:{'left' if who == mm.left else 'right'}#{ordinals[V]}",
                    F.loc(node["span"]),
                    f"merge({V}, {V}) answers with its {'left' if who == mm.left else 'right'} operand as it stands although the operands may differ in {missing} (neither compared equal on this path nor unified by an equality): merge(a, b) and merge(b, a) give different types",
                    sample={"rule": "R16.1", "constructor": V, "returns": "left" if who == mm.left else "right", "components_agreeing": sorted(covered)},
                )
    rep.floor("R16.1", n, 3, "diagonal arms answering with one operand")


def check_idempotence(mm, rep):
    """merge(x, x) = x: either merge returns its operand as soon as the two are equal (before the arm table), or every
    constructor's diagonal arm returns the operand for equal operands. Without it, a type met twice (a literal `bytes` next to a
    `bytes` derived during the fold) conflicts with itself for some orders only."""
    root = mm.fn["hir"]["value"]
    fast = False
    for n, ps in F.exprs(root, "If"):
        if "else" in n or not T.diverges(n["then"]):
            continue
        c = n["cond"]
        while c.get("k") in ("DropTemps", "Use"):
            c = c["e"]
        if c.get("k") == "Binary" and c["op"] == "Eq" and {F.local_of(F.strip(c["l"])), F.local_of(F.strip(c["r"]))} == {mm.left, mm.right}:
            # before the arm table
            if T._span_key(n["span"])[2] <= T._span_key(mm.match["span"])[1]:
                rets = [x for x, _ in F.walk(n["then"]) if x.get("k") == "Call" and F.strip_generics(F.callee_def(x) or "").endswith("Merge::expression") and x["args"] and F.local_of(F.strip(x["args"][0])) in (mm.left, mm.right)]
                fast = bool(rets)
    if fast:
        rep.oblige(True, "R16.2", "idempotent:fast-path", F.loc(mm.fn["span"]), "", sample={"rule": "R16.2", "idempotence": "equal operands are returned before the arm table"})
        return
    bad = []
    for V in mm.variants:
        if V in ("Equal",):
            continue
        sel = [a for a in mm.select(V, V) if not a.delegate]
        ok = False
        for arm in sel[:1]:
            res = result_exprs(arm.node["body"])
            ok = bool(res) and any(kind in ("expression", "equalities", "new", "judgements") and not any(F.strip_generics(F.callee_def(c) or "").endswith(("TypeExpression::conflict", "TypeExpression::conflict_with")) for c, _ in F.calls(node)) for kind, node, ps in res)
        if not ok:
            bad.append(V)
    rep.oblige(not bad, "R16.2", "idempotent", F.loc(mm.fn["span"]), f"merge has no early return for equal operands and the diagonal arm(s) for {bad} can only conflict: merge(x, x) is not x, so a type that is met twice conflicts with itself depending on the order of the fold")


def option_combine_table(b):
    """Evaluate `match (self, other) {..}` of Combine for Option on the four shapes of its input."""
    ms = [m for m, _ in F.exprs(b["hir"]["value"], "Match") if "Desugar" not in str(m.get("source", ""))]
    params = [p_ for p_ in b["hir"]["params"] if p_.get("p") == "Bind"]
    if len(ms) != 1 or len(params) != 2:
        return False
    m = ms[0]
    sc = F.strip(m["scrut"])
    if sc.get("k") != "Tup" or [F.local_of(F.strip(x)) for x in sc["elems"]] != [p_["local"] for p_ in params]:
        return False

    def accepts(pat, shape):
        k = pat.get("p")
        if k in ("Wild",) or (k == "Bind" and "sub" not in pat):
            return True
        if k == "Bind":
            return accepts(pat["sub"], shape)
        pv = F.pat_variants(pat)
        if pv:
            return {v for _, v in pv} == {shape}
        return None

    def bind(pat, shape, sym, env):
        k = pat.get("p")
        if k == "Bind":
            env[pat["local"]] = ("some", sym) if shape == "Some" else ("none",)
            if "sub" in pat:
                bind(pat["sub"], shape, sym, env)
        elif k == "TupleStruct" and shape == "Some" and len(pat["pats"]) == 1:
            sub = pat["pats"][0]
            if sub.get("p") == "Bind":
                env[sub["local"]] = sym

    def ev(t, env):
        if t[0] == "local":
            return env.get(t[1])
        if t[0] == "path" and str(t[1]).endswith("::None"):
            return ("none",)
        if t[0] == "struct" and str(t[2]).endswith("::Some") and len(t[3]) == 1:
            x = ev(t[3][0][1], env)
            return None if x is None else ("some", x)
        if t[0] == "call" and isinstance(t[1], str) and F.strip_generics(t[1]).split("::")[-1] == "combine" and len(t[2]) == 2:
            x, y = ev(t[2][0], env), ev(t[2][1], env)
            return None if x is None or y is None else ("comb", x, y)
        return None

    want = {("Some", "Some"): ("some", ("comb", "A", "B")), ("Some", "None"): ("some", "A"), ("None", "Some"): ("some", "B"), ("None", "None"): ("none",)}
    for shape, expect in want.items():
        got = None
        for arm in m["arms"]:
            pat = arm["pat"]
            if arm.get("guard") or pat.get("p") != "Tuple" or len(pat["pats"]) != 2:
                return False
            acc = [accepts(x, sh) for x, sh in zip(pat["pats"], shape)]
            if None in acc:
                return False
            if all(acc):
                env = {}
                bind(pat["pats"][0], shape[0], "A", env)
                bind(pat["pats"][1], shape[1], "B", env)
                got = ev(T.term(arm["body"], T.Env()), env)
                break
        if got != expect:
            return False
    return True


def check_span_shapes(mm, rep):
    """R16.3 (shape closure): the arm that lets a packed encoding meet dynamic bytes / a dynamic array accepts a finite family
    of span shapes per span count. Associativity needs that family to be closed: a k-span encoding is accepted exactly when each
    of its spans is accepted on its own ((p + q) + bytes against p + (q + bytes), p and q being one-span encodings). The
    conditions are read as boolean formulas over `span[i].offset == c` / `span[i].size == c` and evaluated for every tuple over
    the constants they mention."""
    arm = next((a for a in mm.arms if any(l == {"Packed"} and "Bytes" in r for l, r in a.alts)), None)
    if not rep.anchor("R16.3", arm is not None, "the (Packed, Bytes | DynamicArray) arm of merge"):
        return
    body = F.strip(arm.node["body"])
    t = arm.term
    if not rep.anchor("R16.3", body.get("k") == "Match" and isinstance(t, tuple) and t[0] == "match" and len(t[2]) == len(body["arms"]) and "len" in str(t[1]), "a match on the number of spans in that arm"):
        return

    def is_bytes(x):
        return isinstance(x, tuple) and x[0] == "call" and "Merge" in str(x[1]) and x[2] and x[2][0][0] == "path" and str(x[2][0][1]).endswith("::Bytes")

    def is_conflict(x):
        return isinstance(x, tuple) and x[0] == "call" and "Merge" in str(x[1]) and x[2] and x[2][0][0] == "call" and "conflict" in str(x[2][0][1])

    # which sorted-by-offset sequences exist in the arm (closure body = the span's offset field)
    by_offset = False
    for n, _ in F.walk(arm.node["body"]):
        if n.get("k") == "MethodCall" and n["method"] in ("sorted_by_key", "sort_by_key", "sorted_unstable_by_key", "sort_unstable_by_key"):
            clo = [F.strip(a) for a in n["args"] if F.strip(a).get("k") == "Closure"]
            if clo:
                cb = F.strip(clo[0]["body"])
                while cb.get("k") == "Block" and not cb["block"]["stmts"] and cb["block"].get("expr"):
                    cb = F.strip(cb["block"]["expr"])
                if cb.get("k") == "Tup" and cb.get("elems"):
                    cb = F.strip(cb["elems"][0])  # `(s.offset, s.size)`: ordered by offset first
                if cb.get("k") == "Field" and cb.get("field") == "offset":
                    by_offset = True

    class NotAFormula(Exception):
        pass

    consts = {"offset": set(), "size": set()}

    def atoms(c):
        if c[0] == "bin" and c[1] in ("And", "Or"):
            atoms(c[2]); atoms(c[3]); return
        if c[0] == "un" and c[1] == "Not":
            atoms(c[2]); return
        if c[0] == "bin" and c[1] in ("Eq", "Ne") and c[2][0] == "field" and c[2][2] in consts and c[3][0] == "lit" and c[2][1][0] == "index" and c[2][1][2][0] == "lit":
            consts[c[2][2]].add(int(c[3][1])); return
        raise NotAFormula(T.short(c)[:60])

    def ev(c, spans, sorted_seq):
        if c[0] == "bin" and c[1] == "And":
            return ev(c[2], spans, sorted_seq) and ev(c[3], spans, sorted_seq)
        if c[0] == "bin" and c[1] == "Or":
            return ev(c[2], spans, sorted_seq) or ev(c[3], spans, sorted_seq)
        if c[0] == "un":
            return not ev(c[2], spans, sorted_seq)
        seq = sorted_seq if "sort" in str(c[2][1][1]) else spans
        i = int(c[2][1][2][1])
        v = seq[i][0 if c[2][2] == "offset" else 1]
        return (v == int(c[3][1])) == (c[1] == "Eq")

    conds = {}
    wild = None
    try:
        for harm, (_lbl, tb) in zip(body["arms"], t[2]):
            pat = harm["pat"]
            if pat.get("p") == "Lit":
                k = int(pat["value"]["v"])
            elif pat.get("p") == "Wild" or pat.get("p") == "Bind":
                k = None
            else:
                raise NotAFormula("pattern " + str(pat.get("p")))
            if is_bytes(tb):
                c = True
            elif is_conflict(tb):
                c = False
            elif isinstance(tb, tuple) and tb[0] == "if" and is_bytes(tb[2]) and is_conflict(tb[3]):
                atoms(tb[1])
                c = tb[1]
            elif isinstance(tb, tuple) and tb[0] == "if" and is_conflict(tb[2]) and is_bytes(tb[3]):
                atoms(tb[1])
                c = ("un", "Not", tb[1])
            else:
                raise NotAFormula(f"the arm for {k} spans is neither bytes, a conflict, nor a choice between them")
            if k is None:
                wild = c
            else:
                conds[k] = c
    except NotAFormula as e:
        rep.violation("R16.3", "shape-closure:not-a-table", arm.where(), f"the span-shape conditions of the (Packed, Bytes) arm are no longer a finite table ({e}); their closure cannot be read off the source")
        return
    if not rep.anchor("R16.3", 1 in conds and wild is not None, "the one-span case and a catch-all in the span-count match"):
        return
    # an encoding without spans says nothing about the slot: meeting dynamic bytes / an array it must give way, not conflict
    rep.oblige(
        conds.get(0, wild) is True,
        "R16.3",
        "shape-closure:empty-is-neutral",
        arm.where(),
        "a packed encoding with no spans no longer gives way to dynamic bytes / a dynamic array (the zero-span case is not the accepting one): evidence that says nothing turns compatible evidence into a conflict, and does so only when it is met after the array",
        sample={"rule": "R16.3", "zero_span_case": "bytes" if conds.get(0, wild) is True else "conflict / conditional"},
    )
    universe = sorted((o, s) for o in consts["offset"] for s in consts["size"])

    def accepted(k, tup):
        c = conds.get(k, wild)
        if c is True or c is False:
            return {c}
        out = set()
        srt = tuple(sorted(tup))
        for p_ in itertools.permutations(tup):
            out.add(ev(c, p_, srt if by_offset else p_))
        return out

    singles = {u for u in universe if accepted(1, (u,)) == {True}}
    rep.extra["packed_bytes_shapes"] = sorted(singles)
    n = 0
    maxk = max(list(conds) + [len(singles)]) + 1
    for k in range(2, maxk + 1):
        for tup in itertools.combinations(universe, k):
            if any(a[0] + a[1] > b[0] for a, b in zip(tup, tup[1:])):
                continue  # overlapping spans never form one encoding
            n += 1
            acc = accepted(k, tup)
            want = all(u in singles for u in tup)
            ok = acc == {want}
            why = "depends on the order in which the spans are listed" if len(acc) > 1 else (f"is {'accepted' if True in acc else 'rejected'} as a whole although each span on its own is {'accepted' if want else 'not all accepted'}")
            rep.oblige(ok, "R16.3", f"shape-closure:{k}:{'+'.join(f'{o}/{s}' for o, s in tup)}", arm.where(), f"a packed encoding with the spans {list(tup)} (offset, size) meeting bytes / a dynamic array {why}: combining the one-span pieces with the bytes evidence one at a time gives a different outcome than combining them with each other first, so the result depends on the grouping", sample={"rule": "R16.3", "spans": list(tup), "accepted": want} if n <= 3 else None)
    rep.floor("R16.3", n, 4, "multi-span shapes of the packed-meets-bytes arm evaluated against the one-span shapes")


def check_listing_order(mm, rep):
    """R16.3 (listing order): a packed encoding is a SET of spans; the order in which the vector lists them is whatever the
    producer used (merge's own outputs are sorted, `TE::packed_of` takes any order). An arm that reads a span by position
    (`first()`, `[i]`) from the unsorted list - outside the cases where the list has at most one element - answers differently
    for two listings of the same evidence, and differently before and after the encoding has met another packed encoding."""
    n = 0
    for arm in mm.arms:
        binds = {lid for lid, (name, path) in F.pat_bindings(arm.node["pat"]).items() if path and path[-1][1] == "types"}
        if not binds:
            continue
        body = arm.node["body"]
        # nodes under `match types.len() { 0 | 1 => .. }`
        small = set()
        for m, _ in F.exprs(body, "Match"):
            sc = F.strip(m["scrut"])
            if sc.get("k") == "MethodCall" and sc["method"] == "len" and F.local_of(F.strip(sc["recv"])) in binds:
                for a in m["arms"]:
                    if a["pat"].get("p") == "Lit" and str(a["pat"]["value"].get("v")) in ("0", "1"):
                        small |= {id(x) for x, _ in F.walk(a["body"])}
        for x, ps in F.walk(body):
            recv = None
            if x.get("k") == "MethodCall" and x["method"] in ("first", "last", "get", "first_mut", "last_mut", "split_first", "split_last"):
                recv = x["recv"]
            elif x.get("k") == "Index":
                recv = x.get("base") or x.get("lhs") or x.get("e")
            if recv is None or F.local_of(F.strip(recv)) not in binds or id(x) in small:
                continue
            n += 1
            k = sum(1 for y in rep.instances.get("R16.3", []) if y.startswith(f"listing-order:{arm.label()}#")) + 1
            rep.oblige(False, "R16.3", f"listing-order:{arm.label()}#{k}", F.loc(x["span"]), f"the arm {arm.label()} reads a span of the packed encoding by its position in the (unsorted) list: two listings of the same spans are combined differently, and the outcome changes once the encoding has been merged with another one (whose output is sorted) - the result depends on the grouping")
    rep.inst("R16.3", "listing-order-scan", sample={"rule": "R16.3", "positional_reads_of_unsorted_span_lists": n})


def check_absorption(mm, rep):
    """R16.3"""
    L, R = mm.left, mm.right
    # which classes have a conflicting K x K arm
    conflict_diag = {}
    for k in mm.variants:
        sel = mm.select(k, k)
        for arm in sel:
            has_conflict = any(
                (F.strip_generics(F.callee_def(c) or "").endswith("TypeExpression::conflict") or F.strip_generics(F.callee_def(c) or "").endswith("TypeExpression::conflict_with"))
                for c, _ in F.calls(arm.node["body"])
            )
            if has_conflict and k not in ("Conflict",):
                conflict_diag[k] = arm
    # classes whose K x K arm unifies components (emits equalities): dropping one K before it meets another K loses that
    # unification, which is just as order-dependent as a lost conflict
    equating_diag = {}
    for k in mm.variants:
        for arm in mm.select(k, k):
            if any(F.strip_generics(F.callee_def(c) or "").endswith("unification::Equality::new") for c, _ in F.calls(arm.node["body"])) and k not in ("Conflict",):
                equating_diag[k] = arm
    n = 0
    for arm in mm.arms:
        if arm.delegate:
            continue
        for l, r in arm.alts:
            # an arm (X, K) / (K, X) for specific K
            for side_sets, k_set, keep_local, keep_name in ((l, r, L, "left"), (r, l, R, "right")):
                if k_set is None or side_sets is None:
                    continue
                for res_kind, node, ps in result_exprs(arm.node["body"]):
                    if res_kind != "expression":
                        continue
                    arg = node["args"][0]
                    t = T.term(arg, T.Env())
                    returns_kept = F.local_of(arg) == keep_local

                    inner_conds = []

                    def branches(x, conds=()):
                        if x[0] == "if":
                            c = T.short(x[1])[:60]
                            return branches(x[2], conds + (c,)) + branches(x[3], conds + ("not " + c,))
                        if x[0] == "match":
                            # an arm for `None | Some(..)` is the two cases it covers (keys stay what they are when two arms with
                            # one body are written as one or-pattern)
                            return [y for l, b in x[2] for alt in (l.split("|") if set(l.split("|")) == {"None", "Some"} else [l]) for y in branches(b, conds + ("match " + alt,))]
                        return [(x, conds)]

                    for br, bc in branches(t):
                        if br[0] == "local" and br[1] == keep_local:
                            returns_kept = True
                            inner_conds = list(bc)
                    # a constant constructor equal to the kept side (e.g. TE::Bytes when the kept side is Bytes)
                    if not returns_kept and t[0] == "path" and str(t[1]).startswith(TE + "::") and str(t[1]).split("::")[-1] in side_sets:
                        returns_kept = True
                    if not returns_kept:
                        continue
                    for K in sorted(k_set):
                        if K in ("Any",) or K in side_sets:
                            continue
                        n += 1
                        for X in sorted(side_sets):
                            inconsistent = K in conflict_diag or K in equating_diag
                            # conditions on the path (guards / ifs) are listed for the report
                            conds = list(inner_conds)
                            if arm.guard:
                                conds.append(T.short(T.term(arm.guard, T.Env()))[:60])
                            for anc, key in ps:
                                if anc.get("k") == "If" and key in ("then", "else"):
                                    conds.append(("" if key == "then" else "not ") + T.short(T.term(anc["cond"], T.Env()))[:60])
                                if "pat" in anc and key == "body" and anc is not arm.node:
                                    pv = F.pat_variants(anc["pat"])
                                    conds.append("match " + ("|".join(sorted(v for _, v in pv)) if pv else "_"))
                            # an arm for `None | Some(..)` is the two cases it covers: one obligation each, keyed as if written apart
                            cond_sets = [conds]
                            for ci, c_ in enumerate(conds):
                                if c_ == "match None|Some":
                                    cond_sets = [cs[:ci] + [alt] + cs[ci + 1:] for cs in cond_sets for alt in ("match None", "match Some")]
                            for conds in cond_sets:
                              if K not in conflict_diag and K in equating_diag:
                                # an empty component list has nothing to unify: dropping it loses nothing
                                if any("is_empty" in c for c in conds):
                                    continue
                                # the kept side named by a constant constructor is that constructor only
                                if t[0] == "path" and str(t[1]).split("::")[-1] != X:
                                    continue
                                akey = f"absorb-eq:{X}x{K}"
                              else:
                                akey = f"absorb:{X}x{K}[{' & '.join(conds) or 'always'}]"
                              rep.oblige(
                                  not inconsistent,
                                  "R16.3",
                                  akey,
                                  F.loc(node["span"]),
                                  (f"merge({X}, {K}) returns the {X} unchanged and drops the {K} evidence (when {' and '.join(conds) or 'always'}), but {K} x {K} can conflict (arm at {conflict_diag[K].where() if K in conflict_diag else '-'}): merge(merge({X.lower()},k1),k2) keeps the {X} while merge({X.lower()},merge(k1,k2)) is a conflict — the outcome depends on grouping and therefore on set iteration order" if K in conflict_diag else f"merge({X}, {K}) returns the {X} unchanged and drops the {K} evidence (when {' and '.join(conds) or 'always'}), but {K} x {K} unifies the components of the two {K}s (arm at {equating_diag[K].where()}): whether two {K}s in one class ever meet - and their components get unified - depends on the order of the fold"),
                                  sample={"rule": "R16.3", "arm": arm.label(), "keeps": X, "drops": K, "conditions": conds},
                              )
    rep.extra["absorbing_paths_examined"] = n


def check_combine(fx, rep):
    impls = fx.impls_of_trait("data::combine::Combine")
    seen = set()
    for i in impls:
        st = i.get("self_ty", "")
        for it in i["items"]:
            b = fx.body(it["def"])
            if not b:
                continue
            cs = [F.strip_generics(F.callee_def(c) or "") for c, _ in F.calls(b["hir"]["value"])]
            if st.startswith("std::collections::HashSet"):
                if it["name"] == "combine":
                    seen.add("hs-combine")
                    ok = any(c.endswith("::union") for c in cs) and not any(c.split("::")[-1] in ("intersection", "difference", "symmetric_difference", "retain", "filter", "take", "skip", "filter_map", "step_by") for c in cs)
                    rep.oblige(ok, "R16.4", "combine:HashSet", F.loc(b["span"]), "Combine for HashSet is not plain set union: it is no longer commutative/associative/lossless", sample={"rule": "R16.4", "impl": "HashSet", "calls": [c.split('::')[-1] for c in cs]})
                elif it["name"] == "identity":
                    seen.add("hs-identity")
                    ok = any(c.endswith("::default") or c.endswith("::new") for c in cs) and len(cs) == 1
                    rep.oblige(ok, "R16.4", "identity:HashSet", F.loc(b["span"]), "Combine::identity for HashSet is not the empty set")
            if st.startswith("std::option::Option"):
                if it["name"] == "combine":
                    seen.add("opt-combine")
                    # table over {None, Some}: (Some,Some)->Some(combine), (Some,None)->Some(a), (None,Some)->Some(b), (None,None)->None,
                    # evaluated: for each of the four input shapes the first arm that accepts it must answer the expected value
                    ok = option_combine_table(b)
                    rep.oblige(ok, "R16.4", "combine:Option", F.loc(b["span"]), "Combine for Option is not `inner combine with None as identity`")
    rep.floor("R16.4", len(seen), 3, "Combine implementations (HashSet combine/identity, Option combine)")


def check_structural_equality(fx, rep, rule):
    """merge begins with `if left == right { return left }` and a class's evidence is a HashSet of expressions: both treat two
    expressions as the same exactly when `==` / `Hash` say so. Only a structural equality (derived over every field of the
    expression, its spans and its word usages) makes `the same` mean `carrying the same evidence`; an equality that ignores a
    field keeps whichever of two differing judgements came first."""
    from .. import srcattrs

    n = 0
    for ty in ("tc::expression::TypeExpression", "tc::expression::Span", "tc::expression::WordUse"):
        adt = fx.adt(ty)
        if not rep.anchor(rule, adt is not None, ty):
            continue
        outer, members = srcattrs.item_attrs(adt["span"])
        derives = " ".join(a for a in outer if a.startswith("#[derive"))
        deriv = [a for a in outer if "derivative(" in a]
        std = all(re.search(r"\b%s\b" % t, derives) for t in ("PartialEq", "Hash"))
        via_derivative = any(re.search(r"\bPartialEq\b", a) for a in deriv) or any(re.search(r"\bHash\b", a) for a in deriv)
        ignored = sorted(k for k, attrs in members.items() if any("derivative" in a and "ignore" in a and ("PartialEq" in a or "Hash" in a) for a in attrs))
        manual = [i for i in fx.impls if i.get("self_adt") == ty and (i.get("trait") or "").split("::")[-1] in ("PartialEq", "Hash") and not i.get("from_expansion")]
        n += 1
        ok = (std or via_derivative) and not ignored and not manual
        rep.oblige(
            ok,
            rule,
            f"structural-equality:{ty.split('::')[-1]}",
            F.loc(adt["span"]),
            f"equality / hashing of `{ty}` is not derived over all of its fields ({'ignores ' + ', '.join(ignored) if ignored else 'hand-written impl' if manual else 'no PartialEq + Hash derive found'}): two judgements that differ only there count as one, and which of them survives in a class (and whether the equal-operands shortcut of merge fires) depends on the order they arrive in",
            sample={"rule": rule, "type": ty, "derive": derives[:120], "ignored_fields": ignored},
        )
    rep.floor(rule, n, 3, "types whose equality decides `the same evidence`")


def check(fx, rep, tier):
    mm = MergeModel(fx)
    if not rep.anchor("R16.1", mm.ok, "; ".join(mm.problems) or "merge model"):
        return rep.finish("anchor lost", "n/a")
    rep.fn(mm.fn["def"])
    rep.floor("R16.1", len(mm.arms), 15, "arms of merge")
    check_mirrors(mm, rep)
    check_diagonal(mm, rep)
    check_idempotence(mm, rep)
    usages, table = usage_table(fx, rep, "R16.2")
    if table is not None:
        check_usage_laws(fx, rep, "R16.2", usages, table, want_upper_bound=False)
    check_absorption(mm, rep)
    check_span_shapes(mm, rep)
    check_listing_order(mm, rep)
    from .c15 import check_transparent_constructors

    check_transparent_constructors(fx, rep, "R16.3")
    check_combine(fx, rep)
    check_structural_equality(fx, rep, "R16.1")
    # the outcome may not depend on which type variables stand for the parts: no ordering by identity inside merge and its helpers
    from .c02 import check_identity_order
    from .. import facts as _F
    cg = _F.CallGraph(fx)
    scope = sorted(n for n in cg.reachable([mm.fn["def"]]) if n.startswith(("tc::unification::", "tc::expression::", "<tc::expression::", "<tc::unification::")))
    check_identity_order(fx, rep, "R16.1", scope, 2)
    rep.exhaustive = True
    return rep.finish(
        "Finite arm-table analysis of the pairwise combination: arm selection for all ordered constructor pairs (first-match with guards as may-match), "
        "mirror-image check of the selected arms (delegation, twin arms equal after swapping left/right on normalised terms, orientation-free bodies), "
        "the 8x8 usage table read out of the source and checked exhaustively for commutativity and associativity, structural detection of absorbing arms "
        "against conflicting diagonal arms, and the two Combine implementations.",
        "instances = ordered constructor pairs (72), usage pairs (64) and triples (512), absorbing (arm, kept, dropped) paths, Combine impls; all enumerated",
        ["associativity across mixed constructor triples beyond the absorption condition, and Packed x Packed, are not decided; conflict explanations and equality orientation are normalised away as the property allows"],
    )
