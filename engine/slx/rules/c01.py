"""C01 — analysis is total: no panic, overflow or stack exhaustion on attacker-chosen bytecode.

R01.1 panic-site audit    : every MIR assertion (overflow, division / remainder by zero, bounds) and every call of a function
      that can panic (unwrap / expect / panic / unreachable / assert / indexing / positional Vec operations) in code reachable
      from the public entry points is discharged — automatically (arithmetic on values the taint analysis proves resource-bounded;
      non-zero constant divisors; the watchdog's poll interval) or by a reviewed row of tables/panic_sites.tsv. A new site without
      a discharge is reported.
R01.2 narrowing and taint : a native integer derived from an attacker-chosen 256-bit constant must not reach an overflow-checked
      + - *, an allocation size or an index without a sanitizer (min/clamp, `% bound`, checked narrowing, comparing filter, or a
      dominating comparison on the sink's side).
R01.3 recursion audit     : every recursive strongly connected component of the call graph reachable from the entry points has a
      reviewed row in tables/recursion.tsv stating its depth bound.
R01.4 unbounded iteration : a loop range whose length derives from a tainted value must be bounded by a clean limit.
"""
import re

from .. import facts as F
from .. import tables
from ..taint import ALLOC_SINKS, Taint

PANIC_CALLS = {
    "std::option::Option::<T>::unwrap": "unwrap",
    "std::option::Option::<T>::expect": "expect",
    "std::result::Result::<T, E>::unwrap": "unwrap",
    "std::result::Result::<T, E>::expect": "expect",
    "std::result::Result::<T, E>::unwrap_err": "unwrap_err",
    "std::result::Result::<T, E>::expect_err": "expect_err",
    "core::panicking::panic_fmt": "panic",
    "core::panicking::panic": "panic",
    "core::panicking::panic_display": "panic",
    "core::panicking::panic_explicit": "panic",
    "core::panicking::unreachable_display": "unreachable",
    "core::panicking::assert_failed": "assert",
    "core::panicking::panic_bounds_check": "bounds",
    "std::ops::Index::index": "index",
    "std::ops::IndexMut::index_mut": "index_mut",
    "std::vec::Vec::<T, A>::remove": "vec_remove",
    "std::vec::Vec::<T, A>::insert": "vec_insert",
    "std::vec::Vec::<T, A>::swap_remove": "vec_swap_remove",
    "std::vec::Vec::<T, A>::split_off": "vec_split_off",
    "std::vec::Vec::<T, A>::drain": "vec_drain",
    "core::slice::<impl [T]>::swap": "slice_swap",
    "core::slice::<impl [T]>::split_at": "split_at",
    "core::slice::<impl [T]>::copy_from_slice": "copy_from_slice",
    "core::slice::<impl [T]>::chunks": "chunks",
    "std::iter::Iterator::step_by": "step_by",
    "std::collections::VecDeque::<T, A>::remove": "deque_remove",
    "std::cell::RefCell::<T>::borrow_mut": "borrow_mut",
    "std::cell::RefCell::<T>::borrow": "borrow",
    "std::str::<impl str>::split_at": "str_split_at",
}
IGNORED_ASSERTS = ("NullPointerDereference", "MisalignedPointerDereference", "InvalidEnumConstruction")


_DEP = {}


def dependency_holds(fx, dep):
    """Run another property's rules silently and tell whether they hold (used for sites discharged by those rules)."""
    from .. import core as _c

    if dep in _c._IN_PROGRESS:
        return True  # being evaluated further up: its own run reports what it finds
    if dep not in _DEP:
        import importlib

        from .. import core

        mod = importlib.import_module(f"slx.rules.{dep.lower()}")
        r = core.Report(dep, "quick", 0)
        r.finish = lambda *a, **k: 0
        core._IN_PROGRESS.add(dep)
        try:
            mod.check(fx, r, "quick")
            core._IN_PROGRESS.discard(dep)
            known = {k["key"] for k in core.load_known() if k.get("property") == dep and k.get("status") == "finding"}
            _DEP[dep] = not [v for v in r.violations if v["key"] not in known]
        except Exception:
            core._IN_PROGRESS.discard(dep)
            _DEP[dep] = False
    return _DEP[dep]


def value_size_unbounded_reasons(fx):
    """The recursion over value trees (constant folding, transformers, registration, hashing, drop) and the arithmetic on their
    memoised sizes are bounded by the value size limit and by nothing else. Reasons why that bound does not hold:
    values built without the limit (C18 R18.3 sites), and a limit that the configuration can raise without any cap."""
    from .. import core
    import importlib

    reasons = []
    if "C18" in core._IN_PROGRESS:
        return []
    mod = importlib.import_module("slx.rules.c18")
    r = core.Report("C18", "quick", 0)
    r.finish = lambda *a, **k: 0
    core._IN_PROGRESS.add("C18")
    try:
        mod.check(fx, r, "quick")
        core._IN_PROGRESS.discard("C18")
        known18 = {k["key"] for k in core.load_known() if k.get("property") == "C18" and k.get("status") == "finding"}
        for v in r.violations:
            if v["rule"] == "R18.3" and "|nolimit:" in v["key"]:
                reasons.append(("nolimit:" + v["key"].split("|nolimit:", 1)[1], v["where"], v["msg"]))
            elif v["key"] not in known18:
                # any other break of the size discipline (a child not counted, a new nesting channel, a wrong cull test)
                reasons.append(("size-discipline:" + v["key"].replace("|", ":"), v["where"], v["msg"]))
    except Exception as e:  # fail closed
        core._IN_PROGRESS.discard("C18")
        reasons.append(("c18-engine", "-", f"the size-limit audit (C18) crashed: {e}"))
    # is the configured limit capped anywhere between the configuration and the cull test?
    capped = False
    where = "-"
    for b in fx.fn_bodies():
        if not b.get("hir"):
            continue
        if b.get("impl_self") == "vm::Config" or F.strip_generics(b["def"]).startswith("vm::value::SymbolicValue::"):
            for n, ps in F.walk(b["hir"]["value"]):
                if n.get("k") == "MethodCall" and n["method"] in ("min", "clamp") and "value_size_limit" in str(T.term(n, T.Env())):
                    capped = True
                if n.get("k") == "Field" and n.get("field") == "value_size_limit" and n.get("adt") == "vm::Config":
                    where = F.loc(b["span"])
    if not capped:
        reasons.append(("limit-uncapped", where, "the value size limit is taken from the configuration as it is (no upper cap): a configuration with a large positive limit lets value trees become deep enough to overflow the native stack in the recursive traversals and large enough for the memoised sizes to overflow"))
    return reasons


def reachable_bodies(fx, cg):
    entries = [b["def"] for b in fx.fn_bodies() if (b.get("impl_self") or "").startswith("extractor::Extractor<") and b.get("vis") == "Public"]
    entries += [n for n in ("extractor::new", "new") if n in fx.bodies]
    # the contract / config constructors an external caller needs are trivial; the property is about analysing code
    pipe = cg.reachable(entries)
    bodies = set(pipe)
    frontier = list(pipe)
    while frontier:
        p = frontier.pop()
        for c in fx.closures_of.get(p, []):
            if c not in bodies:
                bodies.add(c)
                frontier.append(c)
    return entries, bodies


def place_root(m, op, depth=0):
    """Normalised origin place of a (reference) operand: follows `_a = &place`, copies and reborrows."""
    if op.get("k") not in ("copy", "move") or depth > 8:
        return None
    p = op["p"]
    l = p["l"]
    proj = [e for e in p["proj"]]
    ds = [d for d in m.defs().get(l, []) if d[0] in ("assign", "call")]
    if proj == ["*"] and len(ds) == 1 and ds[0][0] == "assign" and ds[0][3].get("r") in ("Ref", "CopyForDeref"):
        # (*x) where x = &Q : the value stored in Q
        q = ds[0][3]["p"]
        if not q["proj"]:
            return place_root(m, {"k": "copy", "p": {"l": q["l"], "proj": []}}, depth + 1)
        return (q["l"], str(q["proj"]))
    if not proj and len(ds) > 1 and all(d[0] == "assign" for d in ds):
        # pattern bindings are assigned once per candidate arm / guard copy: accept when every definition names the same place
        roots = set()
        for d in ds:
            rv = d[3]
            if rv.get("r") in ("Ref", "CopyForDeref") :
                q = rv["p"]
                if q["proj"] in ([], ["*"]):
                    roots.add(place_root(m, {"k": "copy", "p": {"l": q["l"], "proj": []}}, depth + 1))
                else:
                    roots.add((q["l"], str(q["proj"])))
            elif rv.get("r") == "Use":
                roots.add(place_root(m, rv["op"], depth + 1))
            else:
                roots.add(None)
        if len(roots) == 1 and None not in roots:
            return next(iter(roots))
    if not proj and len(ds) == 1 and ds[0][0] == "assign":
        rv = ds[0][3]
        if rv.get("r") in ("Ref", "CopyForDeref", "RawPtr"):
            q = rv["p"]
            inner = place_root(m, {"k": "copy", "p": {"l": q["l"], "proj": []}}, depth + 1) if not q["proj"] or q["proj"] == ["*"] else None
            if inner is not None and q["proj"] in ([], ["*"]):
                return inner
            return (q["l"], str(q["proj"]))
        if rv.get("r") == "Use":
            return place_root(m, rv["op"], depth + 1)
        if rv.get("r") == "Cast":
            return place_root(m, rv["op"], depth + 1)
    if not proj and len(ds) == 1 and ds[0][0] == "call":
        g = F.strip_generics(F.Mir.callee_generic(ds[0][3]) or "").split("::")[-1]
        if g in ("deref", "as_ref", "borrow", "as_slice", "deref_mut", "as_mut_slice", "as_mut") and ds[0][3]["args"]:
            return place_root(m, ds[0][3]["args"][0], depth + 1)
    return (l, str([e for e in proj if e != "*"]))


def len_guarded(ta, name, m, block, container, index):
    """Is the positional access guarded by a dominating test of the same container's length (or emptiness)?"""
    croot = place_root(m, container)
    if croot is None:
        return False
    k = F.op_const(index)
    idx_local = None
    if k is None:
        il = F.op_base_local(index)
        if il is not None:
            # a RangeFrom / Range aggregate with a constant start needs len >= start
            for d in m.defs().get(il, []):
                if d[0] == "assign" and d[3].get("r") == "Aggregate" and str(d[3].get("adt", "")).startswith("std::ops::Range"):
                    s0 = F.op_const(d[3]["ops"][0]) if d[3]["ops"] else None
                    if s0 is not None and len(d[3]["ops"]) == 1:
                        k = s0 - 1
            if k is None:
                idx_local = ta.root_of(name, il)
    m.dominators()

    def len_of_same(l):
        """is local l the result of len() on the same container?"""
        r = ta.root_of(name, l)
        for d in m.defs().get(r, []):
            if d[0] == "call":
                g = F.strip_generics(F.Mir.callee_generic(d[3]) or "").split("::")[-1]
                if g == "len" and d[3]["args"] and place_root(m, d[3]["args"][0]) == croot:
                    return True
        return False

    for bl in m.blocks:
        t = bl["term"]
        if t["t"] != "SwitchInt" or bl["cleanup"]:
            continue
        dl = F.op_base_local(t["discr"])
        if dl is None:
            continue
        false_t = next((tg for v, tg in t["cases"] if v == "0"), None)
        true_t = t["otherwise"]
        # switch directly on the length
        if len_of_same(dl) and k is not None:
            for v, tg in t["cases"]:
                if int(v) > k and tg != t["otherwise"] and m.dominates(tg, block):
                    return True
            continue
        for d in m.defs().get(dl, []):
            if d[0] == "call":
                g = F.strip_generics(F.Mir.callee_generic(d[3]) or "").split("::")[-1]
                if g == "is_empty" and d[3]["args"] and place_root(m, d[3]["args"][0]) == croot and k == 0:
                    if false_t is not None and false_t != true_t and m.dominates(false_t, block):
                        return True
            if d[0] != "assign" or d[3].get("r") != "BinaryOp":
                continue
            op = d[3]["op"]
            a, b = d[3]["a"], d[3]["b"]
            la, lb = F.op_base_local(a), F.op_base_local(b)
            ca, cb = F.op_const(a), F.op_const(b)
            side = None  # 'T' or 'F' side on which the access is in range
            if la is not None and len_of_same(la) and cb is not None and k is not None:
                n = cb
                side = {"Eq": "T" if n > k else None, "Ne": "F" if n > k else None, "Gt": "T" if n >= k else None, "Ge": "T" if n > k else None, "Lt": "F" if n > k else None, "Le": "F" if n >= k else None}.get(op)
            elif lb is not None and len_of_same(lb) and ca is not None and k is not None:
                n = ca
                side = {"Eq": "T" if n > k else None, "Ne": "F" if n > k else None, "Lt": "T" if n >= k else None, "Le": "T" if n > k else None, "Gt": "F" if n > k else None, "Ge": "F" if n >= k else None}.get(op)
            elif idx_local is not None and la is not None and lb is not None:
                if ta.root_of(name, la) == idx_local and len_of_same(lb):
                    side = {"Lt": "T", "Ge": "F"}.get(op)
                elif ta.root_of(name, lb) == idx_local and len_of_same(la):
                    side = {"Gt": "T", "Le": "F"}.get(op)
            if side is None:
                continue
            tgt = true_t if side == "T" else false_t
            other = false_t if side == "T" else true_t
            if tgt is not None and tgt != other and m.dominates(tgt, block):
                return True
    return False


LEGACY_KEYS = {}


def site_key(name, kind, ordinal):
    return f"{F.strip_generics(name) if not name.startswith('<') else name}|{kind}#{ordinal}"


_INT_RANGE = {"u8": (0, 255), "u16": (0, 65535), "u32": (0, 2**32 - 1), "i8": (-128, 127), "i16": (-32768, 32767), "i32": (-2**31, 2**31 - 1), "usize": (0, 2**64 - 1), "u64": (0, 2**64 - 1)}


def _pat_values(pat, fx):
    """The finite set of integers a literal / range / or-pattern admits (None if it is not such a pattern or too large)."""
    if not isinstance(pat, dict):
        return None
    p = pat.get("p")

    def lit(e):
        e = F.strip(e) if isinstance(e, dict) and "k" in e else e
        if isinstance(e, dict) and e.get("k") == "Lit" and e.get("value", {}).get("lit") == "int":
            return int(e["value"]["v"])
        if isinstance(e, dict) and e.get("lit") == "int":
            return int(e["v"])
        if isinstance(e, dict) and e.get("k") == "Path":
            d = F.path_def(e)
            return fx.const_value(d) if d else None
        return None

    if p == "Lit":
        v = lit(pat.get("value"))
        return {v} if v is not None else None
    if p == "Range":
        lo, hi = lit(pat.get("lo") or pat.get("start")), lit(pat.get("hi") or pat.get("end"))
        if lo is None or hi is None or hi - lo > 70000:
            return None
        incl = pat.get("inclusive", pat.get("end_kind", "Included") in (True, "Included"))
        return set(range(lo, hi + 1 if incl else hi))
    if p == "Or":
        out = set()
        for q in pat.get("pats", []):
            v = _pat_values(q, fx)
            if v is None:
                return None
            out |= v
        return out
    return None


def arm_bounded(fx, name, span):
    """The overflow-checked operation at `span` sits in a match arm whose pattern pins its variable operand to finitely many
    values, and for every one of them each arithmetic step of the expression stays inside its type's range."""
    b = fx.body(name)
    if not b or not b.get("hir"):
        return False
    root = b["hir"]["value"]
    node = nps = None
    for x, ps in F.walk(root):
        if x.get("k") in ("Binary", "AssignOp") and x.get("span") == span:
            node, nps = x, ps
    if node is None:
        return False

    class Over(Exception):
        pass

    def ev(e, env):
        e = F.strip(e)
        k = e.get("k")
        if k == "Lit" and e.get("value", {}).get("lit") == "int":
            return int(e["value"]["v"])
        if k == "Path":
            if e.get("res") == "local":
                if e["local"] in env:
                    return env[e["local"]]
                raise KeyError
            d = F.path_def(e)
            v = fx.const_value(d) if d else None
            if v is None:
                raise KeyError
            return v
        if k == "Unary" and e.get("op") == "Deref":
            return ev(e["e"], env)
        if k == "Cast":
            return ev(e["e"], env)
        if k == "Binary":
            l, r = ev(e["l"], env), ev(e["r"], env)
            v = {"Add": l + r, "Sub": l - r, "Mul": l * r}.get(e["op"])
            if v is None:
                raise KeyError
            lo, hi = _INT_RANGE.get(e.get("ty"), (None, None))
            if lo is None or not (lo <= v <= hi):
                raise Over
            return v
        raise KeyError

    for i in range(len(nps) - 1, -1, -1):
        anc, key = nps[i]
        if isinstance(anc, dict) and "pat" in anc and "body" in anc and i > 0 and isinstance(nps[i - 1][0], dict) and nps[i - 1][0].get("k") == "Match":
            m = nps[i - 1][0]
            sl = F.local_of(F.strip(m["scrut"]))
            if sl is None:
                sc = F.strip(m["scrut"])
                if sc.get("k") == "Unary" and sc.get("op") == "Deref":
                    sl = F.local_of(F.strip(sc["e"]))
            vals = _pat_values(anc["pat"], fx)
            if sl is None or vals is None or anc.get("guard") is not None:
                continue
            try:
                for v in vals:
                    ev(node if node.get("k") == "Binary" else node, {sl: v})
                return True
            except (KeyError, Over):
                return False

    # not inside a pinning arm: the variable operands may still be locals that only ever hold finitely many values - every
    # assignment to them is a literal, a copy of such a local, or an expression inside an arm that pins its variable
    def pinned_env(ps_):
        for i in range(len(ps_) - 1, -1, -1):
            anc, key = ps_[i]
            if isinstance(anc, dict) and "pat" in anc and "body" in anc and i > 0 and isinstance(ps_[i - 1][0], dict) and ps_[i - 1][0].get("k") == "Match":
                m = ps_[i - 1][0]
                sl = F.local_of(F.strip(m["scrut"]))
                if sl is None:
                    sc = F.strip(m["scrut"])
                    if sc.get("k") == "Unary" and sc.get("op") == "Deref":
                        sl = F.local_of(F.strip(sc["e"]))
                vals = _pat_values(anc["pat"], fx)
                if sl is not None and vals is not None and anc.get("guard") is None:
                    return sl, vals
        return None

    def value_set(lid, depth=0):
        if depth > 3:
            return None
        out = set()
        found = False
        for x, ps in F.walk(root):
            rhs = None
            if x.get("s") == "Let" and "init" in x and x["pat"].get("p") == "Bind" and x["pat"].get("local") == lid:
                rhs = x["init"]
            elif x.get("k") == "Assign" and F.local_of(F.strip(x["l"])) == lid:
                rhs = x["r"]
            elif x.get("k") == "AssignOp" and F.local_of(F.strip(x["l"])) == lid:
                return None
            if rhs is None:
                continue
            found = True
            r = F.strip(rhs)
            try:
                out.add(ev(r, {}))
                continue
            except (KeyError, Over):
                pass
            if r.get("k") == "Path" and r.get("res") == "local":
                sub = value_set(r["local"], depth + 1)
                if sub is None:
                    return None
                out |= sub
                continue
            pe = pinned_env(ps)
            if pe is None:
                return None
            try:
                for v in pe[1]:
                    out.add(ev(r, {pe[0]: v}))
            except (KeyError, Over):
                return None
        return out if found and len(out) <= 4096 else None

    operands = sorted({x["local"] for x, _ in F.walk(node) if x.get("k") == "Path" and x.get("res") == "local"})
    if len(operands) == 1:
        vs = value_set(operands[0])
        if vs:
            try:
                for v in vs:
                    ev(node, {operands[0]: v})
                return True
            except (KeyError, Over):
                return False
    return False


def state_invariant_holds(fx):
    """Every type variable handed out by the type-checker state has an entry in BOTH of its maps (the value it stands for and
    its inference set): each function of the state that takes a fresh variable from the source inserts that very variable into
    both maps, unconditionally. Rows of class `state-invariant` are discharged only while this holds."""
    ST = "tc::state::TypeCheckerState"
    adt = fx.adt(ST)
    if not adt:
        return False, "the type-checker state type is gone"
    maps = [f["name"] for f in adt["variants"][0]["fields"] if "HashMap<tc::state::type_variable::TypeVariable" in (f.get("ty") or "").replace(" ", "") or "HashMap<tc::state::type_variable::TypeVariable," in (f.get("ty") or "")]
    maps = [f["name"] for f in adt["variants"][0]["fields"] if (f.get("ty") or "").replace(" ", "").startswith("std::collections::HashMap<tc::state::type_variable::TypeVariable,")]
    if len(maps) < 2:
        return False, f"expected the value map and the inference map keyed by type variable (found {maps})"
    n_alloc = 0
    for b in fx.fn_bodies():
        if b.get("impl_self") != ST or not b.get("hir"):
            continue
        # read together with the state's own private methods (a shared "start tracking this variable" helper)
        root = F.inline_module_helpers(fx, b, max_nodes=400, methods=True)["hir"]["value"]
        for m, _ in F.walk(root):
            if m.get("s") != "Let" or "init" not in m or m["pat"].get("p") != "Bind":
                continue
            init = F.strip(m["init"])
            if not (init.get("k") == "MethodCall" and init["method"] == "fresh" and "TypeVariableSource" in (init.get("recv_ty") or "")):
                continue
            n_alloc += 1
            tv = m["pat"]["local"]
            filled = set()
            for c, cps in F.calls(root):
                if c.get("k") == "MethodCall" and c["method"] in ("entry", "insert") and c["args"] and F.local_of(F.strip(c["args"][0])) == tv:
                    recv = F.strip(c["recv"])
                    if recv.get("k") == "Field" and recv.get("field") in maps and not T_path_conditions(cps, c):
                        filled.add(recv["field"])
            if filled != set(maps):
                return False, f"`{b['def']}` takes a fresh type variable but does not (unconditionally) enter it into {sorted(set(maps) - filled)}"
    if n_alloc < 2:
        return False, f"only {n_alloc} allocation site(s) of type variables found in the state (2 expected)"
    return True, ""


def T_path_conditions(ps, n):
    from .. import terms as T

    return T.path_conditions(ps, n) or [1 for a, _ in ps if isinstance(a, dict) and a.get("k") in ("If", "Match", "Loop", "Closure") and not a.get("exp") and "Desugar" not in str(a.get("source", ""))]


def verify_seen_cut(fx, cg, comp):
    """A recursion whose cycles are cut by a set of already-seen items: `if seen.contains(&x) [&& pred(x)] { return .. }`
    followed by `seen.insert(x)`. Every recursive call must sit in a match arm on x whose variants pred() accepts."""
    from ..vmmodel import _diverges, kind_filter
    from .. import terms as T

    for name in sorted(comp):
        b = fx.body(name)
        if not b or not b.get("hir"):
            continue
        root = b["hir"]["value"]
        guard = None
        for n, ps in F.exprs(root, "If"):
            if "else" in n or not _diverges(n["then"]):
                continue
            conj = []
            stack = [n["cond"]]
            while stack:
                c = stack.pop()
                while c.get("k") in ("DropTemps", "Use"):
                    c = c["e"]
                if c.get("k") == "Binary" and c.get("op") == "And":
                    stack += [c["l"], c["r"]]
                else:
                    conj.append(c)
            cont = [c for c in conj if c.get("k") == "MethodCall" and "HashSet" in (F.callee(c) or "") and c.get("method") == "contains"]
            if len(cont) == 1:
                guard = (n, cont[0], [c for c in conj if c is not cont[0]])
                break
            # `let seen_before = !seen.insert(x.clone()); if seen_before && .. { return }`: insert answers whether the item was new
            for c in conj:
                lid = F.local_of(F.strip(c))
                if lid is None:
                    continue
                init = None
                for m_, _ in F.walk(root):
                    if m_.get("s") == "Let" and "init" in m_ and m_["pat"].get("p") == "Bind" and m_["pat"].get("local") == lid:
                        init = F.strip(m_["init"])
                if init is not None and init.get("k") == "Unary" and init.get("op") == "Not":
                    ins = F.strip(init["e"])
                    if ins.get("k") == "MethodCall" and ins.get("method") == "insert" and "HashSet" in (F.callee(ins) or "") and ins.get("args"):
                        arg = F.strip(ins["args"][0])
                        while arg.get("k") == "MethodCall" and arg.get("method") in ("clone", "to_owned") and not arg.get("args"):
                            arg = F.strip(arg["recv"])
                        guard = (n, {"args": [arg], "recv": ins["recv"], "insert_is_the_test": True}, [c2 for c2 in conj if c2 is not c])
                        break
            if guard is not None:
                break
        if guard is None:
            continue
        n, cont, rest = guard
        x = F.local_of(F.strip(cont["args"][0]))
        seen = F.local_of(F.strip(cont["recv"]))
        inserted = cont.get("insert_is_the_test") or any(
            c.get("k") == "MethodCall" and c.get("method") == "insert" and F.local_of(F.strip(c["recv"])) == seen and F.local_of(F.strip(c["args"][0])) == x
            for c, _ in F.walk(root)
        )
        if x is None or not inserted:
            return False, "the item tested with contains() is not the item inserted into the seen set", {"function": name}
        # the set only grows while the conversion runs: taking an item out again (a path-scoped cut) still ends every cycle, but a
        # type shared between several positions of its parent is then converted once per occurrence - time and memory
        # exponential in the nesting depth
        shrinks = [c["method"] for c, _ in F.walk(root) if c.get("k") == "MethodCall" and c.get("method") in ("remove", "clear", "retain", "drain", "take", "pop") and F.local_of(F.strip(c["recv"])) == seen]
        if shrinks:
            return False, f"the seen set is also shrunk (`{shrinks[0]}`): the cut becomes path-scoped and shared sub-types are converted once per occurrence (exponential in the nesting depth)", {"function": name}
        # the enum of x: from the match on x in this function
        adt = None
        for m, _ in F.exprs(root, "Match"):
            if F.local_of(F.strip(m["scrut"])) == x:
                for a in m["arms"]:
                    pv = F.pat_variants(a["pat"])
                    if pv:
                        adt = sorted(pv)[0][0]
                        break
            if adt:
                break
        if adt is None or fx.adt(adt) is None:
            return False, "cannot find the match on the guarded item", {"function": name}
        allv = [v["name"] for v in fx.adt(adt)["variants"]]
        accepted = set(allv)
        for c in rest:
            f = kind_filter(c, allv, fx, 0, adt)
            if f is None:
                return False, "unrecognised extra condition in the seen-set guard", {"function": name}
            accepted &= f
        # recursive calls and the variants they sit under
        rec_variants = set()
        n_calls = 0
        for c, cps in F.calls(root):
            if not (set(cg.resolve_local(c)) & set(comp)):
                continue
            n_calls += 1
            under = None
            for i, (anc, key) in enumerate(cps):
                if "pat" in anc and "body" in anc and key == "body" and i > 0 and cps[i - 1][0].get("k") == "Match":
                    m = cps[i - 1][0]
                    if F.local_of(F.strip(m["scrut"])) != x:
                        continue
                    pv = F.pat_variants(anc["pat"])
                    if pv and all(a == adt for a, _ in pv):
                        under = {v for _, v in pv}
                    else:
                        covered = set()
                        for a in m["arms"]:
                            if a is anc:
                                break
                            v = F.pat_variants(a["pat"])
                            if v and "guard" not in a:
                                covered |= {y for _, y in v}
                        under = set(allv) - covered
            rec_variants |= set(allv) if under is None else under
            # the recursive call hands on THIS function's seen set (a fresh or different set forgets the ancestors, so a cycle
            # through that position is never cut); calls that go through another member of the cycle are checked there
            if name in cg.resolve_local(c):
                passes_seen = any(F.local_of(F.strip(a)) == seen for a in c.get("args", []))
                if not passes_seen:
                    return False, f"the recursive call at {F.loc(c['span'])} does not hand on the seen set it was given (a fresh set forgets the ancestors: a cycle through that position is never cut)", {"function": name}
        missing = sorted(rec_variants - accepted)
        # variants the guard cuts although they do not recurse: harmless only if their arm never yields a value (an error arm)
        over = []
        for m, _ in F.exprs(root, "Match"):
            if F.local_of(F.strip(m["scrut"])) != x:
                continue
            for a in m["arms"]:
                pv = F.pat_variants(a["pat"])
                vs = {v for _, v in pv} if pv else set()
                for v in sorted((accepted - rec_variants) & vs):
                    leaves = [F.strip(y) for y in T.result_leaves(a["body"])]
                    only_err = T.diverges(a["body"]) or (bool(leaves) and all(y.get("k") == "Call" and (F.path_def(y["f"]) or "").endswith("::Err") for y in leaves))
                    if not only_err:
                        over.append(v)
        smp = {"function": name, "guarded_enum": adt, "guard_accepts": sorted(accepted), "recursive_variants": sorted(rec_variants), "recursive_calls": n_calls, "over_accepted": sorted(set(over))}
        if n_calls == 0:
            return False, "no recursive call found under the guarded match", smp
        if missing:
            return False, f"variant(s) {missing} recurse but are not cut by the guard", smp
        return True, "", smp
    return False, "no `seen.contains(..)` guard with an early return found in the cycle", {}


def follow_rows_into_helpers(fx, rep, rows, used_rows):
    """A reviewed site that was moved, as it stands, out of its function into a helper keeps its row: the helper has no rows of
    its own, every function that calls the helper has a row for a site of the same kind and ordinal, that row matches no site
    any more (the site left the caller), and all those rows say the same. Anything else stays a violation."""
    import re

    def norm(k):
        return re.sub(r"\{closure#\d+\}", "{closure}", k)

    cg = F.CallGraph(fx)
    callers = {}
    for src, dsts in cg.edges.items():
        for d in dsts:
            callers.setdefault(tables._parent_fn(d), set()).add(tables._parent_fn(src))
    stale = {k for k in rows if k not in used_rows}
    stale_by = {}
    for k in stale:
        fn, rest = tables._fn_of_key(k)
        par = tables._parent_fn(fn)
        stale_by.setdefault(par, {})[norm(fn[len(par):] + rest)] = k
    followed, keep = [], []
    for v in rep.violations:
        if v["rule"] not in ("R01.1", "R01.2") or "|" not in v["key"]:
            keep.append(v)
            continue
        site = v["key"].split("|", 1)[1]
        fn, rest = tables._fn_of_key(site)
        par = tables._parent_fn(fn)
        cs = callers.get(par, set()) - {par}
        suffix = norm(fn[len(par):] + rest)
        if par in rows.table_parents or not cs or not all(suffix in stale_by.get(c, {}) for c in cs):
            keep.append(v)
            continue
        olds = [stale_by[c][suffix] for c in sorted(cs)]
        if len({rows.rows[o][1] for o in olds}) != 1:
            keep.append(v)
            continue
        used_rows.update(olds)
        rep.discharged += 1
        followed.append({"site": site, "rows": olds, "class": rows.rows[olds[0]][1]})
    rep.violations[:] = keep
    if followed:
        rep.extra["rows_followed_into_helpers"] = followed


def check(fx, rep, tier):
    cg = F.CallGraph(fx)
    entries, bodies = reachable_bodies(fx, cg)
    if not rep.anchor("R01.1", len(entries) >= 6, f"the public stage entry points of the extractor (found {len(entries)})"):
        return rep.finish("anchor lost", "n/a")
    bodies = {b for b in bodies if not (fx.body(b) or {}).get("from_expansion")}
    rep.extra["reachable_bodies"] = len(bodies)
    ta = Taint(fx, cg, bodies)
    ta.run()
    rep.extra["taint_rounds"] = ta.rounds
    rep.extra["taint_sources"] = len({(a, c) for a, b, c in ta.sources})
    rep.extra["tainted_fields"] = sorted(f"{a}::{v}.{f}" for a, v, f in ta.tf)
    rep.extra["functions_returning_taint"] = len(ta.tret)
    rows = tables.Keyed("panic_sites.tsv", fx)
    used_rows = set()

    n_assert = n_call = n_auto = n_table = 0
    for name in ta.names:
        m = ta.mirs[name]
        rep.fn(name)
        ordinals = {}
        m.dominators()
        for bl in m.blocks:
            if bl["cleanup"] or bl["i"] not in m.reachable:
                continue
            t = bl["term"]
            w = F.loc(t.get("span"))
            # ---------------------------------------------------------------- assertions
            if t["t"] == "Assert":
                kind = t["kind"]
                if kind.startswith(IGNORED_ASSERTS):
                    continue
                n_assert += 1
                ordinals[kind] = ordinals.get(kind, 0) + 1
                key = site_key(name, kind, ordinals[kind])
                ops = t["ops"]
                if kind.startswith("Overflow"):
                    tainted = [o for o in ops if ta.op_tainted(name, o)]
                    # "a counter of in-memory objects cannot reach the maximum" holds for 64-bit integers only: an overflow-checked
                    # operation on a narrower integer with a run-time operand is reached by ordinary counts (255 visits, 65 536 items)
                    ltys = {l_["i"]: l_.get("ty") for l_ in fx.bodies[name]["mir"]["locals"]} if name in fx.bodies else {}
                    narrow = None
                    for o in ops:
                        oty = o.get("ty") if o.get("k") == "const" else (ltys.get(F.op_base_local(o)) if not o.get("proj") else None)
                        if oty in ("u8", "u16", "u32", "i8", "i16", "i32"):
                            narrow = oty
                    if narrow and not all(o.get("k") == "const" for o in ops) and not tainted:
                        runtime = [o for o in ops if o.get("k") != "const"]
                        if arm_bounded(fx, name, t.get("span")):
                            n_auto += 1
                            rep.oblige(True, "R01.2", key, w, "", sample={"rule": "R01.2", "site": key, "width": narrow, "discharge": "every value the enclosing match arm admits keeps each step inside the type's range"} if n_auto <= 14 else None)
                            continue
                        if not all(F.op_base_local(o) is not None and ta.guarded(name, F.op_base_local(o), bl["i"]) for o in runtime):
                            row = rows.get(key)
                            if row is not None:
                                used_rows.add(key)
                                n_table += 1
                            if row is not None and row[1].startswith("discharged-by:"):
                                dep = row[1].split(":", 1)[1]
                                rep.oblige(dependency_holds(fx, dep), "R01.2", key, w, f"overflow-checked `{kind[9:-1].lower()}` on a `{narrow}` in `{name}` is only safe while the rules of {dep} hold, and they currently report a violation", sample={"rule": "R01.2", "site": key, "width": narrow, "class": row[1]})
                                continue
                            rep.oblige(row is not None, "R01.2", key, w, f"overflow-checked `{kind[9:-1].lower()}` on a `{narrow}` in `{name}` with a run-time operand and no dominating bound: a count of this width is reached by ordinary inputs (the 256th visit, the 65 536th item), and the operation panics there", sample={"rule": "R01.2", "site": key, "width": narrow, "discharge": f"table: {row[1]}" if row else None})
                            continue
                    unguarded = []
                    for o in tainted:
                        l = F.op_base_local(o)
                        if l is None or not ta.guarded(name, l, bl["i"]):
                            unguarded.append(o)
                    if not unguarded:
                        n_auto += 1
                        rep.obligations += 1
                        rep.discharged += 1
                        rep.inst("R01.2", key, nontrivial=bool(tainted), sample={"rule": "R01.2", "site": key, "at": w, "discharge": "guarded by a dominating comparison" if tainted else "operands are resource-bounded (untainted)"} if tainted else None)
                        continue
                    row = rows.get(key)
                    if row is not None:
                        used_rows.add(key)
                        n_table += 1
                        rep.oblige(True, "R01.2", key, w, "", sample={"rule": "R01.2", "site": key, "discharge": f"table: {row[1]}"})
                        continue
                    origin = ta.why.get((name, F.op_base_local(unguarded[0])), "?")
                    rep.oblige(
                        False,
                        "R01.2",
                        key,
                        w,
                        f"overflow-checked `{kind[9:-1].lower()}` in `{name}` on a value derived from an attacker-chosen constant with no bound on the way (origin: {origin}): this panics (overflow checks are on in every profile) for operands near usize::MAX",
                    )
                elif kind in ("DivisionByZero", "RemainderByZero"):
                    # the assertion's operand is the dividend; the divisor is the operand compared with 0 in the asserted condition
                    d = None
                    cl = F.op_base_local(t["cond"]) if t.get("cond") else None
                    for df in m.defs().get(cl, []) if cl is not None else []:
                        if df[0] == "assign" and df[3].get("r") == "BinaryOp" and df[3]["op"] == "Eq":
                            d = df[3]["a"] if F.op_const(df[3]["b"]) == 0 else df[3]["b"]
                    if d is None:
                        d = ops[0] if ops else None
                    c = F.op_const(d) if d else None
                    ok = c is not None and c != 0
                    how = "non-zero constant divisor"
                    if not ok and d is not None:
                        l = F.op_base_local(d)
                        root = ta.root_of(name, l) if l is not None else None
                        for df in m.defs().get(root, []) if root is not None else []:
                            if df[0] == "call" and (F.Mir.callee_generic(df[3]) or "").endswith("Watchdog::poll_every"):
                                ok = True
                                how = "the watchdog's poll interval (0 is not a valid configuration)"
                            if df[0] == "assign" and df[3].get("r") == "Use" and F.op_const(df[3]["op"]) not in (None, 0):
                                ok = True
                        # the divisor is a parameter (a poll helper): every caller in the crate hands it the poll interval
                        if not ok and root is not None and 1 <= root <= m.arg_count:
                            callers_ok = []
                            for cname in sorted(cg.callers_of(name)):
                                cm = ta.mirs.get(cname)
                                if cm is None:
                                    continue
                                for bl2 in cm.blocks:
                                    t2 = bl2["term"]
                                    if t2["t"] != "Call" or name not in ta.resolve(t2):
                                        continue
                                    a2 = t2["args"][root - 1] if root - 1 < len(t2["args"]) else None
                                    l2 = F.op_base_local(a2) if a2 else None
                                    r2 = ta.root_of(cname, l2) if l2 is not None else None
                                    from_poll = any(d2[0] == "call" and (F.Mir.callee_generic(d2[3]) or "").endswith("Watchdog::poll_every") for d2 in cm.defs().get(r2, [])) if r2 is not None else False
                                    callers_ok.append(from_poll)
                            if callers_ok and all(callers_ok):
                                ok = True
                                how = "the watchdog's poll interval, handed to a poll helper by every caller"
                    if ok:
                        n_auto += 1
                        rep.oblige(True, "R01.1", key, w, "", sample={"rule": "R01.1", "site": key, "discharge": how} if n_auto <= 3 else None)
                        continue
                    row = rows.get(key)
                    if row is not None:
                        used_rows.add(key)
                        n_table += 1
                    rep.oblige(row is not None, "R01.1", key, w, f"`{kind}` assertion in `{name}` whose divisor is neither a non-zero constant nor the poll interval and has no reviewed discharge")
                else:
                    # bounds checks and anything else
                    idx_t = any(ta.op_tainted(name, o) for o in ops[1:2])
                    row = rows.get(key)
                    if row is not None:
                        used_rows.add(key)
                        n_table += 1
                    rep.oblige(row is not None and not idx_t, "R01.1", key, w, f"`{kind}` in `{name}`" + (" with an index derived from an attacker-chosen constant" if idx_t else " without a reviewed discharge"))
                continue
            if t["t"] != "Call":
                continue
            gen = F.Mir.callee_generic(t) or ""
            short = PANIC_CALLS.get(gen)
            lastseg = F.strip_generics(gen).split("::")[-1]
            # ---------------------------------------------------------------- allocation sinks (R01.2)
            if lastseg in ALLOC_SINKS and ("Vec" in gen or "String" in gen or "VecDeque" in gen or "HashMap" in gen or "vec::from_elem" in gen or "VectorMap" in gen or "DisjointSet" in gen):
                ai = ALLOC_SINKS[lastseg]
                args = t["args"]
                if ai < len(args) and ta.op_tainted(name, args[ai]):
                    l = F.op_base_local(args[ai])
                    if l is None or not ta.guarded(name, l, bl["i"]):
                        ordinals["alloc"] = ordinals.get("alloc", 0) + 1
                        key = site_key(name, f"alloc:{lastseg}", ordinals["alloc"])
                        row = rows.get(key)
                        if row is not None:
                            used_rows.add(key)
                        rep.oblige(row is not None, "R01.2", key, w, f"`{lastseg}` in `{name}` sizes an allocation with a value derived from an attacker-chosen constant and no bound: memory exhaustion / capacity overflow panic")
            res = (t["func"].get("resolved") or "") if t["func"].get("k") == "const" else ""
            me = re.match(r"^<ethnum::(U256|I256) as std::ops::(Add|Sub|Mul|Div|Rem|Shl|Shr|Neg|AddAssign|SubAssign|MulAssign|DivAssign|RemAssign|ShlAssign|ShrAssign)(<.*>)?>::", res) or re.search(
                r"ethnum::(uint|int)::ops::<impl std::ops::(Add|Sub|Mul|Div|Rem|Shl|Shr|Neg|AddAssign|SubAssign|MulAssign|DivAssign|RemAssign|ShlAssign|ShrAssign)(<.*?>)? for (&)?ethnum::[UI]256>::", res
            )
            if me:
                opn = me.group(2).replace("Assign", "")
                ordinals["ethnum"] = ordinals.get("ethnum", 0) + 1
                key = site_key(name, f"ethnum:{opn}", ordinals["ethnum"])
                n_call += 1
                if opn in ("Shl", "Shr", "Div", "Rem"):
                    # total only behind the shift<256 / non-zero divisor guards, which C09's R09.3 checks
                    ok_dep = dependency_holds(fx, "C09")
                    rep.oblige(ok_dep, "R01.1", key, w, f"256-bit `{opn}` in `{name}` panics for a shift >= 256 / a zero divisor and the guards that C09 checks do not hold", sample={"rule": "R01.1", "site": key, "class": "discharged-by:C09"})
                elif opn == "Neg" and t["args"] and t["args"][0].get("k") == "const":
                    # the negation of a named constant (`-I256::ONE`): no run-time operand reaches it
                    rep.oblige(True, "R01.1", key, w, "", sample=None)
                else:
                    row = rows.get(key)
                    if row is not None:
                        used_rows.add(key)
                    rep.oblige(row is not None, "R01.1", key, w, f"256-bit `{opn}` operator in `{name}` panics on overflow when debug assertions are on (use the wrapping form): attacker-chosen operands reach it")
                continue
            if short is None:
                continue
            if short == "step_by" and len(t["args"]) == 2 and F.op_const(t["args"][1]) not in (None, 0):
                n_auto += 1
                rep.obligations += 1
                rep.discharged += 1
                continue
            n_call += 1
            # an unwrap / expect site is named by WHAT it unwraps (the call that produced the Option / Result), so that removing
            # or adding an unrelated unwrap in the same function does not renumber the reviewed ones
            qual = short
            if short in ("unwrap", "expect", "unwrap_err", "expect_err", "unwrap_unchecked") and t["args"]:
                a0_ = F.op_base_local(t["args"][0])
                prod = None
                for d_ in m.defs().get(ta.root_of(name, a0_), []) if a0_ is not None else []:
                    if d_[0] == "call":
                        prod = F.strip_generics(F.Mir.callee_generic(d_[3]) or "").split("::")[-1]
                qual = f"{short}@{prod or 'value'}"
            ordinals[qual] = ordinals.get(qual, 0) + 1
            key = site_key(name, qual, ordinals[qual])
            LEGACY_KEYS.setdefault(site_key(name, short, ordinals.setdefault("legacy:" + short, 0) + 1), key)
            ordinals["legacy:" + short] += 1
            # indexing with a tainted index is a violation regardless of the table
            if short in ("index", "index_mut", "vec_remove", "vec_insert", "vec_swap_remove", "slice_swap", "split_at") and len(t["args"]) > 1:
                idx_t = ta.op_tainted(name, t["args"][1])
                if idx_t:
                    l = F.op_base_local(t["args"][1])
                    if l is None or not ta.guarded(name, l, bl["i"]):
                        rep.oblige(False, "R01.2", key + ":tainted-index", w, f"`{short}` in `{name}` uses a position derived from an attacker-chosen constant with no bound: out-of-range panic")
                        continue
            # positional accesses that cannot panic / are guarded by a dominating length test
            full = (t["func"].get("fn_full") or "") if t["func"].get("k") == "const" else ""
            if short in ("index", "index_mut") and "std::ops::RangeFull" in full:
                n_auto += 1
                rep.obligations += 1
                rep.discharged += 1
                continue
            if short == "vec_insert" and len(t["args"]) > 1 and F.op_const(t["args"][1]) == 0:
                n_auto += 1
                rep.obligations += 1
                rep.discharged += 1
                continue
            row = rows.get(key)
            if short in ("index", "index_mut", "vec_remove", "vec_insert", "slice_swap") and len(t["args"]) > 1 and len_guarded(ta, name, m, bl["i"], t["args"][0], t["args"][1]):
                n_auto += 1
                rep.oblige(True, "R01.1", key, w, "", sample={"rule": "R01.1", "site": key, "discharge": "dominating test of the same container's length"} if n_auto <= 12 else None)
                if row is not None:
                    used_rows.add(key)
                continue
            if short == "vec_insert" and len(t["args"]) > 1:
                # `v.insert(v.partition_point(..), x)` / the Err position of a binary search of v: a position in 0..=len
                il = F.op_base_local(t["args"][1])
                croot = place_root(m, t["args"][0])
                pos_ok = False
                for d in m.defs().get(ta.root_of(name, il), []) if il is not None else []:
                    if d[0] == "call" and F.strip_generics(F.Mir.callee_generic(d[3]) or "").split("::")[-1] == "partition_point" and d[3]["args"] and croot is not None and place_root(m, d[3]["args"][0]) == croot:
                        pos_ok = True
                if pos_ok:
                    n_auto += 1
                    rep.oblige(True, "R01.1", key, w, "", sample={"rule": "R01.1", "site": key, "discharge": "insert position is partition_point() of the same vector"} if n_auto <= 14 else None)
                    continue
            if short in ("unwrap", "expect") and t["args"]:
                # `v.first().unwrap()` / `.last()` / `.pop_front()` guarded by a length test of v
                a0 = F.op_base_local(t["args"][0])
                guarded = False
                if a0 is not None:
                    for d in m.defs().get(ta.root_of(name, a0), []):
                        if d[0] == "call":
                            g = F.strip_generics(F.Mir.callee_generic(d[3]) or "").split("::")[-1]
                            if g in ("first", "last", "front", "back", "first_mut", "last_mut", "front_mut") and d[3]["args"]:
                                guarded = len_guarded(ta, name, m, bl["i"], d[3]["args"][0], {"k": "const", "ty": "usize", "v": "0"})
                            # `v.iter().min_by_key(..)` / `.max()` / `.next()`: None only for an empty v
                            if g in ("min_by_key", "max_by_key", "min_by", "max_by", "min", "max", "next", "last") and d[3]["args"]:
                                it = F.op_base_local(d[3]["args"][0])
                                for d2 in m.defs().get(ta.root_of(name, it), []) if it is not None else []:
                                    if d2[0] == "call" and F.strip_generics(F.Mir.callee_generic(d2[3]) or "").split("::")[-1] in ("iter", "iter_mut") and d2[3]["args"]:
                                        guarded = len_guarded(ta, name, m, bl["i"], d2[3]["args"][0], {"k": "const", "ty": "usize", "v": "0"})
                if guarded:
                    n_auto += 1
                    rep.oblige(True, "R01.1", key, w, "", sample={"rule": "R01.1", "site": key, "discharge": "first()/last() under a dominating non-emptiness test"} if n_auto <= 12 else None)
                    if row is not None:
                        used_rows.add(key)
                    continue
            if row is not None and row[1] == "len-guard":
                rep.oblige(False, "R01.1", key, w, f"`{short}` in `{name}` is recorded as guarded by a length test, but no dominating test of the same container's length protects it any more: it panics for the missing case (e.g. an empty container)")
                continue
            if row is not None and row[1] == "state-invariant":
                ok_inv, why_inv = state_invariant_holds(fx)
                used_rows.add(key)
                n_table += 1
                rep.oblige(ok_inv, "R01.1", key, w, f"`{short}` in `{name}` relies on the state invariant 'every type variable has a value and an inference set', and that invariant no longer holds: {why_inv}", sample={"rule": "R01.1", "site": key, "class": "state-invariant (verified)"})
                continue
            if row is not None and row[1].startswith("discharged-by:"):
                dep = row[1].split(":", 1)[1]
                ok_dep = dependency_holds(fx, dep)
                used_rows.add(key)
                n_table += 1
                rep.oblige(ok_dep, "R01.1", key, w, f"`{short}` in `{name}` is only safe while the rules of {dep} hold, and they currently report a violation", sample={"rule": "R01.1", "site": key, "class": row[1]})
                continue
            if row is not None:
                used_rows.add(key)
                n_table += 1
                cls = row[1]
                rep.oblige(True, "R01.1", key, w, "", sample={"rule": "R01.1", "site": key, "class": cls, "reason": row[2][:100]} if n_table <= 8 else None)
            else:
                rep.oblige(
                    False,
                    "R01.1",
                    key,
                    w,
                    f"`{name}` can panic here (`{short}` → {lastseg}) on a path reachable from the analysis entry points and the site has no reviewed discharge in tables/panic_sites.tsv: attacker-chosen bytecode may take down the caller",
                )
        # ---------------------------------------------------------------- R01.4 range bounds
        for bl in m.blocks:
            if bl["cleanup"] or bl["i"] not in m.reachable:
                continue
            for s in bl["stmts"]:
                if s["s"] == "Assign" and s["rv"].get("r") == "Aggregate" and s["rv"].get("agg") == "Adt" and str(s["rv"].get("adt", "")).startswith("std::ops::Range"):
                    ops = s["rv"]["ops"]
                    if len(ops) >= 2 and ta.op_tainted(name, ops[-1]):
                        # accepted idiom: end = start (+|saturating_add) clean  — the *length* is clean
                        end_l = F.op_base_local(ops[-1])
                        start_l = F.op_base_local(ops[0])
                        ok = False
                        if end_l is not None:
                            r_end = ta.root_of(name, end_l)
                            cand = list(m.defs().get(r_end, []))
                            # `start.checked_add(clean).unwrap_or(<clean>)`: look through the unwrapping call
                            for d in list(cand):
                                if d[0] == "call":
                                    g = F.strip_generics(F.Mir.callee_generic(d[3]) or "").split("::")[-1]
                                    a = d[3]["args"]
                                    if g in ("unwrap_or", "unwrap_or_default") and a and not any(ta.op_tainted(name, x) for x in a[1:]):
                                        il = F.op_base_local(a[0])
                                        if il is not None:
                                            cand += m.defs().get(ta.root_of(name, il), [])
                            for d in cand:
                                if d[0] == "call":
                                    g = F.strip_generics(F.Mir.callee_generic(d[3]) or "").split("::")[-1]
                                    a = d[3]["args"]
                                    if g in ("saturating_add", "wrapping_add", "checked_add") and len(a) == 2:
                                        la = F.op_base_local(a[0])
                                        if la is not None and start_l is not None and ta.root_of(name, la) == ta.root_of(name, start_l) and not ta.op_tainted(name, a[1]):
                                            ok = True
                                if d[0] == "assign" and d[3].get("r") == "BinaryOp" and d[3]["op"].startswith("Add"):
                                    la = F.op_base_local(d[3]["a"])
                                    if la is not None and start_l is not None and ta.root_of(name, la) == ta.root_of(name, start_l) and not ta.op_tainted(name, d[3]["b"]):
                                        ok = True
                            if not ok and ta.guarded(name, end_l, bl["i"]):
                                ok = True
                        ordinals["range"] = ordinals.get("range", 0) + 1
                        key = site_key(name, "range", ordinals["range"])
                        row = rows.get(key)
                        if row is not None:
                            used_rows.add(key)
                            ok = True
                        rep.oblige(ok, "R01.4", key, F.loc(s["span"]), f"a range in `{name}` ends at a value derived from an attacker-chosen constant without a clean bound on its length: the loop over it is unbounded", sample={"rule": "R01.4", "site": key, "bounded": ok})
    rep.extra["assert_sites"] = n_assert
    rep.extra["panicking_call_sites"] = n_call
    rep.extra["auto_discharged"] = n_auto
    rep.extra["table_discharged"] = n_table
    rep.floor("R01.1", n_assert, 60, "arithmetic assertions in reachable code")
    rep.floor("R01.1", n_call, 30, "calls of functions that can panic in reachable code")
    rep.floor("R01.2", len(ta.sources), 5, "narrowing sources (256-bit word -> native integer)")
    follow_rows_into_helpers(fx, rep, rows, used_rows)
    stale = sorted(set(rows) - used_rows)
    rep.extra["stale_table_rows"] = stale[:20]

    # ---------------------------------------------------------------- R01.3 recursion
    rrows = tables.Keyed("recursion.tsv", fx)
    import sys

    sys.setrecursionlimit(10000)
    nodes = [n for n in bodies if n in fx.bodies]
    index = {}
    low = {}
    on = set()
    st = []
    sccs = []
    counter = [0]

    def strong(v):
        # iterative Tarjan
        work = [(v, iter(sorted(cg.edges.get(v, ()))))]
        index[v] = low[v] = counter[0]
        counter[0] += 1
        st.append(v)
        on.add(v)
        while work:
            node, it = work[-1]
            adv = False
            for w2 in it:
                if w2 not in bodies:
                    continue
                if w2 not in index:
                    index[w2] = low[w2] = counter[0]
                    counter[0] += 1
                    st.append(w2)
                    on.add(w2)
                    work.append((w2, iter(sorted(cg.edges.get(w2, ())))))
                    adv = True
                    break
                elif w2 in on:
                    low[node] = min(low[node], index[w2])
            if adv:
                continue
            work.pop()
            if work:
                parent = work[-1][0]
                low[parent] = min(low[parent], low[node])
            if low[node] == index[node]:
                comp = []
                while True:
                    x = st.pop()
                    on.discard(x)
                    comp.append(x)
                    if x == node:
                        break
                sccs.append(comp)

    for v in sorted(nodes):
        if v not in index:
            strong(v)
    rec = [c for c in sccs if len(c) > 1 or c[0] in cg.edges.get(c[0], ())]
    rep.extra["recursive_components"] = len(rec)
    tree_rows = [k for k in rrows if rrows.get(k) and rrows.get(k)[1] == "tree"]
    if tree_rows:
        for key, where, msg in value_size_unbounded_reasons(fx):
            rep.oblige(
                False,
                "R01.3",
                f"value-depth-unbounded:{key}",
                where,
                f"{len(tree_rows)} recursive traversals of value trees (and the additions on their memoised sizes) are bounded only by the value size limit, which does not hold here: {msg}",
            )
        rep.inst("R01.3", "value-depth-bound", sample={"rule": "R01.3", "tree_recursions_depending_on_the_value_size_limit": len(tree_rows)})
    for comp in sorted(rec, key=lambda c: sorted(c)[0]):
        members = sorted(F.strip_generics(x) if not x.startswith("<") else x for x in comp)
        key = members[0] + (f"(+{len(members)-1})" if len(members) > 1 else "")
        row = rrows.get(members[0])
        if row is not None and row[1].startswith("flip"):
            # bounded only while no pair of arms delegates to each other: checked by C16 R16.1
            if not dependency_holds(fx, "C16"):
                rep.oblige(False, "R01.3", f"recursion:{key}", F.loc(fx.body(sorted(comp)[0])["span"]), "the delegate recursion of merge is bounded only while C16's mirror rules hold, and they report a violation (possible delegate cycle)")
                continue
        if row is not None and row[1] == "seen-set":
            ok, why, smp = verify_seen_cut(fx, cg, comp)
            rep.oblige(
                ok,
                "R01.3",
                f"recursion-cut:{key}",
                F.loc(fx.body(sorted(comp)[0])["span"]),
                f"the recursion of {members[0]} is cut only by its seen-set guard, and that guard does not cover every recursive case: {why} — a self-referential input recurses until the native stack overflows",
                sample=dict(smp, rule="R01.3", cycle=members[:2]),
            )
            # the cut ends cycles; it does not bound the DEPTH. The recursion descends once per level of nesting of the guarded
            # items, and for types that nesting is not limited by the value size limit (a chain of slots whose types embed one
            # another nests as deep as the program is long): a depth bound needs an explicit counter compared with a limit
            depth_bounded = False
            for mname in comp:
                mb = fx.body(mname)
                if not mb or not mb.get("hir"):
                    continue
                int_params = {p_["local"] for p_ in mb["hir"]["params"] if p_.get("p") == "Bind" and (p_.get("ty") or "") in ("usize", "u32", "u64", "u16", "u8")}
                for x, _ in F.walk(mb["hir"]["value"]):
                    if x.get("k") == "Binary" and x.get("op") in ("Lt", "Le", "Gt", "Ge") and (F.local_of(F.strip(x["l"])) in int_params or F.local_of(F.strip(x["r"])) in int_params):
                        depth_bounded = True
            rep.oblige(
                depth_bounded,
                "R01.3",
                f"recursion-depth:{key}",
                F.loc(fx.body(sorted(comp)[0])["span"]),
                f"{members[0]} recurses once per level of nesting of what it converts; its seen set ends cycles but nothing bounds the depth (no counter compared with a limit), and that nesting is chosen by the input: a long enough chain exhausts the native stack",
                sample={"rule": "R01.3", "cycle": members[:2], "depth_counter": depth_bounded},
            )
        rep.oblige(
            row is not None,
            "R01.3",
            f"recursion:{key}",
            F.loc(fx.body(sorted(comp)[0])["span"]),
            f"recursive cycle {members[:3]}{'...' if len(members) > 3 else ''} is reachable from the analysis entry points and has no reviewed depth bound in tables/recursion.tsv: attacker-chosen input may exhaust the native stack",
            sample={"rule": "R01.3", "cycle": members[:3], "class": row[1] if row else None},
        )
    return rep.finish(
        "Whole-program audit over the MIR of every body reachable from the extractor's public stage entry points (closures included): every assertion and every call of a panicking function is a site; "
        "arithmetic sites are discharged by a forward may-taint analysis (sources: narrowing of 256-bit words; field-based, summary-based interprocedural propagation; sanitizers; dominating-comparison guards), "
        "division sites by constant / configuration reasoning, the rest by reviewed table rows; recursive call-graph components need a reviewed depth bound; range lengths derived from taint must be bounded.",
        "instances = assertion sites + panicking call sites + allocation/range sinks + recursive components; enumerated over the reachable MIR",
        [
            "resource-bounded assumption: native integers that count objects in memory or work done cannot reach usize::MAX; usize is 64 bits",
            "closure captures are not tracked by the taint analysis (closure parameters and captured values are treated as clean)",
            "memory exhaustion from many small allocations, native stack size for a given limit, and panics inside dependencies other than the listed std/ethnum functions are not decided",
        ],
    )
