"""C03 — halting and the configured execution bounds (control skeleton; not termination of unification).

R03.1 instruction-pointer discipline : the pointer field is written only inside the execution-thread type; `step` is called
      only by the VM's advance function, in the branch where none of the three stop conditions holds — visit limit reached at
      ip+1 (or end of code), gas used > gas limit, thread killed — and the other branch retires the thread.
R03.2 fork guard                     : forking happens only under `fork_to(..) == true`; fork_to answers true only after
      marking the target and only on the not-at-limit edge, after checking that the target is a JUMPDEST.
R03.3 limit comparisons              : at_visit_limit is `count >= maximum` with a missing counter read as 0; mark_visited
      adds exactly one; the main loop marks the current instruction before executing it.
R03.4 gas accounting                 : the Ok arm of the main loop charges the instruction's minimum gas; a forked thread
      inherits the parent's gas; nothing else writes the gas counter.
R03.5 forked thread's first instruction: the fork path also consults the forking thread's own visit count of the target.
R03.6 loop audit                     : every `loop` / `while` in code reachable from analyze() is classified in a reviewed table.
R03.8 unification consumes evidence  : every judgement-emitting arm of merge files a new expression or uses a fresh variable
      (= C14 R14.5, re-evaluated); termination of the fixpoint in general is not decided.
R03.7 bounded recursion and ranges   : every recursive call-graph component has a reviewed (and, for seen-set cuts, verified)
      depth bound, and no range loop is scaled by an unclamped attacker-chosen constant (= C01 R01.3 / R01.4, re-evaluated).
"""
import re

from .. import facts as F
from .. import tables
from .. import terms as T
from ..vmmodel import VMModel

ET = "disassembly::ExecutionThread"
VT = "vm::thread::VMThread"


def field_writes(fx, adt, field):
    """(body, node) for every assignment / struct-literal initialisation of adt.field."""
    out = []
    for b in fx.fn_bodies(include_expansion=False):
        hir = b.get("hir")
        if not hir:
            continue
        for n, ps in F.walk(hir["value"]):
            k = n.get("k")
            if k in ("Assign", "AssignOp") and n["l"].get("k") == "Field" and n["l"].get("adt") == adt and n["l"]["field"] == field:
                out.append((b, n, ps, "assign"))
            if k == "Struct" and n.get("adt") == adt:
                for f in n["fields"]:
                    if f["field"] == field:
                        out.append((b, n, ps, "init"))
    return out


def disjuncts(t):
    if t[0] == "bin" and t[1] == "Or":
        return disjuncts(t[2]) + disjuncts(t[3])
    return [t]


def has_call(t, suffix):
    return any(s[0] == "call" and isinstance(s[1], str) and F.strip_generics(s[1]).endswith(suffix) for s in T.subterms(t))


def check_counter_keys(fx, rep, rule):
    # one counter per instruction offset: every access to a counter table in the VM's bookkeeping types is keyed by the offset it was
    # handed, as it stands (a narrowed / masked key lets offsets share a counter: dead code counts as visited and live code is
    # abandoned early), and the key type of the table is the offset type
    n_keys = 0
    for b in fx.fn_bodies():
        if not (b.get("impl_self") or "").startswith("vm::data::") or not b.get("hir") or b.get("from_expansion"):
            continue
        root = b["hir"]["value"]
        params = {p["local"]: p for p in b["hir"]["params"] if p.get("p") == "Bind"}
        for c, cps in F.calls(root):
            if c.get("k") != "MethodCall" or c["method"] not in ("entry", "get", "get_mut", "insert", "remove", "contains_key", "contains") or "std::collections::HashMap<" not in (c.get("recv_ty") or "") or not c["args"]:
                continue
            recv = T.term(c["recv"], T.Env())
            while isinstance(recv, tuple) and recv[0] in ("ref", "deref") and len(recv) > 1:
                recv = recv[1]
            if not (isinstance(recv, tuple) and recv[0] == "field" and recv[1][0] == "local" and recv[1][2] == "self"):
                continue
            mut_b = T.mutated_locals(root)
            k = T.term(c["args"][0], T.env_at(cps, c, mut_b), mut_b)
            while isinstance(k, tuple) and k[0] in ("ref", "deref") and len(k) > 1:
                k = k[1]
            n_keys += 1
            rep.fn(b["def"])
            as_it_stands = isinstance(k, tuple) and k[0] == "local" and k[1] in params
            kt = (c.get("recv_ty") or "").split("HashMap<", 1)[1].split(",", 1)[0].strip()
            pty = (params[k[1]].get("ty") or "") if as_it_stands else ""
            same_ty = (not pty) or pty.replace("&", "").strip() == kt
            ordn = sum(1 for x in rep.instances.get(rule, []) if x.startswith(f"counter-key:{F.strip_generics(b['def'])}#")) + 1
            rep.oblige(as_it_stands and same_ty, rule, f"counter-key:{F.strip_generics(b['def'])}#{ordn}", F.loc(c["span"]), f"`{b['def']}` keys a counter table with `{T.short(k)[:50]}` (table key type `{kt}`) instead of the instruction offset it was given, as it stands: different offsets can share one counter, so the visit / fork limits are applied to the wrong instructions", sample={"rule": rule, "fn": b["def"], "key": T.short(k)[:40], "key_type": kt} if n_keys <= 3 else None)
    rep.floor(rule, n_keys, 2, "keyed accesses to the visit / fork counter tables")


def counted_form(loop, b):
    """The bound of a `while` loop, read off its body; None if none of the forms applies.
    explicit-cut : a local stepped by a positive literal on every round (top level of the body) and compared (`>`/`>=`) with a value
                   the loop does not change, in a test that leaves the loop / the function;
    towards-zero : the condition is `x != 0` / `x > 0` and every round shifts x right or divides it by a literal >= 2 (top level);
    grow-to-index: the condition is `i >= v.len()` with i unchanged, and every round pushes onto v (top level)."""
    body = loop.get("body") or {}
    iff = F.strip(body.get("expr") or {})
    if iff.get("k") != "If" or "else" not in iff or not any(x.get("k") == "Break" for x, _ in F.walk(iff["else"])):
        return None
    cond = F.strip(iff["cond"])
    then = F.strip(iff["then"])
    blk = then.get("block") or {}
    top = [F.strip(st["e"]) for st in blk.get("stmts", []) if st.get("s") == "Expr"]
    tail = F.strip(blk["expr"]) if blk.get("expr") else None
    mutated = T.mutated_locals(then)

    def lit_int(x):
        x = F.strip(x)
        while x.get("k") in ("Cast",):
            x = F.strip(x["e"])
        if x.get("k") == "Lit" and x["value"].get("lit") == "int":
            return int(x["value"]["v"])
        if x.get("k") == "Call" and len(x.get("args", [])) == 1 and (F.callee_def(x) or "").split("::")[-1] in ("from", "from_le"):
            return lit_int(x["args"][0])
        if x.get("k") == "Path" and str(x.get("def", "")).endswith(("::ONE",)):
            return 1
        if x.get("k") == "Path" and str(x.get("def", "")).endswith(("::ZERO",)):
            return 0
        return None

    def fixed(x):
        x = F.strip(x)
        if x.get("k") == "Path" and x.get("res") == "local":
            return x["local"] not in mutated
        return x.get("k") in ("Lit", "Path") or (x.get("k") == "MethodCall" and x["method"] in ("index",) and fixed(x["recv"]))

    # explicit-cut
    steps = {}
    for e in top:
        if e.get("k") == "AssignOp" and e.get("op") == "AddAssign" and F.local_of(e["l"]) is not None and (lit_int(e["r"]) or 0) > 0:
            steps[F.local_of(e["l"])] = True
    for e in top + ([tail] if tail else []):
        if e and e.get("k") == "If" and "else" not in e and T.diverges(e["then"]):
            c = F.strip(e["cond"])
            if c.get("k") == "Binary" and c["op"] in ("Gt", "Ge") and F.local_of(c["l"]) in steps and fixed(c["r"]):
                return "explicit-cut"
            if c.get("k") == "Binary" and c["op"] in ("Lt", "Le") and F.local_of(c["r"]) in steps and fixed(c["l"]):
                return "explicit-cut"
    # towards-zero
    if cond.get("k") == "Binary" and cond["op"] in ("Ne", "Gt") and F.local_of(cond["l"]) is not None and lit_int(cond["r"]) == 0:
        x = F.local_of(cond["l"])
        for e in top:
            if e.get("k") == "AssignOp" and F.local_of(e["l"]) == x and ((e.get("op") == "ShrAssign" and (lit_int(e["r"]) or 0) >= 1) or (e.get("op") == "DivAssign" and (lit_int(e["r"]) or 0) >= 2)):
                return "towards-zero"
            if e.get("k") == "Assign" and F.local_of(e["l"]) == x:
                r = F.strip(e["r"])
                if r.get("k") == "Binary" and F.local_of(r["l"]) == x and ((r["op"] == "Shr" and (lit_int(r["r"]) or 0) >= 1) or (r["op"] == "Div" and (lit_int(r["r"]) or 0) >= 2)):
                    return "towards-zero"
    # grow-to-index
    if cond.get("k") == "Binary" and cond["op"] in ("Ge", "Gt") and fixed(cond["l"]):
        r = F.strip(cond["r"])
        if r.get("k") == "MethodCall" and r["method"] == "len":
            coll = T.short(T.term(r["recv"], T.Env()))
            for e in top:
                if e.get("k") == "MethodCall" and e["method"] in ("push", "push_back") and T.short(T.term(e["recv"], T.Env())) == coll:
                    return "grow-to-index"
    return None


def check(fx, rep, tier):
    cg = F.CallGraph(fx)
    vm = VMModel(fx, cg)
    if not rep.anchor("R03.1", not vm.problems, "; ".join(vm.problems) or "VM anchors"):
        return rep.finish("anchor lost", "n/a")
    adv = vm.advance
    ml = vm.main_loop

    # ---------------------------------------------------------------- R03.1
    ws = field_writes(fx, ET, "instruction_pointer")
    rep.floor("R03.1", len(ws), 3, "writes of the instruction pointer")
    for b, n, ps, kind in ws:
        ok = (b.get("impl_self") or "") in (ET, "disassembly::InstructionStream")
        rep.oblige(ok, "R03.1", f"ip-writer:{F.strip_generics(b['def'])}", F.loc(n["span"]), f"`{b['def']}` writes the instruction pointer outside the execution-thread type: a thread can be moved without any bound being consulted", sample={"rule": "R03.1", "writer": b["def"], "kind": kind})
    adt = fx.adt(ET)
    priv = all("Restricted" in f["vis"] for f in adt["variants"][0]["fields"] if f["name"] == "instruction_pointer")
    rep.oblige(priv, "R03.1", "ip-private", F.loc(adt["span"]), "the instruction pointer field is public")
    # callers of step / jump_by
    for target in ("disassembly::ExecutionThread::step", "disassembly::ExecutionThread::jump_by", "disassembly::ExecutionThread::step_backward"):
        for caller in sorted(cg.callers_of(target)):
            cb = fx.body(caller)
            if cb is None or cb.get("from_expansion"):
                continue
            ok = caller == adv["def"] or (cb.get("impl_self") == ET)
            rep.oblige(ok, "R03.1", f"step-caller:{F.strip_generics(caller)}", F.loc(cb["span"]), f"`{caller}` steps a thread's instruction pointer; only the VM's advance function may, after consulting the limits")
    # the advance function's stop condition
    root = adv["hir"]["value"]
    mutated = T.mutated_locals(root)
    step_calls = [(n, ps) for n, ps in F.calls(root) if (F.callee_def(n) or "").endswith("ExecutionThread::step")]
    rep.oblige(len(step_calls) == 1, "R03.1", "one-step-site", F.loc(adv["span"]), f"the advance function steps the thread at {len(step_calls)} places (exactly one guarded step expected)")
    for n, ps in step_calls:
        iff = None
        branch = None
        for anc, key in reversed(ps):
            if anc.get("k") == "If" and key in ("then", "else"):
                iff, branch = anc, key
                break
        if iff is None:
            rep.oblige(False, "R03.1", "step-guarded", F.loc(n["span"]), "the step to the next instruction is unconditional: no execution bound is enforced")
            continue
        env = T.env_at(ps, iff, mutated)
        # helper methods of the VM itself (an extracted `self.at_iteration_limit(..)`) are read through
        own_impl = adv.get("impl_self") or "vm::VM"
        ct = T.inline_calls(T.term(iff["cond"], env, mutated), fx, only=lambda nm: (fx.body(nm) or {}).get("impl_self") == own_impl and not nm.endswith("::current_thread_killed"))
        neg = False
        while ct[0] == "un" and ct[1] == "Not":
            neg = not neg
            ct = ct[2]
        ds = disjuncts(ct)
        # classes
        visit = [d for d in ds if has_call(d, "VisitedOpcodes::at_visit_limit")]
        gas = [d for d in ds if has_call(d, "VMThread::gas_usage") or any(s[0] == "field" and s[2] == "gas_limit" for s in T.subterms(d))]
        killed = [d for d in ds if any(s[0] == "field" and s[2] == "current_thread_killed" for s in T.subterms(d)) or has_call(d, "VM::current_thread_killed")]
        on_else = (branch == "else") != neg
        rep.oblige(on_else, "R03.1", "step-on-negated-stop", F.loc(n["span"]), "the step is on the wrong side of the stop condition")
        # visit limit: at_visit_limit(ip + 1), or-ed with an end-of-code test
        v_ok = False
        for d in visit:
            for s in T.subterms(d):
                if s[0] == "call" and isinstance(s[1], str) and F.strip_generics(s[1]).endswith("VisitedOpcodes::at_visit_limit"):
                    arg = s[2][-1]
                    if arg[0] == "bin" and arg[1] == "Add" and ("lit", "1") in (arg[2], arg[3]):
                        other = arg[2] if arg[3] == ("lit", "1") else arg[3]
                        if has_call(other, "instruction_pointer"):
                            v_ok = True
        rep.oblige(v_ok, "R03.1", "stop:visit-limit", F.loc(iff["span"]), "the advance function does not stop a thread when the next instruction (ip + 1) has reached its per-thread visit limit", sample={"rule": "R03.1", "stop_condition": T.short(ct)[:200]})
        g_ok = False
        for d in gas:
            for s in T.subterms(d):
                if s[0] == "bin" and s[1] in ("Gt", "Ge", "Lt", "Le"):
                    l, r = s[2], s[3]
                    lg = has_call(l, "VMThread::gas_usage")
                    rg = has_call(r, "VMThread::gas_usage")
                    ll = any(x[0] == "field" and x[2] == "gas_limit" for x in T.subterms(l))
                    rl = any(x[0] == "field" and x[2] == "gas_limit" for x in T.subterms(r))
                    if lg and rl and s[1] in ("Gt", "Ge"):
                        g_ok = True
                    if rg and ll and s[1] in ("Lt", "Le"):
                        g_ok = True
        rep.oblige(g_ok, "R03.1", "stop:gas", F.loc(iff["span"]), "the advance function does not stop a thread whose gas use exceeds the gas limit (the comparison is missing from the stop condition)")
        rep.oblige(bool(killed), "R03.1", "stop:killed", F.loc(iff["span"]), "the advance function does not retire a thread that was killed by a halting instruction")
        # the retiring branch pops the thread and stores its state
        retire = iff["then"] if on_else and branch == "else" else iff.get("else") or iff["then"]
        if branch == "then" and "else" not in iff and T.diverges(iff["then"]):
            # `if <continues> { step; return Ok(()) }  <retire ...>`: the rest of the enclosing block is the stop branch
            ik = T._span_key(iff["span"])
            for anc, key in reversed(ps):
                if "stmts" in anc and "k" not in anc and any(x is iff for st in anc["stmts"] for x, _ in F.walk(st)):
                    rest = [st for st in anc["stmts"] if T._span_key(st.get("span") or (st.get("e") or {}).get("span")) and T._span_key(st.get("span") or (st.get("e") or {}).get("span"))[1] >= ik[2]]
                    retire = {"k": "Block", "span": iff["span"], "block": {"stmts": rest, **({"expr": anc["expr"]} if "expr" in anc else {})}}
                    break
        names = [F.strip_generics(F.callee(c) or F.callee_def(c) or "") for c, _ in F.calls(retire)]
        pops = any(x.endswith("::pop_front") for x in names)
        stores = any(x.endswith("::push") for x in names)
        rep.oblige(pops and stores, "R03.1", "retire-thread", F.loc(retire["span"]), "the stop branch does not remove the thread from the queue and keep its state")

    # ---------------------------------------------------------------- R03.2
    fork_sites = []
    for b in fx.fn_bodies():
        hir = b.get("hir")
        if not hir or b.get("from_expansion"):
            continue
        for n, ps in F.calls(hir["value"]):
            cd = F.callee_def(n) or ""
            if cd in ("vm::VM::fork_current_thread", "vm::VM::enqueue_thread", "vm::thread::VMThread::fork"):
                fork_sites.append((b, n, ps, cd.split("::")[-1]))
    rep.floor("R03.2", len(fork_sites), 3, "fork / enqueue call sites")
    for b, n, ps, who in fork_sites:
        name = F.strip_generics(b["def"])
        if name == "vm::VM::fork_current_thread" or (b.get("impl_self") == "vm::VM" and who == "enqueue_thread" and name == "vm::VM::fork_current_thread"):
            continue  # plumbing below the guarded call
        conds = [a["cond"] for a, key in ps if a.get("k") == "If" and key == "then"]
        ok = any(has_call(T.term(c, T.Env()), "JumpTargets::fork_to") for c in conds)
        rep.oblige(ok, "R03.2", f"fork-guard:{name}:{who}", F.loc(n["span"]), f"`{b['def']}` creates a thread (`{who}`) without asking the per-target fork budget (`fork_to`): the number of threads is unbounded", sample={"rule": "R03.2", "fn": b["def"], "call": who, "guard": "fork_to" if ok else None})
    ft = fx.body("vm::data::JumpTargets::fork_to")
    if rep.anchor("R03.2", ft is not None, "JumpTargets::fork_to"):
        root = ft["hir"]["value"]
        mutated = T.mutated_locals(root)
        params = [p.get("name") for p in ft["hir"]["params"]]
        target_name = params[-1] if params else None
        trues = []
        for n, ps in F.walk(root):
            if n.get("k") == "Call" and (F.path_def(n["f"]) or "").endswith("::Ok") and T.term(n["args"][0], T.Env()) in (("lit", True), ("lit", "true")):
                trues.append((n, ps))
        flag_form = False
        if not trues:
            # `let can_fork = !at_visit_limit(target)?; if can_fork { mark_visited(target)?; } Ok(can_fork)`: the answer IS the
            # negated limit test, and the fork is counted exactly when the answer is true
            for n, ps in F.walk(root):
                if not (n.get("k") == "Call" and (F.path_def(n["f"]) or "").endswith("::Ok") and not n.get("exp") and n["args"] and F.local_of(F.strip(n["args"][0])) is not None):
                    continue
                lid = F.local_of(F.strip(n["args"][0]))
                if lid in mutated:
                    continue
                lt = T.term(n["args"][0], T.env_at(ps, n, mutated), mutated)
                neg = False
                while lt[0] == "un" and lt[1] == "Not":
                    neg = not neg
                    lt = lt[2]
                is_limit = any(s_[0] == "call" and F.strip_generics(str(s_[1])).endswith("at_visit_limit") and s_[2] and s_[2][-1][0] == "local" and s_[2][-1][2] == target_name for s_ in T.subterms(lt)) and lt[0] == "call"
                if not (neg and is_limit):
                    continue
                marks = []
                for c, cps in F.calls(root):
                    if (F.callee_def(c) or "").endswith("VisitedOpcodes::mark_visited") and c["args"] and T.term(c["args"][0], T.Env())[0] == "local" and T.term(c["args"][0], T.Env())[2] == target_name:
                        conds = T.path_conditions(cps, c)
                        under_flag = len(conds) == 1 and conds[0][1] is True and F.local_of(F.strip(conds[0][0])) == lid
                        before = T._span_key(c["span"])[1] < T._span_key(n["span"])[1]
                        marks.append(under_flag and before)
                if len(marks) == 1 and marks[0]:
                    flag_form = True
        rep.oblige(len(trues) == 1 or flag_form, "R03.2", "single-true", F.loc(ft["span"]), f"fork_to has {len(trues)} places answering `true` (one expected)", sample={"rule": "R03.2", "form": "answer is the negated limit test, counted under it" if flag_form else "literal true"})
        for n, ps in trues:
            # in the else branch of at_visit_limit(target)
            on_not_limit = False
            for a, key in ps:
                if a.get("k") == "If" and key in ("then", "else"):
                    ct = T.term(a["cond"], T.Env(), mutated)
                    neg = False
                    while ct[0] == "un" and ct[1] == "Not":
                        neg = not neg
                        ct = ct[2]
                    if has_call(ct, "VisitedOpcodes::at_visit_limit"):
                        arg_ok = any(s[0] == "call" and F.strip_generics(str(s[1])).endswith("at_visit_limit") and s[2][-1][0] == "local" and s[2][-1][2] == target_name for s in T.subterms(ct))
                        if arg_ok and ((key == "else") != neg):
                            on_not_limit = True
            rep.oblige(on_not_limit, "R03.2", "true-only-under-limit", F.loc(n["span"]), "fork_to answers `true` without being on the not-at-limit side of the target's fork counter")
            # mark_visited(target) precedes in the same block
            blk = None
            for a, key in reversed(ps):
                if "stmts" in a:
                    blk = a
                    break
            marked = False
            if blk:
                for s in blk["stmts"]:
                    for c, _ in F.calls(s):
                        if (F.callee_def(c) or "").endswith("VisitedOpcodes::mark_visited") and c["args"] and T.term(c["args"][0], T.Env())[0] == "local" and T.term(c["args"][0], T.Env())[2] == target_name:
                            marked = True
            rep.oblige(marked, "R03.2", "true-after-mark", F.loc(n["span"]), "fork_to answers `true` without counting the fork against the target: the fork budget is never used up")
        names = [F.callee(c) or "" for c, _ in F.calls(root)]
        from ..vmmodel import tests_opcode_type

        rep.oblige(tests_opcode_type(fx, ft, "opcode::control::JumpDest"), "R03.2", "target-is-jumpdest", F.loc(ft["span"]), "fork_to does not require the target to be a JUMPDEST: the number of fork counters is no longer bounded by the number of jump destinations")

    # ---------------------------------------------------------------- R03.3
    avl = fx.body("vm::data::VisitedOpcodes::at_visit_limit")
    mv = fx.body("vm::data::VisitedOpcodes::mark_visited")
    if rep.anchor("R03.3", avl is not None and mv is not None, "VisitedOpcodes::{at_visit_limit, mark_visited}"):
        root = avl["hir"]["value"]
        mut_avl = T.mutated_locals(root)
        cmps = [(n, ps) for n, ps in F.walk(root) if n.get("k") == "Binary" and n["op"] in ("Ge", "Gt", "Le", "Lt", "Eq") and "maximum_iterations_per_opcode" in str(T.term(n, T.Env()))]
        ok = False
        desc = "no comparison of the counter with the configured maximum"
        for n, ps in cmps:
            # the count may be let-bound and may come from the type's own accessor (`self.visit_count(ip)?`): read through both
            t = T.inline_calls(T.term(n, T.env_at(ps, n, mut_avl), mut_avl), fx, 2, (), lambda d: d.startswith("vm::data::"))
            l, r = t[2], t[3]
            op = t[1]
            l_is_max = "maximum_iterations_per_opcode" in str(l)
            if l_is_max:
                op = {"Ge": "Le", "Le": "Ge", "Gt": "Lt", "Lt": "Gt", "Eq": "Eq"}[op]
                l, r = r, l
            cnt = l
            default0 = any(s[0] == "call" and F.strip_generics(str(s[1])).split("::")[-1] in ("unwrap_or", "unwrap_or_default", "copied", "cloned") for s in T.subterms(cnt))
            zero = ("lit", "0") in list(T.subterms(cnt)) or "unwrap_or_default" in str(cnt)
            reads_map = any(s[0] == "call" and F.strip_generics(str(s[1])).endswith("::get") for s in T.subterms(cnt))
            desc = f"`count {op} maximum`"
            if op == "Ge" and reads_map and zero:
                ok = True
            elif op == "Ge" and not zero:
                desc = "a missing counter is not read as 0"
        rep.oblige(ok, "R03.3", "at-limit-normal-form", F.loc(avl["span"]), f"at_visit_limit is not `count >= maximum` with a missing counter read as 0 ({desc}): an instruction can be executed once more or once less than the limit allows", sample={"rule": "R03.3", "normal_form": desc})
        root = mv["hir"]["value"]

        def add_literal(node):
            """the literal d of `*c = c.saturating_add(d)` / `*c += d` / `*c = *c + d` inside node (None if not exactly one such)"""
            ds = []
            for m, _ in F.walk(node):
                if m.get("k") == "MethodCall" and m["method"] in ("saturating_add", "wrapping_add") and m["args"]:
                    a_ = F.strip(m["args"][0])
                    ds.append(a_["value"]["v"] if a_.get("k") == "Lit" else None)
                elif m.get("k") == "AssignOp" and m.get("op") == "AddAssign":
                    a_ = F.strip(m["r"])
                    ds.append(a_["value"]["v"] if a_.get("k") == "Lit" else None)
                elif m.get("k") == "Binary" and m.get("op") == "Add":
                    a_ = F.strip(m["r"])
                    ds.append(a_["value"]["v"] if a_.get("k") == "Lit" else None)
                elif (m.get("k") == "MethodCall" and "sub" in m["method"]) or (m.get("k") in ("AssignOp", "Binary") and m.get("op") in ("SubAssign", "Sub")):
                    ds.append(None)
            return str(ds[0]) if len(ds) == 1 and ds[0] is not None else None

        ins = [(c, ps) for c, ps in F.calls(root) if c.get("k") == "MethodCall" and c["method"] in ("or_insert",) and c["args"]]
        first = step = None
        form = "?"
        if len(ins) == 1:
            c, ps = ins[0]
            k0 = F.strip(c["args"][0])
            k0 = str(k0["value"]["v"]) if k0.get("k") == "Lit" else None
            chain, cur = [], F.strip(c["recv"])
            while cur.get("k") == "MethodCall":
                chain.append(cur)
                cur = F.strip(cur["recv"])
            mod = next((m for m in chain if m["method"] == "and_modify"), None)
            if mod is not None:
                # entry(k).and_modify(|c| c += d).or_insert(k0): a known counter gains d, an unknown one starts at k0
                form = "and_modify/or_insert"
                step = add_literal(mod["args"][0])
                first = k0
            else:
                # let c = entry(k).or_insert(k0); *c += d: every counter gains d, an unknown one after starting at k0
                form = "or_insert then update"
                lid = None
                for anc, key in reversed(ps):
                    if anc.get("s") == "Let" and key == "init" and anc["pat"].get("p") == "Bind":
                        lid = anc["pat"]["local"]
                    break
                ups = []
                if lid is not None:
                    for m, mps in F.walk(root):
                        if m.get("k") in ("Assign", "AssignOp") and any(x.get("k") == "Path" and x.get("local") == lid for x, _ in F.walk(m["l"])) and not any(a_.get("k") in ("If", "Match", "Loop", "Closure") for a_, _ in mps):
                            ups.append(m)
                if len(ups) == 1:
                    step = add_literal(ups[0])
                    first = str(int(k0) + int(step)) if k0 is not None and step is not None and k0.isdigit() and step.isdigit() else None
        rep.oblige(first == "1" and step == "1", "R03.3", "mark-adds-one", F.loc(mv["span"]), f"mark_visited does not add exactly one to the counter (form `{form}`: a known counter gains {step or '?'}, a first visit is recorded as {first or '?'})", sample={"rule": "R03.3", "form": form, "first_visit": first, "step": step})
    check_counter_keys(fx, rep, "R03.3")
    # main loop marks before executing
    en, eps = vm.exec_call
    root = ml["hir"]["value"]
    marks = [(n, ps) for n, ps in F.calls(root) if (F.callee_def(n) or "").endswith("VisitedOpcodes::mark_visited")]
    before = any(T._span_key(n["span"])[2] <= T._span_key(en["span"])[1] and F.in_loop(ps) for n, ps in marks)
    rep.oblige(before, "R03.3", "mark-before-execute", F.loc(en["span"]), "the main loop does not count the current instruction as visited before executing it: forks taken by the instruction copy a stale count")

    # ---------------------------------------------------------------- R03.4
    gws = field_writes(fx, VT, "gas_usage")
    rep.floor("R03.4", len(gws), 2, "writes of the per-thread gas counter")
    for b, n, ps, kind in gws:
        name = F.strip_generics(b["def"])
        root = b["hir"]["value"]
        mutated = T.mutated_locals(root)
        w = F.loc(n["span"])
        if kind == "assign":
            ok = n.get("k") == "AssignOp" and n["op"] in ("Add", "AddAssign") and b.get("impl_self") == VT
            if ok:
                rt = T.term(n["r"], T.Env(), mutated)
                ok = rt[0] == "local"
            rep.oblige(ok, "R03.4", f"gas-writer:{name}", w, f"`{b['def']}` modifies the gas counter other than by adding the charged amount", sample={"rule": "R03.4", "writer": name})
        else:
            env = T.env_at(ps, n, mutated)
            val = [T.term(f["e"], env, mutated) for f in n["fields"] if f["field"] == "gas_usage"][0]
            params = [p.get("name") for p in b["hir"]["params"]]
            takes_self = "self" in params
            if takes_self:
                ok = val[0] == "field" and val[2] == "gas_usage" and val[1][0] == "local" and val[1][2] == "self"
                rep.oblige(ok, "R03.4", f"gas-inherit:{name}", w, f"`{b['def']}` builds a thread from an existing one with gas `{T.short(val)}` instead of the parent's gas: a forked thread gets a fresh gas budget")
            else:
                ok = val == ("lit", "0")
                rep.oblige(ok, "R03.4", f"gas-init:{name}", w, f"`{b['def']}` starts a thread with gas `{T.short(val)}`")
    # fork must build the child itself (not through a constructor that resets the gas)
    fk = fx.body("vm::thread::VMThread::fork")
    if rep.anchor("R03.4", fk is not None, "VMThread::fork"):
        inits = [1 for b, n, ps, kind in gws if b["def"] == fk["def"] and kind == "init"]
        rep.oblige(bool(inits), "R03.4", "fork-inherits-gas", F.loc(fk["span"]), "VMThread::fork does not construct the child with the parent's gas counter (e.g. it goes through a constructor that resets it): every forked thread starts with a fresh gas budget", sample={"rule": "R03.4", "fork_builds_child_with": "self.gas_usage" if inits else "constructor"})
    # the forked thread has executed the forking instruction too: either gas is charged before an instruction executes (then the
    # copy made by fork() includes it) or the function that creates the child charges it that instruction's cost
    charge_sites = [(n, ps) for n, ps in F.calls(ml["hir"]["value"]) if (F.callee_def(n) or "").endswith("VMThread::consume_gas")]
    en, eps = vm.exec_call
    charged_before = any(T._span_key(n["span"])[2] <= T._span_key(en["span"])[1] for n, ps in charge_sites)
    fork_charged = False
    for b in fx.fn_bodies():
        if not b.get("hir"):
            continue
        forks = [c for c, _ in F.calls(b["hir"]["value"]) if (F.callee_def(c) or "").endswith("VMThread::fork")]
        if not forks or b.get("impl_self") == VT:
            continue
        for c, cps in F.calls(b["hir"]["value"]):
            if (F.callee_def(c) or "").endswith("VMThread::consume_gas") and c["args"]:
                at = T.term(c["args"][0], T.env_at(cps, c, T.mutated_locals(b["hir"]["value"])), T.mutated_locals(b["hir"]["value"]))
                on_child = F.local_of(F.strip(c["recv"])) is not None
                child_l = F.local_of(F.strip(c["recv"]))
                # ... the cost of the instruction that FORKS (read off the machine / the forking thread), not of whatever the child
                # is positioned on (its jump target)
                costs = [st for st in T.subterms(at) if st[0] == "call" and isinstance(st[1], str) and F.strip_generics(st[1]).endswith("min_gas_cost")]
                from_child = any(st2[0] == "local" and st2[1] == child_l for cst in costs for st2 in T.subterms(cst))
                if on_child and costs and not from_child:
                    fork_charged = True
    rep.oblige(
        charged_before or fork_charged,
        "R03.4",
        "fork-charged-for-forking-instruction",
        F.loc(ml["span"]),
        "the current thread is charged for an instruction only after it has executed and the thread forked during that instruction is not charged for it: every generation of forked threads under-counts its gas by that instruction's cost and can run past the gas limit",
        sample={"rule": "R03.4", "charged_before_execute": charged_before, "child_charged_at_fork": fork_charged},
    )
    # Ok arm charges min_gas_cost
    charged = False
    for n, ps in F.calls(ml["hir"]["value"]):
        if (F.callee_def(n) or "").endswith("VMThread::consume_gas"):
            at = T.term(n["args"][0], T.Env())
            in_ok_arm = False
            uncond = True
            for m, a in F.enclosing_arms(ps):
                pv = F.pat_variants(a["pat"])
                if pv and any(v == "Ok" for _, v in pv):
                    in_ok_arm = True
                    inner = {id(x) for x, _ in F.walk(a["body"])}
                    uncond = not any(anc.get("k") in ("If", "Match") and id(anc) in inner for anc, _ in ps)
            if has_call(at, "::min_gas_cost") and in_ok_arm and uncond:
                charged = True
    rep.oblige(charged, "R03.4", "charge-min-gas", F.loc(ml["span"]), "the main loop does not charge the executed instruction's minimum gas on the success path")

    # the gas that is charged is at least what the instruction costs on the EVM: `min_gas_cost` of the opcode type each byte
    # disassembles to, evaluated statically for all 256 bytes, is not below the independent minimum-gas table
    from ..gasmodel import gas_by_byte

    gas, gprob = gas_by_byte(fx)
    if rep.anchor("R03.4", gas is not None, "the byte table and the min_gas_cost methods (" + "; ".join(gprob) + ")"):
        n_gas = 0
        for brow in tables.read("evm_gas.tsv"):
            x, mn, want = int(brow[0], 16), brow[1], int(brow[2])
            got = gas.get(x)
            n_gas += 1
            fam = re.sub(r"\d+$", "n", mn) if re.match(r"^(PUSH|DUP|SWAP|LOG)\d+$", mn) else mn
            rep.oblige(got is not None and got >= want, "R03.4", f"gas-table:{fam}", "-", (f"0x{x:02x} {mn}: the minimum gas charged is {got}, the instruction costs at least {want} on the EVM: a thread is under-charged and continues once the minimum gas it has really consumed exceeds the limit" if got is not None else f"0x{x:02x} {mn}: min_gas_cost is no longer a table over literals, constants and the opcode's fields; it cannot be compared with the EVM's minimum"), sample={"rule": "R03.4", "byte": f"{x:02x}", "mnemonic": mn, "charged": got, "evm_minimum": want} if x in (0x01, 0x54, 0xA2, 0xF0) else None)
        rep.floor("R03.4", n_gas, 140, "bytes with a minimum-gas row")
    # the instruction a taken JUMP lands on is executed (marked and charged) like any other: an opcode that moves the thread ONTO
    # its validated target (`jump(target)`) while the main loop steps to ip + 1 after every instruction that succeeded skips the
    # JUMPDEST - its minimum gas is never added to the thread
    lands_on = []
    for i_, ob in fx.trait_method_bodies("opcode::Opcode", "execute"):
        for n, ps in F.calls(ob["hir"]["value"]):
            if (F.callee_def(n) or "") in ("disassembly::ExecutionThread::jump", "disassembly::ExecutionThread::at") and n.get("args"):
                at = T.term(n["args"][0], T.env_at(ps, n, T.mutated_locals(ob["hir"]["value"])), T.mutated_locals(ob["hir"]["value"]))
                arith = any(st[0] == "bin" and st[1] in ("Sub", "Add") for st in T.subterms(at))
                if not arith:
                    lands_on.append((i_.get("self_adt"), n))
    steps_always = False
    adv_def = getattr(vm, "advance_own", adv)["def"]
    for n, ps in F.calls(ml["hir"]["value"]):
        if adv_def in cg.resolve_local(n) or (n.get("def") or "") == adv_def:
            conds = [T.short(T.term(c, T.Env())) for c, holds in T.path_conditions(ps, n)]
            if not any("jump" in c.lower() or "moved" in c.lower() for c in conds):
                steps_always = True
    if lands_on:
        rep.oblige(
            not steps_always,
            "R03.5",
            "jump-target-charged",
            F.loc(lands_on[0][1]["span"]),
            f"{sorted({t.split('::')[-1] for t, _ in lands_on})} place the thread on the validated target itself and the main loop then steps past it: the JUMPDEST a taken JUMP lands on is neither marked visited nor charged, so a thread runs on after the minimum gas it has really consumed exceeds the limit (by one unit per taken jump)",
            sample={"rule": "R03.5", "movers_landing_on_target": sorted({t for t, _ in lands_on}), "main_loop_steps_after_every_instruction": steps_always},
        )
    # ---------------------------------------------------------------- R03.5
    # the fork path must also consult the *thread's* visit count of the target (visited_instructions of the state)
    consults = False
    for b in fx.fn_bodies():
        name = F.strip_generics(b["def"])
        if name in ("vm::VM::fork_current_thread", "vm::thread::VMThread::fork") or any(w == "fork_current_thread" for bb, n, ps, w in fork_sites if bb is b):
            for n, ps in F.calls(b["hir"]["value"]):
                if (F.callee_def(n) or "").endswith("VisitedOpcodes::at_visit_limit"):
                    rt = n.get("recv_ty") or ""
                    recv = T.term(n["recv"], T.Env())
                    if has_call(recv, "visited_instructions"):
                        consults = True
    rep.oblige(
        consults,
        "R03.5",
        "fork-target-thread-count",
        F.loc(fx.body("vm::VM::fork_current_thread")["span"]) if fx.body("vm::VM::fork_current_thread") else "-",
        "a forked thread starts at its target without the forking thread's own visit count of that target being consulted: the target instruction is executed limit+1 times in the last forked generation",
        sample={"rule": "R03.5", "consults_thread_count": consults},
    )

    # ... and the instruction a thread is created on: the initial thread sits on offset 0 and the main loop marks and executes the
    # current instruction without asking for its visit count (only advance() asks, for ip + 1)
    def consults_limit(body):
        return any((F.callee_def(n) or "").endswith("VisitedOpcodes::at_visit_limit") for n, _ in F.calls(body["hir"]["value"]))

    adv_def = getattr(vm, "advance_own", adv)["def"]
    asks = consults_limit(ml)
    for n, _ in F.calls(ml["hir"]["value"]):
        for d in cg.resolve_local(n):
            hb = fx.body(d)
            if hb is not None and hb.get("hir") and d != adv_def and hb.get("impl_self") == ml.get("impl_self") and consults_limit(hb):
                asks = True
    new_b = fx.body("vm::VM::new")
    asks = asks or (new_b is not None and any((F.callee_def(n) or "").endswith("VisitedOpcodes::at_visit_limit") for n, _ in F.calls(new_b["hir"]["value"])))
    rep.oblige(
        asks,
        "R03.5",
        "entry-instruction-visit-count",
        F.loc(ml["span"]),
        "the instruction the initial thread is created on is marked and executed without its visit count being compared with the limit (the limit is consulted only for the step to ip + 1): with a limit of 0 the instruction at offset 0 still runs once",
        sample={"rule": "R03.5", "main_loop_consults_limit": asks},
    )

    # ---------------------------------------------------------------- R03.6
    rows = tables.Keyed("loops.tsv", fx)
    entries = [b["def"] for b in fx.fn_bodies() if (b.get("impl_self") or "").startswith("extractor::Extractor<") and b.get("name") == "analyze"]
    pipeline = cg.reachable(entries)
    n_loops = 0
    seen_rows = set()
    for name in sorted(pipeline):
        b = fx.body(name)
        if not b or "hir" not in b or b.get("from_expansion"):
            continue
        k = 0
        for n, ps in F.exprs(b["hir"]["value"], "Loop"):
            src = n.get("source", "")
            n_loops += 1
            if "ForLoop" in src:
                # finite iteration unless the body grows the iterated collection: accept (iterators borrow their source)
                rep.inst("R03.6", f"for:{F.strip_generics(name)}", nontrivial=False)
                continue
            k += 1
            key = f"{F.strip_generics(name)}#{k}"
            row = rows.get(key)
            seen_rows.add(key)
            if "While" in src and row is None:
                # `while let Some(x) = q.pop_front()` with no push to q in the body is a drain
                drain = None
                for m, _ in F.walk(n["body"]):
                    if m.get("k") == "MethodCall" and m["method"] in ("pop_front", "pop", "pop_back", "next"):
                        drain = F.local_of(m["recv"]) if F.local_of(m["recv"]) is not None else T.short(T.term(m["recv"], T.Env()))
                        break
                grows = False
                if drain is not None:
                    for m, _ in F.walk(n["body"]):
                        if m.get("k") == "MethodCall" and m["method"] in ("push", "push_back", "push_front", "insert", "extend", "append"):
                            r = F.local_of(m["recv"]) if F.local_of(m["recv"]) is not None else T.short(T.term(m["recv"], T.Env()))
                            if r == drain:
                                grows = True
                if drain is not None and not grows:
                    rep.inst("R03.6", f"drain:{key}", sample={"rule": "R03.6", "loop": key, "class": "drain"})
                    rep.obligations += 1
                    rep.discharged += 1
                    continue
            if row is not None and row[1].startswith("discharged-by:"):
                # the reviewed bound is an invariant that another property's rules decide (e.g. parent links form a forest)
                from .c01 import dependency_holds

                dep = row[1].split(":", 1)[1]
                rep.oblige(dependency_holds(fx, dep), "R03.6", f"loop:{key}", F.loc(n["span"]), f"the loop in `{name}` ends only while the rules of {dep} hold ({row[2][:80]}...), and they currently report a violation", sample={"rule": "R03.6", "loop": key, "class": row[1]})
                continue
            if row is not None and row[1] == "counted":
                # a reviewed `counted` loop keeps a bound that can be read off its body: the row's argument is re-checked
                form = counted_form(n, b)
                rep.oblige(
                    form is not None,
                    "R03.6",
                    f"loop:{key}",
                    F.loc(n["span"]),
                    f"the loop in `{name}` is reviewed as counted ({row[2][:70]}...), but no bound can be read off it any more: neither a counter stepped on every round and compared with a fixed bound, nor a value shifted / divided towards the zero the condition waits for, nor a collection grown towards a fixed index",
                    sample={"rule": "R03.6", "loop": key, "class": "counted", "bound": form},
                )
                continue
            rep.oblige(
                row is not None,
                "R03.6",
                f"loop:{key}",
                F.loc(n["span"]),
                f"`{name}` contains a `{'while' if 'While' in src else 'loop'}` that is not classified in tables/loops.tsv: a new possibly unbounded loop on the analysis path",
                sample={"rule": "R03.6", "loop": key, "class": row[1] if row else None},
            )
    rep.floor("R03.6", n_loops, 20, "loops on the analyze() call graph")
    rep.extra["loops_on_pipeline"] = n_loops
    # ---------------------------------------------------------------- R03.7 (shared with C01 R01.3 / R01.4)
    # "the whole analysis halts": no recursion without a reviewed, verified depth bound, and no loop whose trip count is an
    # unclamped attacker-chosen constant (a 2^59-iteration copy loop inside one instruction defeats every configured bound).
    from .. import core

    # each bound is the configured number as it stands: the table of fork counters is built with the fork limit, the table of visit
    # counters with the iteration limit - no arithmetic, no other field
    PLUMB = (("vm::data::JumpTargets", "maximum_forks_per_fork_target", "fork"), ("vm::data::VisitedOpcodes", "maximum_iterations_per_opcode", "iteration"))
    n_pl = 0
    for tyname, field, what in PLUMB:
        for b in fx.fn_bodies():
            if not b.get("hir") or b.get("from_expansion") or (b.get("impl_self") or "") == tyname:
                continue
            mutated_b = None
            for c, cps in F.calls(b["hir"]["value"]):
                cd = F.strip_generics(F.callee_def(c) or "")
                if not (cd.startswith(tyname + "::") and cd.split("::")[-1] in ("new", "with_limit", "with_capacity_and_limit")):
                    continue
                if mutated_b is None:
                    mutated_b = T.mutated_locals(b["hir"]["value"])
                args = [T.term(a, T.env_at(cps, c, mutated_b), mutated_b) for a in c["args"]]
                lim = args[-1] if args else None
                x = lim
                while x is not None and x[0] in ("cast",):
                    x = x[1]
                n_pl += 1
                ok = x is not None and x[0] == "field" and x[2] == field
                # one counter table built inside the constructor of the other from that constructor's own limit parameter
                if not ok and x is not None and x[0] == "local" and (b.get("impl_self") or "") in [p0 for p0, _, _ in PLUMB] and any(pp.get("local") == x[1] for pp in b["hir"]["params"]):
                    n_pl -= 1
                    continue
                rep.oblige(
                    ok,
                    "R03.3",
                    f"limit-plumbing:{what}:{F.strip_generics(b['def'])}",
                    F.loc(c["span"]),
                    f"`{b['def']}` builds the {what} counters with the limit `{T.short(lim)[:70] if lim else '?'}` instead of the configured `{field}` as it stands: the bound that is enforced is not the bound that was configured",
                    sample={"rule": "R03.3", "table": tyname, "limit": T.short(lim)[:60] if lim else None},
                )
    rep.floor("R03.3", n_pl, 2, "constructions of the fork / visit counter tables")
    # the configured bounds are the ones the user set: configuration setters are one-to-one with fields
    from .c18 import check_limit_writers

    check_limit_writers(fx, rep, "R03.3", "gas_limit")
    # unification finishes: every arm of merge consumes evidence (C14 R14.5, re-evaluated)
    core.import_rules(rep, fx, "C14", "R03.8", only_rules=("R14.5",), floor=1, what="judgement-emitting merge arms audited for consuming evidence")
    core.import_rules(rep, fx, "C01", "R03.7", only_rules=("R01.3", "R01.4"), floor=10, what="recursive components and attacker-scaled ranges audited for halting")
    # lifting finishes in time proportional to the value: a lifter that rebuilds a node puts each matched sub-tree into the result
    # ONCE. A field filled from the very operand whose inside another field was taken from duplicates that sub-tree, and nested
    # occurrences double the tree (and the time and memory of every later pass) per level.
    SVD_ = "vm::value::SymbolicValueData"
    n_dup = 0
    for b in fx.fn_bodies():
        if not b["def"].startswith("<tc::lift::") or not b.get("hir") or b.get("from_expansion"):
            continue
        root = b["hir"]["value"]
        # operands whose data() is matched against a hash on some path
        opened = set()
        for x, _ in F.walk(root):
            if x.get("k") == "Let" and isinstance(x.get("pat"), dict) and (F.pat_variants(x["pat"]) or set()) == {(SVD_, "Sha3")}:
                for y, _ in F.walk(x["init"]):
                    if y.get("k") == "Path" and y.get("res") == "local":
                        opened.add(y["local"])
                        break
        # ... also as a `match` (on one operand or on a tuple of them) with an arm for the hash
        for x, _ in F.exprs(root, "Match"):
            if "Desugar" in str(x.get("source", "")):
                continue
            if any(q.get("p") in ("Struct", "TupleStruct", "Path") and q.get("adt") == SVD_ and q.get("variant") == "Sha3" for a in x["arms"] for q, _ in F.walk(a["pat"])):
                sc = F.strip(x["scrut"])
                parts = sc["elems"] if sc.get("k") == "Tup" else [sc]
                for part in parts:
                    for y, _ in F.walk(part):
                        if y.get("k") == "Path" and y.get("res") == "local":
                            opened.add(y["local"])
                            break
        if not opened:
            continue
        for st, sps in F.walk(root):
            if st.get("k") != "Struct" or st.get("adt") != SVD_ or st.get("variant") not in ("DynamicArrayIndex", "MappingIndex"):
                continue
            for f in st["fields"]:
                if f["field"] not in ("index", "key", "projection"):
                    continue
                used = [y["local"] for y, _ in F.walk(f["e"]) if y.get("k") == "Path" and y.get("res") == "local"]
                if not used:
                    continue
                n_dup += 1
                dup = used[0] in opened
                rep.oblige(not dup, "R03.7", f"lift-duplicates:{F.strip_generics(b['def'])}:{st['variant']}.{f['field']}", F.loc(st["span"]), f"`{b['def']}` fills `{st['variant']}.{f['field']}` from an operand whose hashed inside it also lifts into another field (the hash may be that very operand): the hashed sub-tree is rebuilt twice, so nested accesses double the lifted value - and the time and memory of every later stage - per level", sample={"rule": "R03.7", "fn": b["def"], "field": f["field"], "duplicates": dup})
    rep.floor("R03.7", n_dup, 1, "index fields of lifted array / mapping accesses")
    return rep.finish(
        "Control-skeleton audit of the four execution bounds: who writes the instruction pointer and who may step; the stop condition guarding the single step "
        "(visit limit at ip+1, gas > limit, killed) normalised from its inlined terms; the fork guard and fork_to's true-path; the normal form of the limit comparison and the unit increment; "
        "gas charging and inheritance; and a classification of every non-for loop reachable from analyze().",
        "instances = pointer writers, step callers, stop-condition disjuncts, fork sites, fork_to clauses, limit normal forms, gas writers, loops; enumerated from the crate and the analyze() call graph",
        ["termination of the unification fixpoint is NOT decided (its round loop is listed as class `fixpoint`); the numeric gas bound beyond the structure is not computed"],
    )
