"""C13 — the watchdog can stop analysis at any poll and is polled as promised.

R13.1 canonical poll      : every call of Watchdog::should_stop sits in a loop, in a condition of the form
      `counter % interval == 0 && should_stop()`, where `interval` is bound from poll_every() before the loop and `counter` is
      the enumerate index of the loop or a local that is incremented by exactly one on every path from loop head to back edge.
R13.2 stop is final       : the branch taken when should_stop() answers true leaves the function with an Err built from the
      StoppedByWatchdog kind (no fall back into the loop); the VM never filters that kind (shared with R17.1).
R13.3 no partial layout   : in every function that returns a layout, each fallible stage call is propagated with `?` (or is the
      tail expression); no stage result is discarded.
R13.5 no other influence  : should_stop()'s answer is used only as such a branch condition and poll_every()'s only as the divisor.
"""
from .. import facts as F
from .. import terms as T
from ..vmmodel import JUMP_KINDS, VMModel

SHOULD_STOP = "watchdog::Watchdog::should_stop"
POLL_EVERY = "watchdog::Watchdog::poll_every"
STOPPED = "StoppedByWatchdog"


def enclosing_loop(ps):
    for anc, key in reversed(ps):
        if anc.get("k") == "Loop":
            return anc
        if anc.get("k") == "Closure":
            return None
    return None


def split_and(c):
    if c.get("k") == "Binary" and c["op"] == "And":
        return split_and(c["l"]) + split_and(c["r"])
    return [c]


def rem_eq_zero(c):
    """`a % b == 0` -> (a_expr, b_expr)"""
    if c.get("k") == "Binary" and c["op"] == "Eq":
        for x, y in ((c["l"], c["r"]), (c["r"], c["l"])):
            if x.get("k") == "Binary" and x["op"] == "Rem" and y.get("k") == "Lit" and str(y["value"].get("v")) == "0":
                return x["l"], x["r"]
    return None


def for_loop_parts(loop, ps):
    """For a desugared `for pat in iter`: (pattern, iterator expression) or None."""
    if "ForLoop" not in loop.get("source", ""):
        return None
    # shape: match IntoIterator::into_iter(ITER) { mut iter => loop { match next(&mut iter) { None => break, Some(PAT) => body } } }
    it = None
    for anc, key in reversed(ps):
        if anc.get("k") == "Match" and "ForLoop" in anc.get("source", ""):
            sc = anc["scrut"]
            if sc.get("k") == "Call" and sc["args"]:
                it = sc["args"][0]
            break
    pat = None
    for n, _ in F.walk(loop["body"]):
        if n.get("k") == "Match" and "ForLoop" in n.get("source", ""):
            for a in n["arms"]:
                pv = F.pat_variants(a["pat"])
                if pv and any(v == "Some" for _, v in pv):
                    ap = a["pat"]
                    if ap.get("pats"):
                        pat = ap["pats"][0]
                    elif ap.get("fields"):
                        pat = ap["fields"][0]["pat"]
            break
    if it is None or pat is None:
        return None
    return pat, it


def rem_eq_zero_in(cond):
    return any(rem_eq_zero(c) for c in split_and(cond))


def increments_of(loop, lid):
    out = []
    for n, ps in F.walk(loop["body"]):
        if n.get("k") == "AssignOp" and F.local_of(n["l"]) == lid:
            out.append((n, ps))
        if n.get("k") == "Assign" and F.local_of(n["l"]) == lid:
            out.append((n, ps))
    return out


def check(fx, rep, tier):
    cg = F.CallGraph(fx)
    # poll helpers: a function whose whole body is `a % b == 0 && <watchdog>.should_stop()` with a, b parameters; a call
    # of it is a poll with the cadence given by the arguments
    helpers = {}
    for b in fx.fn_bodies():
        hir = b.get("hir")
        if not hir or (fx.fns.get(b["def"], {}).get("output") or "").strip() != "bool":
            continue
        body = hir["value"]
        while body.get("k") == "Block" and not body["block"]["stmts"] and "expr" in body["block"]:
            body = body["block"]["expr"]
        conj = split_and(body)
        cad = [rem_eq_zero(c) for c in conj if rem_eq_zero(c)]
        polls = [c for c in conj if rem_eq_zero(c) is None]
        if len(cad) == 1 and len(polls) == 1 and F.strip(polls[0]).get("k") == "MethodCall" and F.callee_def(F.strip(polls[0])) == SHOULD_STOP:
            plids = [p.get("local") for p in hir["params"]]
            ci, ii = F.local_of(cad[0][0]), F.local_of(cad[0][1])
            if ci in plids and ii in plids:
                helpers[b["def"]] = (plids.index(ci), plids.index(ii))
    # whole-poll helpers: a function whose body is `if a % b == 0 && <watchdog>.should_stop() { return Err(stopped) } Ok(())` with
    # a, b parameters: calling it (and propagating its result) is a poll with the cadence given by the arguments
    full_helpers = {}
    for b in fx.fn_bodies():
        hir = b.get("hir")
        if not hir or b["def"] in helpers or "Result" not in (fx.fns.get(b["def"], {}).get("output") or ""):
            continue
        polls_in = [(c, cps) for c, cps in F.calls(hir["value"]) if F.callee_def(c) == SHOULD_STOP]
        if len(polls_in) != 1 or enclosing_loop(polls_in[0][1]) is not None:
            continue
        pc, pps = polls_in[0]
        hiff = next((a for a, k_ in reversed(pps) if isinstance(a, dict) and a.get("k") == "If" and k_ == "cond"), None)
        if hiff is None:
            continue
        hconj = split_and(hiff["cond"])
        hcad = [rem_eq_zero(c) for c in hconj if rem_eq_zero(c)]
        plids = [p.get("local") for p in hir["params"]]
        if len(hcad) == 1 and F.local_of(hcad[0][0]) in plids and F.local_of(hcad[0][1]) in plids:
            # nothing else of substance in the helper: the `if` and the final Ok(())
            top = hir["value"]
            stmts = top["block"]["stmts"] if top.get("k") == "Block" else []
            if len([st for st in stmts if st.get("s") != "Let"]) + (1 if top.get("k") == "Block" and top["block"].get("expr") is not None else 0) <= 2:
                full_helpers[b["def"]] = {"ci": plids.index(F.local_of(hcad[0][0])), "ii": plids.index(F.local_of(hcad[0][1])), "iff": hiff, "poll": pc, "fn": b}
    sites = []
    for b in fx.fn_bodies():
        hir = b.get("hir")
        if not hir or b["def"] in helpers or b["def"] in full_helpers:
            continue
        for n, ps in F.calls(hir["value"]):
            if F.callee_def(n) == SHOULD_STOP:
                sites.append((b, n, ps))
            else:
                for t in cg.resolve_local(n):
                    if t in helpers or t in full_helpers:
                        sites.append((b, n, ps))
    rep.floor("R13.1", len(sites), 10, "polls (calls of Watchdog::should_stop)")
    per_fn = {}
    for b, n, ps in sites:
        rep.fn(b["def"])
        per_fn[b["def"]] = per_fn.get(b["def"], 0) + 1
        key_base = f"{F.strip_generics(b['def'])}#{per_fn[b['def']]}"
        w = F.loc(n["span"])
        root = b["hir"]["value"]
        loop = enclosing_loop(ps)
        if loop is None:
            rep.oblige(False, "R13.1", f"poll-in-loop:{key_base}", w, f"`{b['def']}` polls the watchdog outside any loop: the loop's work is not monitored")
            continue
        loop_ps = None
        for m, mps in F.walk(root):
            if m is loop:
                loop_ps = mps
        # the If whose condition contains the call
        iff = None
        full = next((full_helpers[t] for t in cg.resolve_local(n) if t in full_helpers), None) if F.callee_def(n) != SHOULD_STOP else None
        pn = n
        if full is not None:
            # the poll lives in the helper; here its result has to be handed on
            handed_on = any(isinstance(a, dict) and a.get("k") == "Match" and "TryDesugar" in (a.get("source") or "") for a, _ in ps[-3:]) or T.explicit_err_exit(ps)
            rep.oblige(handed_on, "R13.2", f"stop-propagated:{key_base}", w, f"`{b['def']}` does not hand on the result of its poll helper: a stop is ignored")
            iff = {"k": "If", "cond": full["iff"]["cond"], "then": full["iff"]["then"], "span": n["span"]}
            pn = full["poll"]
        for anc, key in reversed(ps):
            if full is not None:
                break
            if anc.get("k") == "If" and key == "cond":
                iff = anc
                break
            if anc.get("k") in ("Loop", "Closure"):
                break
        if iff is None:
            rep.oblige(False, "R13.5", f"answer-used-as-condition:{key_base}", w, "the watchdog's answer is not used directly as a branch condition")
            continue
        conj = split_and(iff["cond"])
        # nested form `if counter % interval == 0 { if should_stop() { .. } }`: the enclosing ifs (then-branches, up to
        # the loop) contribute their conjuncts
        seen_iff = False
        for anc, key in reversed(ps):
            if anc is iff:
                seen_iff = True
                continue
            if not seen_iff:
                continue
            if anc.get("k") in ("Loop", "Closure"):
                break
            if anc.get("k") == "If" and key == "then" and not anc.get("exp") and "Desugar" not in str(anc.get("source", "")):
                conj = conj + split_and(anc["cond"])
        cadence = None
        for c in conj:
            r = rem_eq_zero(c)
            if r:
                cadence = r
        via_helper = next((helpers[t] for t in cg.resolve_local(n) if t in helpers), None)
        if full is not None:
            via_helper = (full["ci"], full["ii"])
        if via_helper is not None:
            allargs = F.call_args(n)
            if max(via_helper) < len(allargs):
                cadence = (allargs[via_helper[0]], allargs[via_helper[1]])
        call_is_conjunct = any(F.strip(c) is pn or any(x is pn for x, _ in F.walk(c)) and F.strip(c).get("k") == "MethodCall" for c in conj)
        others = [c for c in conj if rem_eq_zero(c) is None and not any(x is pn for x, _ in F.walk(c))]
        # the cadence test comes first: `&&` short-circuits, so with the operands the other way round the watchdog is asked
        # on every iteration (and a stop it signals is ignored unless the counter happens to be aligned)
        order_ok = True
        if (via_helper is None or full is not None) and cadence is not None:
            idx_c = next((i for i, c in enumerate(conj) if rem_eq_zero(c)), None)
            idx_p = next((i for i, c in enumerate(conj) if any(x is pn for x, _ in F.walk(c))), None)
            own = split_and(iff["cond"])
            if idx_c is not None and idx_p is not None and any(rem_eq_zero(c) for c in own) and any(any(x is pn for x, _ in F.walk(c)) for c in own):
                order_ok = idx_c < idx_p
        ok_shape = cadence is not None and call_is_conjunct and not others and order_ok
        rep.oblige(
            ok_shape,
            "R13.1",
            f"poll-shape:{key_base}",
            w,
            "the poll is not of the form `counter % interval == 0 && should_stop()`" + (f" (extra conditions: {len(others)})" if others else "") + ("" if order_ok else " (the watchdog is asked before the cadence test: it is polled on every iteration)"),
            sample={"rule": "R13.1", "fn": b["def"], "at": w, "shape": "counter % interval == 0 && should_stop()" if ok_shape else "other"},
        )
        # the poll is reached on every iteration: it is not nested under another condition and no `continue` can skip it
        outer_if = iff
        for anc, key in reversed(ps):
            if anc.get("k") == "If" and key == "then" and not anc.get("exp") and any(x is iff for x, _ in F.walk(anc["then"])) and rem_eq_zero_in(anc["cond"]):
                outer_if = anc
        pk = T._span_key(outer_if["span"])
        skipping = []
        for m, mps in F.walk(loop["body"]):
            if m.get("k") == "Continue" and not m.get("exp"):
                inner_loop = any(a.get("k") == "Loop" for a, _ in mps)
                if not inner_loop and T._span_key(m["span"])[1] < pk[1]:
                    skipping.append(m)
        conditional = False
        seen_loop = False
        for anc, key in ps:
            if anc is loop:
                seen_loop = True
                continue
            if not seen_loop or anc is outer_if or anc is iff:
                continue
            if anc.get("k") in ("If", "Match") and not anc.get("exp") and "Desugar" not in str(anc.get("source", "")) and any((x is outer_if) or (full is not None and x is n) for x, _ in F.walk(anc)):
                if anc.get("k") == "If" and key == "cond":
                    continue
                conditional = True
        rep.oblige(
            not skipping and not conditional,
            "R13.1",
            f"poll-every-iteration:{key_base}",
            w,
            (f"a `continue` at {F.loc(skipping[0]['span'])} skips the poll: iterations that take it are never polled, so a poll falling on one is lost" if skipping else "the poll sits under another condition: iterations that do not satisfy it are never polled"),
        )
        if cadence is None:
            continue
        counter_e, interval_e = cadence
        # interval: bound from poll_every() outside the loop
        il = F.local_of(interval_e)
        iv_ok = False
        if il is not None:
            for m, mps in F.walk(root):
                if m.get("s") == "Let" and m["pat"].get("p") == "Bind" and m["pat"]["local"] == il and "init" in m:
                    init = F.strip(m["init"])
                    is_poll = init.get("k") == "MethodCall" and init.get("def") == POLL_EVERY
                    outside = not any(x is m for x, _ in F.walk(loop))
                    mutated = il in T.mutated_locals(root)
                    iv_ok = is_poll and outside and not mutated
        rep.oblige(iv_ok, "R13.1", f"interval:{key_base}", w, "the poll interval is not the (unmodified) value of poll_every() taken before the loop")
        # counter
        cl = F.local_of(counter_e)
        c_ok = False
        why = "the poll counter is not a loop-iteration counter"
        if cl is not None:
            parts = for_loop_parts(loop, loop_ps or ())
            if parts:
                pat, it = parts
                binds = F.pat_bindings(pat)
                if cl in binds and binds[cl][1] and binds[cl][1][0] == ("tuple", "0"):
                    itx = F.strip(it)
                    if itx.get("k") == "MethodCall" and itx["method"] == "enumerate":
                        c_ok = True
                    else:
                        why = "the counter is the first tuple element of the loop pattern but the iterator is not `.enumerate()`d at the outermost level"
                # `for count in 0..n`: the loop variable of a unit-step range counts the iterations itself
                if not c_ok and pat.get("p") == "Bind" and pat.get("local") == cl:
                    itx = F.strip(it)
                    if itx.get("k") == "Struct" and str(itx.get("adt", "")).endswith(("ops::Range", "ops::RangeInclusive", "ops::RangeFrom")):
                        c_ok = True
                    else:
                        why = "the counter is the loop variable but the iterator is not a plain unit-step range"
            if not c_ok:
                incs = increments_of(loop, cl)
                unit = [x for x in incs if x[0].get("k") == "AssignOp" and x[0]["op"] in ("Add", "AddAssign") and T.term(x[0]["r"], T.Env()) == ("lit", "1")]
                bad = [x for x in incs if x not in unit]
                if unit and not bad and len(unit) == 1:
                    inc, ips = unit[0]
                    # top level of the loop body: no If/Match/closure between the loop body and the increment
                    nested = False
                    seen_loop = False
                    for anc, key in ips:
                        if anc.get("k") in ("If", "Match", "Closure", "Loop"):
                            # desugared while-let / for wrappers belong to the loop itself
                            if anc.get("exp") or "Desugar" in str(anc.get("source", "")) or anc.get("source") in ("ForLoopDesugar", "WhileLetDesugar") or "ForLoop" in str(anc.get("source", "")) or "While" in str(anc.get("source", "")):
                                continue
                            nested = True
                    # `continue` anywhere in the loop (outside nested loops) skips it when it precedes the increment
                    ik = T._span_key(inc["span"])
                    skipping = []
                    for m, mps in F.walk(loop["body"]):
                        if m.get("k") == "Continue" and not m.get("exp"):
                            inner_loop = any(a.get("k") == "Loop" for a, _ in mps)
                            if not inner_loop and T._span_key(m["span"])[1] < ik[1]:
                                skipping.append(m)
                    if nested:
                        why = "the counter increment is conditional"
                    elif skipping:
                        why = f"a `continue` at {F.loc(skipping[0]['span'])} skips the counter increment: those iterations are not counted towards the poll interval"
                    else:
                        c_ok = True
                elif bad:
                    why = "the poll counter is modified by something other than `+= 1`"
                elif len(unit) > 1:
                    why = "the poll counter is incremented more than once per iteration"
        rep.oblige(
            c_ok,
            "R13.1",
            f"counter:{key_base}",
            w,
            f"`{b['def']}`: {why}; the loop does not poll once per `poll_every()` iterations",
            sample={"rule": "R13.1", "fn": b["def"], "counter": "ok" if c_ok else why},
        )
        # R13.2 ----------------------------------------------------------------------------
        then = iff["then"]
        kinds = {m.get("variant") or (m.get("def") or "").split("::")[-1] for m, _ in F.walk(then) if (m.get("k") == "Path" and "::Error::" in (m.get("def") or "")) or (m.get("k") == "Struct" and "Error" in str(m.get("adt")))}
        leaves = any((m.get("k") == "Match" and "TryDesugar" in m.get("source", "")) or m.get("k") == "Ret" for m, _ in F.walk(then))
        swallowed = any(m.get("k") in ("Break", "Continue") and not m.get("exp") for m, _ in F.walk(then))
        rep.oblige(
            STOPPED in kinds and leaves and not swallowed and "else" not in iff,
            "R13.2",
            f"stop-final:{key_base}",
            F.loc(then["span"]),
            f"when the watchdog says stop `{b['def']}` does not leave with a StoppedByWatchdog error (kinds={sorted(k for k in kinds if k)}, returns={leaves}, break/continue={swallowed})",
            sample={"rule": "R13.2", "fn": b["def"], "error": STOPPED, "leaves_function": leaves},
        )
        # nothing after the error expression in the then-block
        if then.get("k") == "Block":
            stmts = then["block"]["stmts"]
            tail = then["block"].get("expr")
            n_stmt = sum(1 for st in stmts if st.get("s") != "Let") + (1 if tail is not None else 0)
            rep.oblige(n_stmt == 1, "R13.2", f"stop-only:{key_base}", F.loc(then["span"]), "the stop branch does more than raise the stop error")
        # the stop branch itself cannot crash: where it looks up the value of a type variable to locate the error, every type
        # variable has a value (the verified state invariant of C01)
        if any(c.get("k") == "MethodCall" and (c.get("def") or "").startswith("tc::state::TypeCheckerState::value") for c, _ in F.calls(then)):
            from .c01 import state_invariant_holds

            ok_inv, why_inv = state_invariant_holds(fx)
            rep.oblige(ok_inv, "R13.2", f"stop-cannot-panic:{key_base}", F.loc(then["span"]), f"the stop branch of `{b['def']}` looks up the value of a type variable to locate its error, and not every type variable has a value: {why_inv} - a stop on such a variable panics instead of returning the stopped-by-watchdog error", sample={"rule": "R13.2", "fn": b["def"], "lookup": "value_unchecked"})

    # ---------------------------------------------------------------- R13.4 (named long-running loops poll)
    WORK = {
        "vm::state::memory::Memory::store": "bulk memory copy",
        "tc::lift::LiftingPasses::run": "lifting",
        "tc::state::TypeCheckerState::register": "variable assignment",
        "tc::rule::InferenceRules::infer": "inference",
        "tc::unification::merge": "unification",
        "tc::TypeChecker::abi_type_for": "layout building",
        "opcode::Opcode::execute": "VM main loop",
    }
    polled_loops = {id(enclosing_loop(ps)) for b, n, ps in sites if enclosing_loop(ps) is not None}
    n_work = 0
    entries = [b["def"] for b in fx.fn_bodies() if (b.get("impl_self") or "").startswith("extractor::Extractor<") and b.get("name") == "analyze"]
    rep.anchor("R13.4", bool(entries), "the one-call entry point Extractor::analyze")
    pipeline = cg.reachable(entries)
    for b in fx.fn_bodies():
        hir = b.get("hir")
        if not hir or b.get("from_expansion") or b["def"] not in pipeline:
            continue
        root = b["hir"]["value"]
        for n, ps in F.calls(root):
            cd = F.callee_def(n) or ""
            if cd not in WORK:
                continue
            if cd == "opcode::Opcode::execute" and "dyn " not in (n.get("resolved") or ""):
                continue
            lp = enclosing_loop(ps)
            if lp is None:
                continue
            # any enclosing loop in this function that polls counts
            loops_up = [anc for anc, key in ps if anc.get("k") == "Loop"]
            n_work += 1
            ok = any(id(l) in polled_loops for l in loops_up)
            rep.oblige(
                ok,
                "R13.4",
                f"work-loop:{F.strip_generics(b['def'])}:{cd.split('::')[-1]}",
                F.loc(lp["span"]),
                f"the loop in `{b['def']}` doing {WORK[cd]} work (`{cd}`) never polls the watchdog: the analysis cannot be stopped while it runs",
                sample={"rule": "R13.4", "fn": b["def"], "work": WORK[cd], "polled": ok} if n_work <= 12 else None,
            )
    rep.floor("R13.4", n_work, 9, "long-running loops named by the property")
    # loops whose length is bounded by the *configured* memory-operation limit are as long as the bulk copies: they must poll too
    LIMIT_FIELDS = ("max_single_operation_bytes", "single_memory_operation_size_limit")
    n_lim = 0
    for b in fx.fn_bodies():
        hir = b.get("hir")
        if not hir or b.get("from_expansion") or b["def"] not in pipeline:
            continue
        root = hir["value"]
        mutated = None
        for m, mps in F.exprs(root, "Match"):
            if "ForLoop" not in m.get("source", ""):
                continue
            if mutated is None:
                mutated = T.mutated_locals(root)
            it = T.term(m["scrut"], T.env_at(mps, m, mutated), mutated)
            if not any(st[0] == "field" and st[2] in LIMIT_FIELDS for st in T.subterms(it)):
                continue
            n_lim += 1
            loops_in = [x for x, _ in F.walk(m) if x.get("k") == "Loop"]
            ok = any(id(l) in polled_loops for l in loops_in)
            rep.oblige(
                ok,
                "R13.4",
                f"limit-bounded-loop:{F.strip_generics(b['def'])}#{n_lim}",
                F.loc(m["span"]),
                f"the loop in `{b['def']}` runs for as many iterations as the configured memory-operation limit allows and never polls the watchdog: with that limit raised, an instruction spends an unbounded amount of unmonitored work here",
                sample={"rule": "R13.4", "fn": b["def"], "bounded_by": "memory-operation limit", "polled": ok},
            )
    rep.floor("R13.4", n_lim, 3, "loops bounded by the configured memory-operation limit")

    # the stop kind is never filtered by permissive mode (R17.1's normal form) ------------------
    vm = VMModel(fx, cg)
    if not vm.problems:
        from ..vmmodel import EXEC_ERR, mentions_flag

        for m, ps in F.exprs(vm.main_loop["hir"]["value"], "Match"):
            for a in m["arms"]:
                pv = F.pat_variants(a["pat"])
                if pv and all(x == EXEC_ERR for x, _ in pv) and (mentions_flag(a["body"]) or ("guard" in a and mentions_flag(a["guard"]))):
                    ks = {v for _, v in pv}
                    rep.oblige(STOPPED not in ks, "R13.2", "stop-not-filtered", F.loc(a["span"]), "StoppedByWatchdog is among the error kinds tolerated in permissive mode: a stopped run could return a layout")
        # an opcode-level stop error reaches the main loop's Err arm: the execute result is matched, not discarded
        en, eps = vm.exec_call
        discarded = any(anc.get("s") == "Let" and anc["pat"].get("p") == "Wild" for anc, _ in eps)
        rep.oblige(not discarded, "R13.2", "exec-result-used", F.loc(en["span"]), "the result of an opcode's execute is discarded in the main loop")

    # a stop raised inside an opcode's copy loop only retires that thread; the analysis ends when the main loop's next poll is told
    # to stop AGAIN. The answers of the library's own watchdogs are therefore plain reads: answering does not consume the request.
    WRITES = {"swap", "store", "fetch_and", "fetch_or", "fetch_xor", "fetch_nand", "fetch_add", "fetch_sub", "fetch_update", "fetch_max", "fetch_min", "compare_exchange",
              "compare_exchange_weak", "compare_and_swap", "set", "replace", "take", "borrow_mut", "get_mut", "lock", "write", "try_lock", "try_write", "send"}
    n_impl = 0
    for b in fx.fn_bodies():
        if b.get("name") != "should_stop" or not b.get("hir") or "Watchdog" not in (b.get("impl_trait") or b["def"]):
            continue
        if b.get("in_test"):
            continue
        n_impl += 1
        rep.fn(b["def"])
        bad = sorted({n["method"] for n, _ in F.calls(b["hir"]["value"]) if n.get("k") == "MethodCall" and n["method"] in WRITES} | {"assignment" for n, _ in F.walk(b["hir"]["value"]) if n.get("k") in ("Assign", "AssignOp")})
        rep.oblige(not bad, "R13.2", f"answer-is-a-read:{F.strip_generics(b['def']) if not b['def'].startswith('<') else b['def']}", F.loc(b["span"]), f"`{b['def']}` changes the watchdog's state while answering ({bad}): a stop request is consumed by the first poll that sees it, and a poll inside an instruction's copy loop only retires that thread - the main loop is then told to carry on and runs every remaining thread", sample={"rule": "R13.2", "impl": b["def"], "writes": bad})
    rep.floor("R13.2", n_impl, 2, "implementations of Watchdog::should_stop in the library")

    # ---------------------------------------------------------------- R13.3
    n_stage = 0
    for b in fx.fn_bodies():
        out = fx.fns.get(b["def"], {}).get("output", "")
        staged = (b.get("impl_self") or "").startswith("extractor::Extractor<") and "Result" in out
        if ("layout::StorageLayout" not in out or "Result" not in out) and not staged:
            continue
        rep.fn(b["def"])
        root = b["hir"]["value"]
        for n, ps in F.calls(root):
            ty = n.get("ty") or ""
            if not ty.startswith("std::result::Result<"):
                continue
            locs = cg.resolve_local(n)
            if not locs:
                continue
            if any(a.get("k") == "Closure" for a, _ in ps) and not staged:
                continue
            n_stage += 1
            under_try = False
            for anc, key in reversed(ps[-4:]):
                if anc.get("k") == "Match" and "TryDesugar" in anc.get("source", ""):
                    under_try = True
            # tail expression of the function
            is_tail = True
            for anc, key in ps:
                if "stmts" in anc and key == "stmts":
                    is_tail = False
                if anc.get("k") in ("Call", "MethodCall") and anc is not n:
                    is_tail = False
            # matched explicitly with an Err arm that returns
            matched = False
            for anc, key in reversed(ps):
                if anc.get("k") == "Match" and key == "scrut" and "TryDesugar" not in anc.get("source", ""):
                    for a in anc["arms"]:
                        pv = F.pat_variants(a["pat"])
                        if pv and any(v == "Err" for _, v in pv):
                            # the Err arm leaves with an error on EVERY path (a conditional return lets a stopped stage fall through)
                            leaves = [F.strip(x) for x in T.result_leaves(a["body"])]
                            if T.diverges(a["body"]) or (leaves and all(x.get("k") == "Call" and (F.path_def(x["f"]) or "").endswith("::Err") for x in leaves)):
                                matched = True
            matched = matched or T.explicit_err_exit(ps)
            rep.oblige(
                under_try or is_tail or matched,
                "R13.3",
                f"propagate:{F.strip_generics(b['def'])}:{F.strip_generics(locs[0]).split('::')[-1]}",
                F.loc(n["span"]),
                f"`{b['def']}` does not propagate the failure of `{locs[0]}`: a stopped or failed stage could still lead to a layout",
                sample={"rule": "R13.3", "fn": b["def"], "stage": locs[0], "propagated": "?" if under_try else "tail"} if n_stage <= 8 else None,
            )
    rep.floor("R13.3", n_stage, 8, "fallible stage calls in functions returning a layout")
    # ... and the one-call entry points pass through every stage (a shortcut around a stage is a path on which the watchdog is
    # never polled and a stop never surfaces): shared with C17 R17.7
    from .. import core as _core3

    _core3.import_rules(rep, fx, "C17", "R13.3", only_rules=("R17.7",), floor=2, what="pipeline-complete obligations (C17 R17.7): every non-error exit of analyze() / run() has passed through every stage")

    # ---------------------------------------------------------------- R13.5
    n_pe = 0
    for b in fx.fn_bodies():
        hir = b.get("hir")
        if not hir:
            continue
        root = hir["value"]
        for n, ps in F.calls(root):
            if F.callee_def(n) != POLL_EVERY:
                continue
            n_pe += 1
            w = F.loc(n["span"])
            # must be the init of a let binding a local used only as `% local`
            lid = None
            for anc, key in reversed(ps):
                if anc.get("s") == "Let" and key == "init" and anc["pat"].get("p") == "Bind":
                    lid = anc["pat"]["local"]
                break
            if lid is None:
                in_rem = any(anc.get("k") == "Binary" and anc["op"] == "Rem" and key == "r" for anc, key in ps[-2:])
                rep.oblige(in_rem, "R13.5", f"interval-use:{F.strip_generics(b['def'])}", w, "poll_every()'s value is used for something other than the poll divisor")
                continue
            uses = [(m, mps) for m, mps in F.walk(root) if m.get("k") == "Path" and m.get("res") == "local" and m.get("local") == lid]
            def as_divisor(m, mps):
                if mps and mps[-1][0].get("k") == "Binary" and mps[-1][0]["op"] == "Rem" and mps[-1][1] == "r":
                    return True
                # handed to a poll helper in its interval position
                for anc, key in reversed(mps[-3:]):
                    if anc.get("k") in ("Call", "MethodCall"):
                        for t in cg.resolve_local(anc):
                            if t in helpers or t in full_helpers:
                                allargs = F.call_args(anc)
                                idx = helpers[t][1] if t in helpers else full_helpers[t]["ii"]
                                return idx < len(allargs) and any(x is m for x, _ in F.walk(allargs[idx]))
                return False

            ok = all(as_divisor(m, mps) for m, mps in uses) and uses
            rep.oblige(bool(ok), "R13.5", f"interval-use:{F.strip_generics(b['def'])}", w, "poll_every()'s value is used for something other than the poll divisor")
    rep.floor("R13.5", n_pe, 9, "calls of poll_every")
    return rep.finish(
        "Every call of Watchdog::should_stop is checked for the canonical shape (in a loop; `counter % interval == 0 && should_stop()`; interval = poll_every() "
        "taken before the loop; counter = enumerate index or a local incremented by one on every path to the back edge), for finality of the stop branch "
        "(Err(StoppedByWatchdog) leaving the function, never filtered by permissive mode), plus `?`-propagation of every fallible stage in functions returning a layout "
        "and the uses of poll_every().",
        "instances = poll sites x {shape, interval, counter, finality}, stage calls, poll_every uses; enumerated over the whole crate",
        ["the numeric bound on further polls after a stop is not computed; loops that do not poll at all (set-up loops, iterator pipelines) are not enumerated by this check"],
    )
