"""C07 — every explored path computes what a concrete EVM computes on that path (four necessary structural clauses).

R07.1 stack effect   : for every opcode implementation, pops and pushes on the stack handle along the successful paths of execute
      (error branches excluded; counted loops evaluated; delegation followed) agree on all paths and equal (delta, alpha) of the
      byte's row in the independent EVM table, for all 256 bytes.
R07.2 operand roles  : the i-th popped value flows into the field of the result node that the oracle assigns to stack input i,
      the node is the oracle's variant, and the result is what is pushed; instructions the oracle marks as not exactly
      representable by their encoding are reported.
R07.3 stack indexing : DUPn duplicates frame n-1 and SWAPn swaps with frame n (linear form of the argument in the opcode's n);
      the stack indexes `top - frame`; PUSHn reads its immediate big-endian (reversal once on construction, little-endian read).
R07.4 branch isolation: the VM state and everything it owns contains no interior-mutability or shared-mutable type; nothing calls
      Arc::get_mut / make_mut; forking deep-copies the state (clone) and the thread is built from that copy; loads return the most
      recent generation.
"""
import re

from .. import facts as F
from .. import tables
from .. import terms as T
from ..disasm import DisasmModel, Lin

SVD = "vm::value::SymbolicValueData"
HANDLE = "vm::state::stack::LocatedStackHandle"


class Eff:
    """(pops, pushes) as linear forms a + b*n; plus flags."""

    def __init__(self, pops=(0, 0), pushes=(0, 0), dup=0, swap=0, diverges=False, notes=()):
        self.pops, self.pushes, self.dup, self.swap, self.diverges, self.notes = pops, pushes, dup, swap, diverges, tuple(notes)

    def __add__(self, o):
        if self.diverges:
            return self
        return Eff((self.pops[0] + o.pops[0], self.pops[1] + o.pops[1]), (self.pushes[0] + o.pushes[0], self.pushes[1] + o.pushes[1]), self.dup + o.dup, self.swap + o.swap, o.diverges, self.notes + o.notes)

    def times(self, k):
        return Eff((self.pops[0] * k[0], self.pops[0] * k[1]), (self.pushes[0] * k[0], self.pushes[0] * k[1]), self.dup, self.swap, self.diverges, self.notes)

    def key(self):
        return (self.pops, self.pushes, self.dup, self.swap)


class EffectAnalysis:
    def __init__(self, fx, cg):
        self.fx, self.cg = fx, cg
        self.memo = {}

    def of_body(self, b, depth=0):
        name = b["def"]
        if name in self.memo:
            return self.memo[name]
        self.memo[name] = Eff()  # recursion guard
        self.n_terms = {}
        e = self.ev(b["hir"]["value"], b, depth)
        self.memo[name] = e
        return e

    def lin_n(self, node, b):
        """Linear form in the opcode's own parameter n of an integer expression (self.n() / self.field)."""
        root = b["hir"]["value"]
        mutated = T.mutated_locals(root)
        # find parents of node to build env
        for m, ps in F.walk(root):
            if m is node:
                env = T.env_at(ps, node, mutated)
                t = T.term(node, env, mutated)
                return self.lin_term(t)
        return None

    def lin_term(self, t):
        if t[0] == "lit":
            try:
                return (int(t[1]), 0)
            except (TypeError, ValueError):
                return None
        if t[0] == "cast":
            return self.lin_term(t[1])
        if t[0] == "call" and isinstance(t[1], str):
            nm = F.strip_generics(t[1])
            if nm.endswith("::n") and len(t[2]) == 1:
                return (0, 1)
            if ("::from" in nm or "::into" in nm) and len(t[2]) == 1:
                return self.lin_term(t[2][0])
        if t[0] == "field" and t[1][0] == "local" and t[1][2] == "self":
            return (0, 1)
        if t[0] == "bin" and t[1] in ("Add", "Sub"):
            l, r = self.lin_term(t[2]), self.lin_term(t[3])
            if l is None or r is None:
                return None
            return (l[0] + r[0], l[1] + r[1]) if t[1] == "Add" else (l[0] - r[0], l[1] - r[1])
        return None

    def is_error_exit(self, e):
        """Does this expression unconditionally leave with Err (return Err(..) / Err(..)? ) ?"""
        e = F.strip(e)
        k = e.get("k")
        if k == "Ret":
            t = T.term(e, T.Env())
            return "Err" in T.short(t)[:60]
        if k == "Block":
            st = e["block"]["stmts"]
            last = e["block"].get("expr") or (st[-1].get("e") if st and st[-1].get("s") == "Expr" else None)
            return last is not None and self.is_error_exit(last)
        if k == "Match" and "TryDesugar" in e.get("source", ""):
            inner = e["scrut"]["args"][0] if e["scrut"].get("k") == "Call" and e["scrut"]["args"] else None
            if inner is not None:
                t = T.term(inner, T.Env())
                s = T.short(t)
                return s.startswith("std::prelude::v1::Err") or s.startswith("locate(std::prelude::v1::Err") or s.startswith("locate(Err")
        return False

    def ev(self, e, b, depth):
        k = e.get("k")
        if k is None:
            return Eff()
        if k == "Closure":
            return Eff()
        if k == "Block":
            acc = Eff()
            for s in e["block"]["stmts"]:
                if s.get("s") == "Let":
                    if "init" in s:
                        acc = acc + self.ev(s["init"], b, depth)
                    if "els" in s:
                        pass
                elif s.get("s") == "Expr":
                    if self.is_error_exit(s["e"]):
                        return Eff(acc.pops, acc.pushes, acc.dup, acc.swap, True, acc.notes)
                    acc = acc + self.ev(s["e"], b, depth)
                if acc.diverges:
                    return acc
            if "expr" in e["block"]:
                acc = acc + self.ev(e["block"]["expr"], b, depth)
            return acc
        if k == "Match" and "TryDesugar" in e.get("source", ""):
            sc = e["scrut"]
            inner = sc["args"][0] if sc.get("k") == "Call" and sc["args"] else sc
            if self.is_error_exit(e):
                return Eff(diverges=True)
            return self.ev(inner, b, depth)
        if k == "Match" and "ForLoop" in e.get("source", ""):
            # for pat in ITER { body }
            sc = e["scrut"]
            it = sc["args"][0] if sc.get("k") == "Call" and sc["args"] else sc
            pre = self.ev(it, b, depth)
            loop = None
            for n, _ in F.walk(e):
                if n.get("k") == "Loop":
                    loop = n
                    break
            body_eff = Eff()
            if loop is not None:
                for n, _ in F.walk(loop["body"]):
                    if n.get("k") == "Match" and "ForLoop" in n.get("source", ""):
                        for a in n["arms"]:
                            pv = F.pat_variants(a["pat"])
                            if pv and any(v == "Some" for _, v in pv):
                                body_eff = self.ev(a["body"], b, depth)
                        break
            if body_eff.key() == Eff().key():
                return pre
            # iteration count from a range a..b
            count = None
            itx = F.strip(it)
            rng = None
            for n, _ in F.walk(itx):
                if n.get("k") == "Struct" and (n.get("adt") or "").endswith("ops::Range"):
                    rng = n
            if rng is not None:
                fl = {f["field"]: f["e"] for f in rng["fields"]}
                lo, hi = self.lin_n(fl["start"], b), self.lin_n(fl["end"], b)
                if lo is not None and hi is not None:
                    count = (hi[0] - lo[0], hi[1] - lo[1])
            if count is None:
                return pre + Eff(notes=("loop with stack effect and unknown trip count",), pops=(10 ** 6, 0))
            return pre + body_eff.times(count)
        if k in ("If",):
            c = self.ev(e["cond"], b, depth)
            branches = [e["then"]] + ([e["else"]] if "else" in e else [])
            effs = [self.ev(x, b, depth) for x in branches]
            if "else" not in e:
                effs.append(Eff())
            live = [x for x in effs if not x.diverges]
            if not live:
                return c + Eff(diverges=True)
            keys = {x.key() for x in live}
            if len(keys) > 1:
                return c + Eff(notes=(f"branches at {F.loc(e['span'])} disagree: {sorted(keys)}",), pops=live[0].pops, pushes=live[0].pushes)
            return c + live[0]
        if k == "Match":
            c = self.ev(e["scrut"], b, depth)
            effs = []
            for a in e["arms"]:
                if self.is_error_exit(a["body"]):
                    continue
                x = self.ev(a["body"], b, depth)
                effs.append(x)
            live = [x for x in effs if not x.diverges]
            if not live:
                return c + Eff(diverges=True)
            keys = {x.key() for x in live}
            if len(keys) > 1:
                return c + Eff(notes=(f"arms at {F.loc(e['span'])} disagree: {sorted(keys)}",), pops=live[0].pops, pushes=live[0].pushes)
            return c + live[0]
        if k == "Loop":
            inner = self.ev({"k": "Block", "block": e["body"]}, b, depth)
            if inner.key() != Eff().key():
                return Eff(notes=("unbounded loop with stack effect",), pops=(10 ** 6, 0))
            return Eff()
        if k == "Ret":
            return (self.ev(e["e"], b, depth) if "e" in e else Eff()) + Eff(diverges=False)
        acc = Eff()
        if k == "MethodCall" and e["method"] in ("collect", "for_each", "count", "last", "sum", "try_for_each"):
            # a consumed iterator chain over a range: `(a..b).map(|_| stack.pop()).collect()` runs its closures once per element
            links, cur = [], e
            while F.strip(cur).get("k") == "MethodCall":
                cur = F.strip(cur)
                links.append(cur)
                cur = cur["recv"]
            base = F.strip(cur)
            clos = [(l, F.strip(a)) for l in links for a in l["args"] if F.strip(a).get("k") == "Closure"]
            effs = [(l, self.ev(c["body"], b, depth)) for l, c in clos]
            if any(x.key() != Eff().key() for _, x in effs):
                rng = base if base.get("k") == "Struct" and (base.get("adt") or "").endswith("ops::Range") else None
                plain = all(l["method"] in ("map", "into_iter", "for_each", "try_for_each", "collect", "count", "last", "sum", "inspect") for l in links)
                count = None
                if rng is not None and plain:
                    fl = {f["field"]: f["e"] for f in rng["fields"]}
                    lo, hi = self.lin_n(fl["start"], b), self.lin_n(fl["end"], b)
                    if lo is not None and hi is not None:
                        count = (hi[0] - lo[0], hi[1] - lo[1])
                if count is None:
                    return Eff(notes=("iterator chain with stack effect and unknown trip count",), pops=(10 ** 6, 0))
                for _, x in effs:
                    acc = acc + x.times(count)
                return acc
        if k == "MethodCall":
            acc = acc + self.ev(e["recv"], b, depth)
            for a in e["args"]:
                acc = acc + self.ev(a, b, depth)
            rt = e.get("recv_ty") or ""
            if HANDLE in rt or "vm::state::stack::Stack" in rt:
                m = e["method"]
                if m == "pop":
                    acc = acc + Eff(pops=(1, 0))
                elif m == "push":
                    acc = acc + Eff(pushes=(1, 0))
                elif m in ("dup", "duplicate"):
                    acc = acc + Eff(dup=1)
                elif m == "swap":
                    acc = acc + Eff(swap=1)
                return acc
            return acc + self.callee_effect(e, depth)
        if k == "Call":
            for a in e["args"]:
                acc = acc + self.ev(a, b, depth)
            return acc + self.callee_effect(e, depth)
        for key, c in F.children(e):
            if "k" in c:
                acc = acc + self.ev(c, b, depth)
            elif key == "fields" and "e" in c:
                acc = acc + self.ev(c["e"], b, depth)
        return acc

    def callee_effect(self, call, depth):
        if depth > 3:
            return Eff()
        locs = self.cg.resolve_local(call)
        if len(locs) != 1:
            return Eff()
        cb = self.fx.body(locs[0])
        if cb is None or "hir" not in cb:
            return Eff()
        # only follow callees that can touch the stack: they take the VM or a stack handle
        sig = self.fx.fns.get(cb["def"], {})
        ins = " ".join(sig.get("inputs", []))
        if "vm::VM" not in ins and "LocatedStackHandle" not in ins:
            return Eff()
        if cb["def"].startswith("vm::VM::") or cb["def"].startswith("vm::ValueBuilder") or cb["def"].startswith("opcode::util::validate"):
            return Eff()
        save = dict(self.memo)
        sub = EffectAnalysis(self.fx, self.cg)
        sub.memo = self.memo
        return sub.of_body(cb, depth + 1)


def check_r071(fx, rep, cg, dm):
    oracle = {int(r[0], 16): r for r in tables.read("evm_opcodes.tsv")}
    exec_body = {i.get("self_adt"): b for i, b in fx.trait_method_bodies("opcode::Opcode", "execute")}
    rep.floor("R07.1", len(exec_body), 70, "Opcode::execute implementations")
    byte_type = {}
    state_type = None
    for a in dm.arms:
        ts = sorted({t for t, _ in a["ctors"]})
        for x in a["bytes"]:
            byte_type[x] = ts[0] if len(ts) == 1 else None
    # the push opcode type is built from captured state: find it among constructors outside the table
    match_ids = {id(x) for x, _ in F.walk(dm.match)}
    for t, e in dm.ctors_in(dm.fn["hir"]["value"]):
        if id(e) not in match_ids and any(m.get("k") == "Path" and m.get("res") == "local" for m, _ in F.walk(e)) and t.endswith("PushN"):
            state_type = t
    ea = EffectAnalysis(fx, cg)
    effects = {}
    for t, b in sorted(exec_body.items()):
        rep.fn(b["def"])
        effects[t] = ea.of_body(b)
    checked = 0
    for x in range(256):
        t = byte_type.get(x)
        if t is None and x in oracle and oracle[x][1].startswith("PUSH") and oracle[x][1] != "PUSH0":
            t = state_type
        if t is None or t not in effects:
            rep.oblige(False, "R07.1", f"byte:{x:02x}", "-", f"no opcode implementation found for byte 0x{x:02x}")
            continue
        e = effects[t]
        row = oracle.get(x)
        mn = row[1] if row else "INVALID"
        delta, alpha = (int(row[2]), int(row[3])) if row else (0, 0)
        # n for parametrised families
        m = re.match(r"(DUP|SWAP|LOG|PUSH)(\d+)$", mn)
        n = int(m.group(2)) if m else 0
        pops = e.pops[0] + e.pops[1] * n
        pushes = e.pushes[0] + e.pushes[1] * n
        if mn.startswith("DUP"):
            ok = pops == 0 and pushes == 0 and e.dup == 1 and e.swap == 0  # net +1 via duplicate
        elif mn.startswith("SWAP"):
            ok = pops == 0 and pushes == 0 and e.swap == 1 and e.dup == 0
        else:
            ok = pops == delta and pushes == alpha and e.dup == 0 and e.swap == 0
        ok = ok and not e.notes
        checked += 1
        rep.oblige(
            ok,
            "R07.1",
            f"stack-effect:{mn if not m else m.group(1)+'n'}",
            F.loc(exec_body[t]["span"]),
            f"0x{x:02x} {mn}: `{t}` pops {pops} and pushes {pushes} (dup={e.dup}, swap={e.swap}) on its successful paths; the EVM takes {delta} and leaves {alpha}" + (f"; {'; '.join(e.notes)}" if e.notes else ""),
            sample={"rule": "R07.1", "byte": f"{x:02x}", "mnemonic": mn, "pops": pops, "pushes": pushes, "oracle": [delta, alpha]} if x in (0x01, 0x37, 0x57, 0x80, 0x91, 0xa3, 0xf1) else None,
        )
    rep.extra["bytes_checked"] = checked


def pops_in_order(b):
    """Locals bound to successive `stack.pop()?` calls, in source order (straight-line prefix of the body)."""
    out = []
    root = b["hir"]["value"]
    for n, ps in F.walk(root):
        if n.get("s") == "Let" and "init" in n and n["pat"].get("p") == "Bind":
            init = F.strip(n["init"])
            if init.get("k") == "Match" and "TryDesugar" in init.get("source", ""):
                inner = init["scrut"]["args"][0] if init["scrut"].get("k") == "Call" and init["scrut"]["args"] else None
                inner = F.strip(inner) if inner else None
                while inner is not None and inner.get("k") == "MethodCall" and inner["method"] in ("constant_fold",):
                    inner = F.strip(inner["recv"])
                    if inner.get("k") == "Match" and "TryDesugar" in inner.get("source", ""):
                        inner = F.strip(inner["scrut"]["args"][0])
                if inner is not None and inner.get("k") == "MethodCall" and inner["method"] == "pop" and HANDLE in (inner.get("recv_ty") or ""):
                    out.append((n["pat"]["local"], n["pat"]["name"], T._span_key(n["span"])[1]))
    out.sort(key=lambda x: x[2])
    return out


COMMUTATIVE = {"ADD", "MUL", "AND", "OR", "XOR", "EQ"}


def _pop_calls(root):
    pops = [(c, T._span_key(c["span"])) for c, _ in F.calls(root) if c.get("k") == "MethodCall" and c["method"] == "pop" and HANDLE in (c.get("recv_ty") or "")]
    pops.sort(key=lambda x: (x[1][1], x[1][2]))
    return [c for c, _ in pops]


def _binding_init(root, lid):
    """The expression a local is bound to by an immutable `let` (looking into tuple patterns), or None."""
    for n, _ in F.walk(root):
        if n.get("s") != "Let" or "init" not in n:
            continue
        pat = n["pat"]
        if pat.get("p") == "Bind" and pat.get("local") == lid:
            return n["init"]
        if pat.get("p") == "Tuple":
            init = n["init"]
            while init.get("k") in ("DropTemps", "Use"):
                init = init["e"]
            if init.get("k") == "Tup" and len(init["elems"]) == len(pat["pats"]):
                for sp, el in zip(pat["pats"], init["elems"]):
                    if sp.get("p") == "Bind" and sp.get("local") == lid:
                        return el
    return None


def origin_pop(root, expr, pops, depth=0):
    """Index (in evaluation order) of the stack pop an expression's value comes from, or None."""
    if depth > 6 or expr is None:
        return None
    inside = [i for i, pc in enumerate(pops) if any(x is pc for x, _ in F.walk(expr))]
    if len(inside) == 1:
        # only wrappers that keep the value (`?`, constant_fold, clone, references) may surround the pop
        return inside[0]
    if inside:
        return None
    lid = F.local_of(F.strip(expr))
    if lid is None:
        return None
    return origin_pop(root, _binding_init(root, lid), pops, depth + 1)


def derives_from(root, expr, target, depth=0):
    if depth > 6 or expr is None:
        return False
    if any(x is target for x, _ in F.walk(expr)):
        return True
    for x, _ in F.walk(expr):
        if x.get("k") == "Path" and x.get("res") == "local":
            init = _binding_init(root, x["local"])
            if init is not None and derives_from(root, init, target, depth + 1):
                return True
    return False


def value_is(root, expr, target, depth=0):
    """Is the value of `expr` the node `target` on every path (through lets, `?`, builder / clone / fold wrappers)? A `match` /
    `if` whose arms do not all yield the node is a shortcut around it."""
    if depth > 8 or expr is None:
        return False
    e = expr
    while e.get("k") in ("DropTemps", "Use", "AddrOf", "Cast", "Type") and "e" in e:
        e = e["e"]
    if e is target:
        return True
    if e.get("k") == "Block":
        blk = e["block"]
        return blk.get("expr") is not None and value_is(root, blk["expr"], target, depth + 1)
    if e.get("k") == "Match":
        if "TryDesugar" in (e.get("source") or ""):
            sc = e["scrut"]
            inner = sc["args"][0] if sc.get("k") == "Call" and sc.get("args") else sc
            return value_is(root, inner, target, depth + 1)
        arms = [a for a in e["arms"] if not T.diverges(a["body"])]
        return bool(arms) and all(value_is(root, a["body"], target, depth + 1) for a in arms)
    if e.get("k") == "If":
        outs = [x for x in (e.get("then"), e.get("else")) if x is not None and not T.diverges(x)]
        return "else" in e and bool(outs) and all(value_is(root, x, target, depth + 1) for x in outs)
    if e.get("k") == "Path" and e.get("res") == "local":
        return value_is(root, _binding_init(root, e["local"]), target, depth + 1)
    if e.get("k") in ("Call", "MethodCall"):
        subs = ([e["recv"]] if e.get("k") == "MethodCall" else []) + list(e.get("args", []))
        holding = [a for a in subs if any(x is target for x, _ in F.walk(a))]
        if len(holding) == 1:
            return value_is(root, holding[0], target, depth + 1)
        if not holding and e.get("k") == "MethodCall" and e["method"] in ("clone", "constant_fold", "into", "to_owned"):
            return value_is(root, e["recv"], target, depth + 1)
        # the builder handed a let-bound node: `let data = Node {..}; build().symbolic_exec(ip, data)`
        name = e["method"] if e.get("k") == "MethodCall" else (F.callee_def(e) or "").split("::")[-1]
        if not holding and name in ("symbolic_exec", "symbolic", "new", "new_synthetic", "new_from_execution", "into", "from", "Ok", "Some"):
            return any(value_is(root, a, target, depth + 1) for a in e.get("args", []))
        return False
    return False


def check_r072(fx, rep, dm):
    oracle_ops = {r[0]: r for r in tables.read("evm_operands.tsv")}
    opc = {int(r[0], 16): r[1] for r in tables.read("evm_opcodes.tsv")}
    byte_type = {}
    for a in dm.arms:
        ts = sorted({t for t, _ in a["ctors"]})
        for x in a["bytes"]:
            byte_type[x] = ts[0] if len(ts) == 1 else None
    exec_body = {i.get("self_adt"): b for i, b in fx.trait_method_bodies("opcode::Opcode", "execute")}
    n = 0
    for x, mn in sorted(opc.items()):
        if mn not in oracle_ops:
            continue
        node, roles, exact = oracle_ops[mn][1], oracle_ops[mn][2], oracle_ops[mn][3]
        t = byte_type.get(x)
        b = exec_body.get(t)
        if b is None:
            continue
        n += 1
        w = F.loc(b["span"])
        if not exact.startswith("yes"):
            # report the inexact encoding if it is (still) the one in use
            structs = [s.get("variant") for s, _ in F.walk(b["hir"]["value"]) if s.get("k") == "Struct" and s.get("adt") == SVD]
            inner = re.findall(r"[A-Za-z]+", node)
            still = all(v in structs for v in inner)
            rep.oblige(not still, "R07.2", f"inexact:{mn}", w, f"{mn} is encoded as {node}, which does not denote the EVM result: {exact[4:]}", sample={"rule": "R07.2", "mnemonic": mn, "encoding": node, "exact": False})
            continue
        root_b = b["hir"]["value"]
        pops = _pop_calls(root_b)
        want = roles.split(",")
        structs = [(s, ps) for s, ps in F.walk(b["hir"]["value"]) if s.get("k") == "Struct" and s.get("adt") == SVD and s.get("variant") == node]
        if len(structs) != 1:
            other = sorted({s.get("variant") for s, _ in F.walk(b["hir"]["value"]) if s.get("k") == "Struct" and s.get("adt") == SVD})
            rep.oblige(False, "R07.2", f"node:{mn}", w, f"{mn} must record a `{node}` node; its implementation builds {other}")
            continue
        s, sps = structs[0]
        got = {}
        for f in s["fields"]:
            got[f["field"]] = origin_pop(root_b, f["e"], pops)
        ok = len(pops) == len(want) and all(got.get(fld) == i for i, fld in enumerate(want))
        if not ok and mn in COMMUTATIVE and len(pops) == 2 and sorted(v for v in got.values() if v is not None) == [0, 1]:
            ok = True  # a + b = b + a: either order denotes the EVM result
        # the node built is what gets pushed
        pushed = False
        other_push = False
        for c, cps in F.calls(root_b):
            if c.get("k") == "MethodCall" and c["method"] == "push" and HANDLE in (c.get("recv_ty") or "") and c["args"]:
                if value_is(root_b, c["args"][0], s):
                    pushed = True
                else:
                    other_push = True  # a path that leaves something else on the stack (a shortcut around the node)
        pushed = pushed and not other_push
        needs_push = mn not in ("SELFDESTRUCT",)
        rep.oblige(
            ok and (pushed or not needs_push),
            "R07.2",
            f"roles:{mn}",
            F.loc(s["span"]),
            f"{mn}: stack inputs must go to {node}{{{', '.join(f'{f}: mu{i}' for i, f in enumerate(want))}}}; found {{{', '.join(f'{f}: mu{v}' if v is not None else f'{f}: ?' for f, v in sorted(got.items()))}}}" + ("" if pushed or not needs_push else "; the node is not what is pushed on every path"),
            sample={"rule": "R07.2", "mnemonic": mn, "node": node, "roles": got},
        )
    rep.floor("R07.2", n, 25, "instructions with an operand-role row")


def check_effect_roles(fx, rep, dm):
    """R07.2 (effects): the stack input that the EVM uses as memory offset / storage key / size / stored value is the one that
    reaches that argument of the memory or storage model (tables/evm_effects.tsv), at every place the implementation performs the
    operation (constant-size loop and symbolic branch alike). Roles are traced by pop identity through lets, clones, folds and the
    `offset + i*32` nodes of the copy loops."""
    rows = tables.read("evm_effects.tsv")
    opc = {r[1]: int(r[0], 16) for r in tables.read("evm_opcodes.tsv")}
    byte_type = {}
    for a in dm.arms:
        ts = sorted({t for t, _ in a["ctors"]})
        for x in a["bytes"]:
            byte_type[x] = ts[0] if len(ts) == 1 else None
    exec_body = {i.get("self_adt"): b for i, b in fx.trait_method_bodies("opcode::Opcode", "execute")}
    RECV = {"Memory": "vm::state::memory::Memory", "Storage": "vm::state::storage::Storage"}
    n = 0
    for mn, sink, spec in rows:
        x = opc.get(mn)
        b = exec_body.get(byte_type.get(x)) if x is not None else None
        if b is None:
            continue
        root = b["hir"]["value"]
        pops = _pop_calls(root)
        for _hop in range(2):
            # `Call.execute(vm)`: an implementation that is another instruction's, as it stands
            if pops:
                break
            dels = [c for c, _ in F.calls(root) if c.get("k") == "MethodCall" and c["method"] == "execute" and (c.get("recv_ty") or "").replace("&", "").strip() in exec_body]
            if len(dels) != 1:
                break
            b = exec_body[(dels[0].get("recv_ty") or "").replace("&", "").strip()]
            root = b["hir"]["value"]
            pops = _pop_calls(root)
        sites = []
        for c, cps in F.calls(root):
            if "::" in sink:
                owner, meth = sink.split("::")
                if c.get("k") == "MethodCall" and c["method"] == meth and RECV[owner] in (c.get("recv_ty") or ""):
                    sites.append(c)
            elif c.get("k") == "Call" and F.strip_generics(F.callee_def(c) or "").split("::")[-1] == sink:
                sites.append(c)
        if "::" not in sink:
            # the sink is a helper of the instruction's module that was read in place: the call site is the inlined block
            for blk, _ in F.walk(root):
                if blk.get("k") == "Block" and F.strip_generics(str(blk.get("inlined_from") or "")).split("::")[-1] == sink:
                    sites.append({"k": "Call", "args": F.INLINED_ARGS.get(blk.get("inlined_id"), []), "span": blk.get("span")})
        n += 1
        if not sites:
            rep.oblige(False, "R07.2", f"effect:{mn}:{sink}", F.loc(b["span"]), f"{mn} must perform `{sink}`; its implementation does not call it")
            continue
        bad = []
        for c in sites:
            for part in spec.split(";"):
                ai, rest = part.split("=")
                must, _, mustnot = rest.partition(":")
                arg = c["args"][int(ai)] if int(ai) < len(c["args"]) else None
                if arg is None:
                    bad.append(f"argument {ai} is missing")
                    continue
                for m_ in must.split("+"):
                    if int(m_) >= len(pops) or not derives_from(root, arg, pops[int(m_)]):
                        bad.append(f"argument {ai} of `{sink}` at {F.loc(c['span'])} does not come from stack input mu{m_}")
                for m_ in [y for y in mustnot.split(",") if y]:
                    if int(m_) < len(pops) and derives_from(root, arg, pops[int(m_)]):
                        bad.append(f"argument {ai} of `{sink}` at {F.loc(c['span'])} comes from stack input mu{m_}")
        rep.oblige(not bad, "R07.2", f"effect:{mn}:{sink}", F.loc(sites[0]["span"]), f"{mn}: " + "; ".join(bad[:3]) + " - the operation reads or writes a different place (or value) than the EVM does", sample={"rule": "R07.2", "mnemonic": mn, "sink": sink, "sites": len(sites), "spec": spec} if n <= 4 else None)
    rep.floor("R07.2", n, 20, "instructions with a memory / storage effect row")


def _ival(e, env, root, depth=0):
    """Integer value of a HIR expression under `env` (local id -> int); None if it is not arithmetic over env."""
    if e is None or depth > 12:
        return None
    e = F.strip(e)
    k = e.get("k")
    if k == "Lit" and e.get("value", {}).get("lit") == "int":
        try:
            return int(e["value"]["v"])
        except (TypeError, ValueError):
            return None
    if k == "Path" and e.get("res") == "local":
        if e["local"] in env:
            return env[e["local"]]
        init = _binding_init(root, e["local"])
        return _ival(init, env, root, depth + 1) if init is not None else None
    if k in ("Cast", "AddrOf") or (k == "Unary" and e.get("op") == "Deref"):
        return _ival(e["e"], env, root, depth + 1)
    if k == "Binary":
        l, r = _ival(e["l"], env, root, depth + 1), _ival(e["r"], env, root, depth + 1)
        if l is None or r is None:
            return None
        op = e["op"]
        if op == "Add":
            return l + r
        if op == "Sub":
            return l - r
        if op == "Mul":
            return l * r
        if op == "Div":
            return l // r if r else None
        if op == "Rem":
            return l % r if r else None
        if op == "Shr":
            return l >> r
        if op == "Shl":
            return l << r
        return None
    if k == "MethodCall":
        a0 = _ival(e["recv"], env, root, depth + 1)
        args = [_ival(a, env, root, depth + 1) for a in e["args"]]
        m = e["method"]
        if a0 is None or any(a is None for a in args):
            return None
        if m == "div_ceil" and args and args[0]:
            return -(-a0 // args[0])
        if m in ("min",) and args:
            return min(a0, args[0])
        if m in ("max",) and args:
            return max(a0, args[0])
        if m in ("saturating_add", "wrapping_add", "checked_add") and args:
            return a0 + args[0]
        if m in ("saturating_sub",) and args:
            return max(0, a0 - args[0])
        if m in ("next_multiple_of",) and args and args[0]:
            return -(-a0 // args[0]) * args[0]
        if m in ("into", "clone", "unwrap"):
            return a0
        return None
    if k == "Call":
        name = (F.callee_def(e) or "").split("::")[-1]
        if name in ("from", "into") and len(e["args"]) == 1:
            return _ival(e["args"][0], env, root, depth + 1)
        return None
    return None


def _iter_values(it, env, root):
    """The sequence an iterator expression yields (ranges with step_by / enumerate / rev-free), as python values; None if
    it is not such an expression."""
    it = F.strip(it)
    if it.get("k") == "MethodCall":
        base = _iter_values(it["recv"], env, root)
        if base is None:
            return None
        m = it["method"]
        if m == "step_by" and it["args"]:
            c = _ival(it["args"][0], env, root)
            return base[::c] if c else None
        if m == "enumerate":
            return list(enumerate(base))
        if m in ("into_iter", "iter"):
            return base
        return None
    if it.get("k") == "Struct" and str(it.get("adt", "")).endswith("ops::Range"):
        fl = {f["field"]: f["e"] for f in it["fields"]}
        lo, hi = _ival(fl.get("start"), env, root), _ival(fl.get("end"), env, root)
        return list(range(lo, hi)) if lo is not None and hi is not None and hi - lo < 100000 else None
    if it.get("k") == "Call" and "RangeInclusive" in (F.callee_def(it) or "") and len(it["args"]) == 2:
        lo, hi = _ival(it["args"][0], env, root), _ival(it["args"][1], env, root)
        return list(range(lo, hi + 1)) if lo is not None and hi is not None and hi - lo < 100000 else None
    if it.get("k") == "Struct" and "RangeInclusive" in str(it.get("adt", "")):
        fl = {f["field"]: f["e"] for f in it["fields"]}
        lo, hi = _ival(fl.get("start"), env, root), _ival(fl.get("end"), env, root)
        return list(range(lo, hi + 1)) if lo is not None and hi is not None else None
    return None


def check_copy_loops(fx, rep):
    """R07.2 (copy loops): an instruction that copies `size` bytes into memory word by word writes the words at offsets
    0, 32, .. below `size` - and no word at or beyond `destOffset + size`, which the EVM leaves untouched. The loop's iterator and
    the offset it adds to the destination are evaluated for sizes around the word boundaries."""
    from .c13 import for_loop_parts

    n = 0
    cands = [b for i_, b in fx.trait_method_bodies("opcode::Opcode", "execute")] + [b for b in fx.fn_bodies() if b["def"].startswith("opcode::") and b.get("hir") and not b.get("impl_self") and str(b.get("kind")).lower() == "fn"]
    for b in cands:
        root = b["hir"]["value"]
        k_loop = 0
        for loop, lps in F.exprs(root, "Loop"):
            if "ForLoop" not in (loop.get("source") or ""):
                continue
            stores = [c for c, _ in F.calls(loop["body"]) if c.get("k") == "MethodCall" and c["method"] in ("store", "store_8") and "vm::state::memory::Memory" in (c.get("recv_ty") or "")]
            if not stores:
                continue
            parts = for_loop_parts(loop, lps)
            k_loop += 1
            n += 1
            key = f"copy-loop:{F.strip_generics(b['def'])}#{k_loop}"
            if parts is None:
                rep.oblige(False, "R07.2", key, F.loc(loop["span"]), f"the copy loop of `{b['def']}` is not a `for` over a range: the words it writes cannot be compared with the copied region")
                continue
            pat, it = parts
            # the size variable: the (single) local the iterator's bounds mention
            size_l = None
            for x, _ in F.walk(it):
                if x.get("k") == "Path" and x.get("res") == "local":
                    size_l = x["local"]
                    break
            # ... looking through bindings that are plain arithmetic over one other local (`let words = size / 32 + 1`)
            for _hop in range(4):
                init = _binding_init(root, size_l) if size_l is not None else None
                if init is None:
                    break
                inner = [x["local"] for x, _ in F.walk(init) if x.get("k") == "Path" and x.get("res") == "local"]
                if len(set(inner)) == 1 and _ival(init, {inner[0]: 64}, root) is not None:
                    size_l = inner[0]
                else:
                    break
            # the size the loop runs to is the size operand itself: a clamp (`size.min(LIMIT)`) in front of the loop leaves the
            # words between LIMIT and size as they were, where the EVM overwrites them (with data or with zero padding). The
            # configured single-operation limit is the documented bound of copies of unknown data; any other clamp is reported.
            cur = next((x["local"] for x, _ in F.walk(it) if x.get("k") == "Path" and x.get("res") == "local"), None)
            for _hop in range(5):
                init = _binding_init(root, cur) if cur is not None else None
                if init is None:
                    break
                i_ = F.strip(init)
                if i_.get("k") == "MethodCall" and i_["method"] in ("min", "clamp") and i_["args"]:
                    lim = T.short(T.term(i_["args"][-1], T.Env()))
                    configured = "single_memory_operation_size_limit" in lim
                    rep.oblige(
                        configured,
                        "R07.2",
                        f"copy-clamp:{F.strip_generics(b['def'])}#{k_loop}",
                        F.loc(i_["span"]),
                        f"`{b['def']}` copies at most `{lim}` bytes whatever the size operand says: for a larger constant size the destination words beyond that bound keep their old contents, where a concrete EVM overwrites them (with the copied bytes or the zero padding)",
                        sample={"rule": "R07.2", "fn": b["def"], "clamp": lim, "class": "configured single-operation limit" if configured else "other"},
                    )
                    cur = F.local_of(F.strip(i_["recv"]))
                    continue
                inner = [x["local"] for x, _ in F.walk(init) if x.get("k") == "Path" and x.get("res") == "local"]
                if len(set(inner)) == 1:
                    cur = inner[0]
                else:
                    break
            # the value added to the destination: KnownWord::from(X) / X.into() inside the body
            adds = [c for c, _ in F.calls(loop["body"]) if c.get("k") == "Call" and (F.callee_def(c) or "").split("::")[-1] == "from" and (c.get("ty") or "").endswith("KnownWord") and len(c["args"]) == 1]
            adds += [c for c, _ in F.calls(loop["body"]) if c.get("k") == "MethodCall" and c["method"] == "into" and (c.get("ty") or "").endswith("KnownWord")]
            bound = [pb.get("local") for pb in ([pat] if pat.get("p") == "Bind" else pat.get("pats", [])) if isinstance(pb, dict)]
            bad = None
            for N in (0, 1, 31, 32, 33, 64, 65, 96):
                seq = _iter_values(it, {size_l: N} if size_l is not None else {}, root)
                if seq is None or not adds:
                    bad = "the loop's range or the offset it adds is not plain arithmetic over the copied size"
                    break
                offs = set()
                for v in seq:
                    vals = list(v) if isinstance(v, tuple) else [v]
                    env = {lid: val for lid, val in zip(bound, vals) if lid is not None}
                    if size_l is not None:
                        env[size_l] = N
                    o = _ival(adds[0]["args"][0] if adds[0].get("k") == "Call" else adds[0]["recv"], env, loop["body"])
                    if o is None:
                        bad = "the offset added to the destination is not plain arithmetic over the loop variables"
                        break
                    offs.add(o)
                if bad:
                    break
                want = {k32 * 32 for k32 in range((N + 31) // 32)}
                if offs != want:
                    extra = sorted(offs - want)
                    missing = sorted(want - offs)
                    bad = f"for a size of {N} bytes it writes the words at {sorted(offs)} (expected {sorted(want)})" + (f": {extra} lie at or beyond destOffset + size, memory the EVM leaves untouched" if extra else f": {missing} are never written")
                    break
            rep.oblige(bad is None, "R07.2", key, F.loc(loop["span"]), f"`{b['def']}`: {bad}", sample={"rule": "R07.2", "fn": b["def"], "loop": key, "sizes_evaluated": [0, 1, 31, 32, 33, 64, 65, 96]} if n <= 2 else None)
    rep.floor("R07.2", n, 5, "word-by-word copy loops in the opcode implementations")


def check_r073(fx, rep, cg, dm):
    exec_body = {i.get("self_adt"): b for i, b in fx.trait_method_bodies("opcode::Opcode", "execute")}
    ea = EffectAnalysis(fx, cg)
    for t, b in exec_body.items():
        for c, ps in F.calls(b["hir"]["value"]):
            if c.get("k") == "MethodCall" and c["method"] in ("dup", "swap") and HANDLE in (c.get("recv_ty") or ""):
                lf = ea.lin_n(c["args"][0], b)
                want = (-1, 1) if c["method"] == "dup" else (0, 1)
                rep.oblige(
                    lf == want,
                    "R07.3",
                    f"frame:{c['method']}",
                    F.loc(c["span"]),
                    f"`{t}` passes frame {lf[1] if lf else '?'}*n{lf[0]:+d} " if lf else f"`{t}` passes an unreadable frame " + f"to the stack's {c['method']}; {'DUPn must duplicate frame n-1' if c['method']=='dup' else 'SWAPn must swap with frame n'} (frames count from the top, 0-based)",
                    sample={"rule": "R07.3", "opcode": t, "call": c["method"], "frame": f"{lf[1]}*n{lf[0]:+d}" if lf else None},
                )
    # `n()` accessors return the stored field, and the disassembler stores byte - BASE (C10 R10.1 ties BASE to as_byte)
    for t in exec_body:
        for b in fx.fn_bodies():
            if b.get("impl_self") == t and b.get("name") == "n" and not b.get("impl_trait"):
                tm = T.block_term({"stmts": [], "expr": b["hir"]["value"]}, T.Env())
                rep.oblige(tm[0] == "field" and tm[1][0] == "local", "R07.3", f"n-accessor:{t}", F.loc(b["span"]), f"`{t}::n` returns `{T.short(tm)}` rather than the stored operand")
    # the stack: read / duplicate / swap index `top - frame`
    for meth in ("read", "duplicate", "swap"):
        b = fx.body(f"vm::state::stack::Stack::{meth}")
        if not rep.anchor("R07.3", b is not None, f"Stack::{meth}"):
            continue
        # the positional accesses of the method: `self.data[i]` / `self.data.swap(i, j)`; each index, read through lets and
        # through the stack's own private helpers (`self.frame_index(depth)?`, `self.top_frame_index()?`), is
        # `(len - 1) - frame` for the method's frame parameter (or `len - 1` itself: the top)
        root = b["hir"]["value"]
        mutated = T.mutated_locals(root)
        params = {p_["local"] for p_ in b["hir"]["params"] if p_.get("p") == "Bind" and p_.get("name") != "self"}
        idx_exprs = []
        for n, ps in F.walk(root):
            if n.get("k") == "Index":
                bs = n.get("e") or n.get("base") or n.get("lhs") or n.get("l")
                ix = n.get("index") or n.get("idx") or n.get("r")
                if bs is not None and ix is not None and T.short(T.term(bs, T.Env())).endswith("self.data"):
                    idx_exprs.append((ix, ps, n))
            if n.get("k") == "MethodCall" and n["method"] == "swap" and T.short(T.term(n["recv"], T.Env())).endswith("self.data"):
                for a_ in n["args"]:
                    idx_exprs.append((a_, ps, n))

        def strip_c(t):
            while isinstance(t, tuple) and t and t[0] in ("cast", "ref", "deref") and len(t) > 1:
                t = t[1]
            return t

        def is_top(t):
            t = strip_c(t)
            # `len.checked_sub(1).ok_or(err)?` is `len - 1` on the path that goes on (an empty stack leaves with the error)
            if isinstance(t, tuple) and t[0] == "call" and isinstance(t[1], str) and F.strip_generics(t[1]).split("::")[-1] in ("ok_or", "ok_or_else") and t[2]:
                t = strip_c(t[2][0])
            if isinstance(t, tuple) and t[0] == "call" and isinstance(t[1], str) and F.strip_generics(t[1]).split("::")[-1] == "checked_sub" and len(t[2]) == 2:
                t = ("bin", "Sub", t[2][0], t[2][1])
            return isinstance(t, tuple) and t[0] == "bin" and t[1] == "Sub" and strip_c(t[3]) == ("lit", "1") and strip_c(t[2])[0] == "call" and F.strip_generics(str(strip_c(t[2])[1])).endswith("::len") and "self.data" in T.short(strip_c(t[2]))

        subs = []
        ok = bool(idx_exprs)
        for ix, ps, n in idx_exprs:
            t = T.inline_calls(T.term(ix, T.env_at(ps, n, mutated), mutated), fx, 3, (), lambda d: d.startswith("vm::state::stack::Stack::"))
            t = strip_c(t)
            subs.append(T.short(t)[:60])
            good = is_top(t) or (isinstance(t, tuple) and t[0] == "bin" and t[1] == "Sub" and is_top(t[2]) and strip_c(t[3])[0] == "local" and strip_c(t[3])[1] in params)
            ok = ok and good
        rep.oblige(ok, "R07.3", f"stack-index:{meth}", F.loc(b["span"]), f"Stack::{meth} does not index `top - frame` ({subs})", sample={"rule": "R07.3", "method": meth, "index": subs})
    # push immediates: little-endian read of the (reversed-once) stored bytes
    for b in fx.fn_bodies():
        if b.get("name") == "bytes_as_word" and "PushN" in (b.get("impl_self") or ""):
            names = [F.strip_generics(F.callee_def(c) or "").split("::")[-1] for c, _ in F.calls(b["hir"]["value"])]
            ok = "from_le_bytes" in names and "from_be_bytes" not in names and "rev" not in names and "reverse" not in names
            rep.oblige(ok, "R07.3", "push-endianness", F.loc(b["span"]), f"PUSHn converts its stored immediate with {names}: the stored bytes are little-endian (reversed once on construction) and must be read with from_le_bytes, unreversed", sample={"rule": "R07.3", "push_word": names})
            pads = [c for c, _ in F.calls(b["hir"]["value"]) if (F.callee_def(c) or "").endswith("::resize")]
            if not pads:
                # a zeroed word-sized buffer the immediate is copied into: the array handed to from_le_bytes is a local
                # initialised with `[0; N]`
                root = b["hir"]["value"]
                zeroed = set()
                for n, _ in F.walk(root):
                    if n.get("s") == "Let" and "init" in n and n.get("pat", {}).get("p") == "Bind":
                        i_ = F.strip(n["init"])
                        if i_.get("k") == "Repeat" and F.strip(i_["e"]).get("k") == "Lit" and str(F.strip(i_["e"])["value"].get("v")) in ("0", "0x0"):
                            zeroed.add(n["pat"].get("local"))
                for c, _ in F.calls(root):
                    if (F.callee_def(c) or "").endswith("from_le_bytes") and c.get("args") and F.local_of(c["args"][0]) in zeroed:
                        pads = [c]
            rep.oblige(bool(pads), "R07.3", "push-padding", F.loc(b["span"]), "PUSHn does not zero-extend a short immediate to a full word")


BAD_TYPES = ("Cell<", "RefCell<", "Mutex<", "RwLock<", "Atomic", "*mut ", "*const ", "UnsafeCell<", "OnceCell<", "OnceLock<", "LazyCell<", "LazyLock<", "Rc<")


def check_r074(fx, rep, cg):
    root_adt = "vm::state::VMState"
    if not rep.anchor("R07.4", fx.adt(root_adt) is not None, "the VM state type"):
        return
    seen = []
    stack = [root_adt]
    while stack:
        a = stack.pop()
        if a in seen or a not in fx.adts:
            continue
        seen.append(a)
        for v in fx.adts[a]["variants"]:
            for f in v["fields"]:
                ty = f["ty"]
                bad = [x for x in BAD_TYPES if x in ty]
                rep.oblige(not bad, "R07.4", f"no-shared-mutable:{a}.{f['name']}", F.loc(fx.adts[a]["span"]), f"`{a}::{f['name']}: {ty}` contains {bad}: a write after a fork could become visible in the sibling path")
                for other in fx.adts:
                    if re.search(r"(?<![A-Za-z0-9_:])" + re.escape(other) + r"(?![A-Za-z0-9_])", ty):
                        stack.append(other)
    rep.floor("R07.4", len(seen), 6, "types owned by the VM state")
    rep.extra["state_types"] = seen
    # Clone is derived (a full copy) for each of them
    for a in seen:
        impls = [i for i in fx.impls if i.get("self_adt") == a and i.get("trait") == "std::clone::Clone"]
        if a.startswith("vm::") and impls:
            rep.oblige(all(i.get("from_expansion") for i in impls), "R07.4", f"derived-clone:{a}", F.loc(fx.adts[a]["span"]), f"`{a}` has a hand-written Clone: forking may not copy all of the state")
    # nobody mutates through an Arc
    for b in fx.fn_bodies():
        for c, ps in F.calls(b["hir"]["value"]):
            cd = F.strip_generics(F.callee_def(c) or "")
            if cd in ("std::sync::Arc::get_mut", "std::sync::Arc::make_mut", "std::sync::Arc::get_mut_unchecked", "std::rc::Rc::get_mut", "std::rc::Rc::make_mut"):
                rep.oblige(False, "R07.4", f"arc-mutation:{F.strip_generics(b['def'])}", F.loc(c["span"]), f"`{b['def']}` mutates a shared value in place through `{cd.split('::')[-1]}`")
    # fork = clone + fork point; thread built from it
    fk = fx.body("vm::state::VMState::fork")
    if rep.anchor("R07.4", fk is not None, "VMState::fork"):
        names = [F.strip_generics(F.callee(c) or F.callee_def(c) or "") for c, _ in F.calls(fk["hir"]["value"])]
        clones = [n for n in names if n.endswith("::clone") and "VMState" in n]
        writes = [n for n, _ in F.walk(fk["hir"]["value"]) if n.get("k") == "Assign"]
        fields = sorted({w["l"].get("field") for w in writes if w["l"].get("k") == "Field"})
        rep.oblige(len(clones) == 1 and fields in ([], ["fork_point"]), "R07.4", "state-fork-is-clone", F.loc(fk["span"]), f"VMState::fork is not `self.clone()` plus the fork point (clones={len(clones)}, fields written={fields})", sample={"rule": "R07.4", "fork": "clone + fork_point"})
    tf = fx.body("vm::thread::VMThread::fork")
    if rep.anchor("R07.4", tf is not None, "VMThread::fork"):
        names = [F.strip_generics(F.callee_def(c) or "") for c, _ in F.calls(tf["hir"]["value"])]
        rep.oblige("vm::state::VMState::fork" in names, "R07.4", "thread-fork-copies-state", F.loc(tf["span"]), "VMThread::fork does not deep-copy the state through VMState::fork")
    # loads return the most recent generation
    for name in ("vm::state::storage::Storage::load", "vm::state::memory::Memory::get_or_initialize"):
        b = fx.body(name)
        if b is None:
            b = next((x for k, x in fx.bodies.items() if F.strip_generics(k) == name), None)
        if rep.anchor("R07.4", b is not None, name):
            ms = [F.strip_generics(F.callee_def(c) or "").split("::")[-1] for c, _ in F.calls(b["hir"]["value"])]
            ok = "last" in ms and not any(m in ms for m in ("first", "nth", "get"))
            rep.oblige(ok, "R07.4", f"most-recent:{name.split('::')[-1]}", F.loc(b["span"]), f"`{name}` does not return the most recent generation ({[m for m in ms if m in ('first','last','nth','get')]})", sample={"rule": "R07.4", "fn": name, "returns": "last()"})


def check_byte_order(fx, rep, cg):
    """A native integer (an instruction pointer, a size, a constant of the implementation) becomes a word in native order.
    The byte-swapping conversions of the word type exist for big-endian *data*; nothing on the analysis path may push a
    number through them."""
    WORD = "vm::value::known::KnownWord"
    swappers = {}
    n_methods = 0
    for b in fx.fn_bodies():
        if b.get("impl_self") != WORD:
            continue
        n_methods += 1
        names = [F.strip_generics(F.callee(c) or F.callee_def(c) or "") for c, _ in F.calls(b["hir"]["value"])]
        if any(n.endswith(("::swap_bytes", "::to_be", "::from_be")) and ("ethnum" in n or "U256" in n or "I256" in n) for n in names):
            swappers[b["def"]] = [n.split("::")[-1] for n in names if n.endswith(("::swap_bytes", "::to_be", "::from_be"))]
    rep.floor("R07.3", n_methods, 20, "methods of the known-word type scanned for byte swapping")
    rep.floor("R07.3", len(swappers), 1, "byte-swapping conversions of the known-word type")
    from .c01 import reachable_bodies

    _entries, bodies = reachable_bodies(fx, cg)
    users = []
    for name in sorted(bodies):
        b = fx.body(name)
        if not b or not b.get("hir") or b.get("impl_self") == WORD:
            continue
        for c, ps in F.calls(b["hir"]["value"]):
            for t in cg.resolve_local(c):
                if t in swappers:
                    users.append((b, c, t))
    rep.oblige(
        not users,
        "R07.3",
        "byte-order",
        F.loc(users[0][1]["span"]) if users else "-",
        (f"`{users[0][0]['def']}` builds or reads a word through the byte-swapping conversion `{users[0][2].split('::')[-1]}`: a native number p becomes p * 2^k instead of p" if users else ""),
        sample={"rule": "R07.3", "byte_swapping_conversions": sorted(k.split("::")[-1] for k in swappers), "callers_on_analysis_path": len(users)},
    )


def check_pc_value(fx, rep, rule="R07.2"):
    """PC pushes the offset of the PC instruction itself: the constant it builds is the current instruction pointer converted to
    a word, with no arithmetic on the way."""
    tables_ops = {int(r[0], 16): r[1] for r in tables.read("evm_opcodes.tsv")}
    pc_byte = next((x for x, mn in tables_ops.items() if mn == "PC"), None)
    dm = DisasmModel(fx)
    t = None
    for a in dm.arms:
        if pc_byte in a["bytes"]:
            ts = sorted({t for t, _ in a["ctors"]})
            t = ts[0] if len(ts) == 1 else None
    exec_body = {i.get("self_adt"): b for i, b in fx.trait_method_bodies("opcode::Opcode", "execute")}
    b = exec_body.get(t)
    if not rep.anchor(rule, b is not None, "the implementation of the PC opcode (byte 0x58)"):
        return
    root = b["hir"]["value"]
    mutated = T.mutated_locals(root)
    ok = False
    why = "no constant built from the instruction pointer is pushed"
    for c, cps in F.calls(root):
        if c.get("k") == "MethodCall" and c["method"] in ("known", "known_exec") and len(c["args"]) >= 2:
            vt = T.term(c["args"][1], T.env_at(cps, c, mutated), mutated)
            ops = [st for st in T.subterms(vt) if st[0] == "bin" or (st[0] == "call" and isinstance(st[1], str) and F.strip_generics(st[1]).split("::")[-1] in ("saturating_sub", "saturating_add", "wrapping_sub", "wrapping_add", "checked_sub", "checked_add", "pred", "succ"))]
            from_ip = any(st[0] == "call" and isinstance(st[1], str) and F.strip_generics(st[1]).endswith("instruction_pointer") for st in T.subterms(vt))
            if from_ip and not ops:
                ok = True
            elif from_ip:
                why = f"the pushed constant is computed from the instruction pointer with arithmetic (`{T.short(vt)[:60]}`)"
    rep.oblige(ok, rule, "pc-value", F.loc(b["span"]), f"PC does not push the offset of the PC instruction itself: {why}; every jump target computed from PC is off", sample={"rule": rule, "opcode": "PC", "pushes": "instruction pointer as it stands" if ok else why})


def check_conversion_width(fx, rep, rule="R07.4"):
    """The conversions of a word to `usize` / `u64` (used as memory keys, sizes and offsets) keep as many bits as the target
    holds: they must not route through a narrower integer."""
    KW = "vm::value::known::KnownWord"
    n = 0
    narrow = ("as_u8", "as_u16", "as_u32", "as_i8", "as_i16", "as_i32")
    for i in fx.impls:
        tr = i.get("trait_full") or i.get("trait") or ""
        if "std::convert::From<" not in tr or KW not in tr:
            continue
        target = i.get("self_ty") or i.get("self_adt") or ""
        if target.strip() not in ("usize", "u64", "u128"):
            continue
        for it in i.get("items", []):
            b = fx.body(it["def"])
            if not b or not b.get("hir"):
                continue
            n += 1
            rep.fn(b["def"])
            bad = []
            for c, _ in F.calls(b["hir"]["value"]):
                nm = F.strip_generics(F.callee(c) or F.callee_def(c) or "")
                last = nm.split("::")[-1]
                if last in narrow:
                    bad.append(last)
                rt = (c.get("ty") or "").strip()
                if rt in ("u8", "u16", "u32", "i8", "i16", "i32"):
                    bad.append(f"{last}->{rt}")
            for x, _ in F.walk(b["hir"]["value"]):
                if x.get("k") == "Cast" and (x["e"].get("ty") or "").strip() in ("u8", "u16", "u32", "i8", "i16", "i32"):
                    bad.append("cast from " + x["e"]["ty"].strip())
            rep.oblige(not bad, rule, f"conversion-width:{target.strip()}:{it['def'][-40:]}", F.loc(b["span"]), f"the conversion of a word to `{target.strip()}` goes through a narrower integer ({sorted(set(bad))}): constants that differ only above those bits name the same memory word / size", sample={"rule": rule, "impl": tr[:60], "target": target.strip()})
    rep.floor(rule, n, 1, "conversions of a word to usize / u64")


def check_cell_key_width(fx, rep):
    """R07.4 (cell keys): the memory and storage models address their cells with keys at least as wide as the native word the
    offsets were converted to (usize): a map keyed by a narrower integer, or a key narrowed with `as`, makes distant offsets
    share one cell (an MLOAD of a word never written returns what was stored 2^32 bytes away)."""
    NARROW = ("u8", "u16", "u32", "i8", "i16", "i32")
    n = 0
    for adt_name in ("vm::state::memory::Memory", "vm::state::storage::Storage"):
        adt = fx.adt(adt_name)
        if not rep.anchor("R07.4", adt is not None, adt_name):
            continue
        for f in adt["variants"][0]["fields"]:
            ty = (f.get("ty") or "").replace(" ", "")
            m = re.match(r"^std::collections::(HashMap|BTreeMap)<([^,<>]+),", ty)
            if not m:
                continue
            n += 1
            rep.oblige(m.group(2) not in NARROW, "R07.4", f"cell-key-type:{adt_name.split('::')[-1]}.{f['name']}", "-", f"`{adt_name}`.{f['name']} is keyed by `{m.group(2)}`: offsets that differ by a multiple of 2^{ {'u8': 8, 'i8': 8, 'u16': 16, 'i16': 16}.get(m.group(2), 32) } name the same cell", sample={"rule": "R07.4", "field": f["name"], "key_type": m.group(2)})
        for b in fx.fn_bodies():
            if b.get("impl_self") != adt_name or not b.get("hir"):
                continue
            for c, _ in F.calls(b["hir"]["value"]):
                if c.get("k") == "MethodCall" and c["method"] in ("entry", "get", "get_mut", "insert", "remove", "contains_key") and "collections::" in (c.get("recv_ty") or "") and c["args"]:
                    casts = [x for x, _ in F.walk(c["args"][0]) if x.get("k") == "Cast" and (x.get("ty") or "") in NARROW]
                    n += 1
                    if casts:
                        rep.oblige(False, "R07.4", f"cell-key-cast:{F.strip_generics(b['def'])}", F.loc(c["span"]), f"`{b['def']}` narrows a cell key with `as {casts[0].get('ty')}`: distant offsets share one cell")
    rep.floor("R07.4", n, 6, "cell maps and keyed accesses of the memory / storage models")


def check_key_agreement(fx, rep, cg):
    """Writers and readers of one keyed store (storage, memory) must normalise the key the same way before looking it up:
    a write filed under `fold(key)` is invisible to a read that looks under `key`."""
    from ..vmmodel import VMModel

    vm = VMModel(fx, cg)
    reach = cg.reachable({b["def"] for b in vm.opcode_execs})
    n_fam = 0
    for adt_name, adt in sorted(fx.adts.items()):
        if not adt_name.startswith("vm::state") or not adt.get("variants"):
            continue
        flds = {f["name"] for f in adt["variants"][0]["fields"] if "HashMap<" in f["ty"] and "Vec<" in f["ty"]}
        if not flds:
            continue
        family = {}
        for b in fx.fn_bodies():
            if b.get("impl_self") != adt_name or b["def"] not in reach:
                continue
            hir = b["hir"]
            params = hir["params"]
            if len(params) < 2 or params[1].get("p") != "Bind":
                continue
            # read together with the type's own private helpers (a map-selection helper shared by writer and reader)
            hir = F.inline_module_helpers(fx, b, max_nodes=400, methods=True)["hir"]
            if not any(n.get("k") == "Field" and n.get("field") in flds for n, _ in F.walk(hir["value"])):
                continue
            kty = (fx.fns.get(b["def"], {}).get("inputs") or [None, ""])[1].lstrip("&").strip()
            if "SymbolicValue" not in kty:
                continue
            lid = params[1]["local"]
            sig = set()
            for c, ps in F.calls(hir["value"]):
                if c.get("k") == "MethodCall" and F.local_of(F.strip(c["recv"])) == lid and (c.get("ty") or "").lstrip("&").strip() == kty and c["method"] != "clone":
                    sig.add(c["method"])
            # a shadowing / aliasing let of a normalised key counts through the method call above; a key that is replaced
            # by an arbitrary expression before the lookup is caught as "normalised" too
            family[b["def"]] = sig
            rep.fn(b["def"])
        if len(family) < 2:
            continue
        n_fam += 1
        sigs = {frozenset(v) for v in family.values()}
        rep.oblige(
            len(sigs) == 1,
            "R07.4",
            f"key-agreement:{adt_name}",
            F.loc(adt["span"]),
            f"the writers and readers of `{adt_name}` do not normalise the key the same way before the lookup ({ {k.split('::')[-1]: sorted(v) for k, v in sorted(family.items())} }): a value written under one form of the key is not found under the other",
            sample={"rule": "R07.4", "store": adt_name, "key_normalisation": {k.split("::")[-1]: sorted(v) for k, v in sorted(family.items())}},
        )
        # ... and the normal form is the folded one: a key computed from constants (`2 + 3`) names the cell the literal `5` names
        common = set.intersection(*[set(v) for v in family.values()]) if family else set()
        rep.oblige(
            "constant_fold" in common,
            "R07.4",
            f"key-folded:{adt_name}",
            F.loc(adt["span"]),
            f"the writers and readers of `{adt_name}` look the key up as it stands, without folding it first ({sorted(common)}): a value written under a computed constant key (`2 + 3`) is not found under the literal key (`5`) and the other way round, where a concrete EVM addresses one cell",
            sample={"rule": "R07.4", "store": adt_name, "normalisation_common_to_all": sorted(common)},
        )
    rep.floor("R07.4", n_fam, 2, "keyed stores (storage, memory) with a writer and a reader on the execution path")


def check_history_only_writes(fx, rep, rule="R07.4"):
    """`Each path's storage history lists exactly the writes performed on that path`: an element enters a key's history only as a
    value handed to the store operation. A history that is started with a made-up element (a placeholder inserted by the READ of
    a never-written key) lists something that is not a write."""
    from .c06 import history_fields

    n = 0
    for adt in ("vm::state::storage::Storage",):
        hf = history_fields(fx, adt)
        for b in fx.fn_bodies():
            if b.get("impl_self") != adt or not b.get("hir"):
                continue
            root = b["hir"]["value"]
            params = {p_["local"] for p_ in b["hir"]["params"] if p_.get("p") == "Bind"}
            for c, ps in F.calls(root):
                if c.get("k") != "MethodCall" or c["method"] not in ("or_insert", "or_insert_with", "push", "insert"):
                    continue
                rt = (c.get("recv_ty") or "")
                if not ("Entry<" in rt or "Vec<" in rt or "HashMap<" in rt) or "SymbolicValue" not in rt:
                    continue
                n += 1
                made_up = []
                for a in c["args"]:
                    for x, xps in F.walk(a):
                        if x.get("k") == "Struct" and x.get("adt") == "vm::value::SymbolicValueData":
                            made_up.append(x.get("variant"))
                rep.oblige(
                    not made_up,
                    rule,
                    f"history-only-writes:{F.strip_generics(b['def'])}:{c['method']}",
                    F.loc(c["span"]),
                    f"`{b['def']}` puts a made-up `{made_up[0] if made_up else '?'}` value into a key's history (`{c['method']}`): the history of a slot that is read before it is written then lists an entry that is not a write of the path",
                    sample={"rule": rule, "fn": b["def"], "call": c["method"], "made_up": made_up},
                )
    rep.floor(rule, n, 2, "insertions into the per-key storage history")


def check(fx, rep, tier):
    cg = F.CallGraph(fx)
    dm = DisasmModel(fx)
    if not rep.anchor("R07.1", dm.ok, "; ".join(dm.problems) or "disassembler byte table"):
        return rep.finish("anchor lost", "n/a")
    check_r071(fx, rep, cg, dm)
    check_r072(fx, rep, dm)
    check_effect_roles(fx, rep, dm)
    check_copy_loops(fx, rep)
    check_r073(fx, rep, cg, dm)
    check_r074(fx, rep, cg)
    check_key_agreement(fx, rep, cg)
    check_history_only_writes(fx, rep)
    check_cell_key_width(fx, rep)
    check_byte_order(fx, rep, cg)
    check_pc_value(fx, rep)
    check_conversion_width(fx, rep)
    from .c18 import check_limit_writers

    check_limit_writers(fx, rep, "R07.2", "value_size_limit")
    # the path's storage/memory history lists every write (append-only, unconditional) — shared with C06 R06.1
    from .c06 import check_r061
    from .c18 import check_r184

    class Re:
        def __init__(self, rep, rule):
            self.rep, self.rule = rep, rule

        def __getattr__(self, k):
            return getattr(self.rep, k)

        def oblige(self, ok, rule, key, where, msg, sample=None):
            return self.rep.oblige(ok, self.rule, key, where, msg, sample)

        def anchor(self, rule, ok, what):
            return self.rep.anchor(self.rule, ok, what)

        def floor(self, rule, count, minimum, what):
            return self.rep.floor(self.rule, count, minimum, what)

    check_r061(fx, Re(rep, "R07.4"))
    # every instruction result of up to `limit` nodes is kept (cull comparison is `>`), so it still denotes the EVM result
    check_r184(fx, Re(rep, "R07.2"))
    # the machine folds constants itself (memory offsets, jump targets): the folder must compute what the EVM computes (C09);
    # and a path ends exactly where the EVM ends it - after a halting, failing or tolerated-failing instruction (C08 R08.3)
    from .. import core as _core

    _core.import_rules(rep, fx, "C09", "R07.2", floor=100, what="constant-folding obligations (C09) behind offsets and targets the machine folds itself")
    _core.import_rules(rep, fx, "C08", "R07.4", only_rules=("R08.3",), floor=50, what="path-ending obligations (C08 R08.3)")
    rep.exhaustive = True
    return rep.finish(
        "Structural translation audit of the opcode implementations against independent EVM tables: stack effect of every implementation (all successful paths, counted loops, delegation) "
        "for all 256 bytes; operand roles of the ALU / comparison / bitwise / shift / unary-environment instructions; stack frame arithmetic of DUPn / SWAPn / the stack itself and push endianness; "
        "and absence of any shared-mutable channel between forked states.",
        "instances = 256 bytes x stack effect, instructions with a role row, frame forms, state-owned field types; all enumerated",
        ["numerical agreement of results is not decided here (constant folding is C09; ethnum is trusted); memory offsets are truncated to usize by design of the memory model (aliasing of offsets >= 2^64 is not alarmed)"],
    )
