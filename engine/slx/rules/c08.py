"""C08 — control flow exactly as the EVM allows, and both branches are taken.

R08.1 target validation   : the jump-target validator returns Ok(t) only after the operand folded to a constant, the *full*
      256-bit constant was converted to an offset by a checked conversion (no truncating narrowing anywhere on the way),
      an instruction exists at t, and that instruction is the JUMPDEST type; it returns that very t.
R08.2 validated moves only: every call that moves a thread (ExecutionThread::jump / at, VM::fork_current_thread,
      VMThread::fork, JumpTargets::fork_to) receives the Ok payload of a validator call in the same opcode body, or sits in the
      plumbing below such a call; the sets of callers are exactly the jump opcodes and that plumbing.
R08.3 halting opcodes end the path: for every byte the oracle marks halting (STOP, RETURN, REVERT, INVALID, SELFDESTRUCT and
      all unassigned bytes) the opcode type it is disassembled to kills the current thread unconditionally in execute; no
      non-halting opcode does.
R08.4 push data is never an instruction: the JUMPDEST type is produced only by the arm for byte 0x5b of the byte table (the
      table itself being reachable only when no immediate is pending — C10 R10.2).
R08.6 targets through memory: the function handing a stored value to a word load consults the recorded store size (a byte written by
      MSTORE8 is not a word).
R08.5 both outcomes explored: on the conditional jump's valid-target path the current thread is neither killed nor moved and
      the fork is conditional only on the per-target fork budget; on a bad target the fall-through thread survives.
"""
from .. import facts as F
from .. import tables
from .. import terms as T
from ..disasm import DisasmModel
from ..vmmodel import EXEC_ERR, JUMP_KINDS, VMModel, arm_kinds

JUMPDEST_TY = "opcode::control::JumpDest"
NARROWING = ("as_u8", "as_u16", "as_u32", "as_u64", "as_u128", "as_usize", "as_i32", "as_i64")
MOVERS = {
    "disassembly::ExecutionThread::jump": "jump",
    "disassembly::ExecutionThread::at": "at",
    "disassembly::ExecutionThread::jump_by": "jump_by",
    "vm::VM::fork_current_thread": "fork_current_thread",
    "vm::thread::VMThread::fork": "fork",
    "vm::data::JumpTargets::fork_to": "fork_to",
}


def find_validator(fx):
    """The function returning the validated target: calls ExecutionThread::instruction and tests `is::<JumpDest>`."""
    out = []
    for b in fx.fn_bodies():
        hir = b.get("hir")
        if not hir:
            continue
        fn = fx.fns.get(b["def"], {})
        if "u32" not in fn.get("output", "") or "Result" not in fn.get("output", ""):
            continue
        names = [F.callee(c) or "" for c, _ in F.calls(hir["value"])]
        # semantic anchor: the function that folds its operand to a constant, fetches the instruction at the resulting offset
        # and answers with that offset (whether it still tests the instruction's type is what R08.1 then checks)
        if any(n.endswith("::constant_fold") for n in names) and any("ExecutionThread::instruction" in n and not n.endswith("instruction_pointer") for n in names):
            out.append(b)
    return out


def check_validator(fx, rep, b):
    rep.fn(b["def"])
    root = b["hir"]["value"]
    mutated = T.mutated_locals(root)
    w = F.loc(b["span"])
    # Ok(..) results of the function
    oks = []
    for n, ps in F.walk(root):
        if n.get("k") == "Call" and (F.path_def(n["f"]) or "").endswith("::Ok") and not n.get("exp") and not any(a.get("k") == "Closure" for a, _ in ps):
            oks.append((n, ps))
    rep.oblige(len(oks) == 1, "R08.1", "single-ok", w, f"the validator has {len(oks)} Ok results; exactly one validated path is expected (unrecognised idiom)")
    if not oks:
        return
    okn, okps = oks[0]
    T.LET_ELSE_PROJECTIONS[0] = True  # `let KnownData { value, .. } = folded.data() else { return Err(..) }`
    try:
        env = T.env_at(okps, okn, mutated)
        tgt_local = F.local_of(okn["args"][0])
        tgt = T.term(okn["args"][0], env, mutated)
    finally:
        T.LET_ELSE_PROJECTIONS[0] = False
    # a conversion moved into a helper function of the same module is read through
    mod_prefix = b["def"].rsplit("::", 1)[0] + "::"
    tgt = T.inline_calls(tgt, fx, only=lambda nm: nm.startswith(mod_prefix) and nm != b["def"])
    # (a) derived from the folded constant through a checked conversion, no narrowing
    calls_in = [s for s in T.subterms(tgt) if s[0] == "call" and isinstance(s[1], str)]
    names = [F.strip_generics(s[1]) for s in calls_in]
    folded = any(n.endswith("::constant_fold") for n in names)
    narrowing = [n for n in names if n.split("::")[-1] in NARROWING]
    from_impls = [s[1] for s in calls_in if ("as std::convert::From<" in s[1] or "as std::convert::Into<" in s[1]) and ("KnownWord" in s[1]) and any(x in s[1] for x in ("<usize as", "<u32 as", "<u64 as", "for usize", "for u32"))]
    from_narrow = [s[1] for s in calls_in if s[1].startswith(("<usize as std::convert::From<", "<u32 as std::convert::From<", "<u64 as std::convert::From<")) and "KnownWord" in s[1]]
    casts = [s for s in T.subterms(tgt) if s[0] == "cast"]
    checked = [
        s
        for s in calls_in
        if s[1].startswith("<u32 as std::convert::TryFrom<ethnum::U256>>::try_from")
        or s[1].startswith("<ethnum::U256 as std::convert::TryInto<u32>>::try_into")
        or "TryFrom<ethnum::U256> for u32" in s[1]
        or "TryFrom<ethnum::uint::U256> for u32" in s[1]
    ]
    other_try = [s for s in calls_in if "TryFrom<" in s[1] and s not in checked]
    ok_a = folded and checked and not narrowing and not from_narrow and not casts and not other_try
    why = []
    if not folded:
        why.append("the operand is not constant-folded")
    if narrowing or from_narrow:
        why.append(f"truncating conversion {sorted(set(narrowing + [F.strip_generics(x) for x in from_narrow]))} on the target's path")
    if casts:
        why.append("`as` cast on the target's path")
    if other_try:
        why.append(f"checked conversion from a narrower integer ({F.strip_generics(other_try[0][1])[:60]}) — the value was already truncated")
    if not checked:
        why.append("no checked conversion of the full 256-bit constant to an offset")
    rep.oblige(
        bool(ok_a),
        "R08.1",
        "full-constant",
        F.loc(okn["span"]),
        "the validated jump target is not the full 256-bit constant: " + "; ".join(why),
        sample={"rule": "R08.1", "target": T.short(tgt)[:120], "checked_conversion": bool(checked), "narrowing": narrowing},
    )
    # the match producing the target: only KnownData yields a target, other arms return Err
    kd = False
    for m, ps in F.exprs(root, "Match"):
        for a in m["arms"]:
            pv = F.pat_variants(a["pat"])
            if pv and pv == {("vm::value::SymbolicValueData", "KnownData")}:
                kd = True
                others = [x for x in m["arms"] if x is not a]
                for o in others:
                    rets_err = any(r.get("k") == "Ret" for r, _ in F.walk(o["body"]))
                    rep.oblige(rets_err, "R08.1", "non-constant-rejected", F.loc(o["span"]), "a non-constant jump operand does not make the validator return an error")
    # `let KnownData { value, .. } = folded.data() else { return Err(..) }`
    for st_, _ in F.walk(root):
        if st_.get("s") == "Let" and st_.get("els") is not None and (F.pat_variants(st_["pat"]) or set()) == {("vm::value::SymbolicValueData", "KnownData")}:
            els = st_["els"]
            els_e = els if els.get("k") else {"k": "Block", "block": els}
            kd = True
            rep.oblige(T.diverges(els_e) and any(r.get("k") == "Ret" for r, _ in F.walk(els_e)), "R08.1", "non-constant-rejected", F.loc(st_["span"]), "a non-constant jump operand does not make the validator return an error")
    rep.oblige(kd, "R08.1", "constant-only", w, "the validator does not select the constant (KnownData) case of the folded operand")
    # (b) instruction exists at target, (c) is JumpDest; both before the Ok and on the same local
    inst_calls = []
    for n, ps in F.calls(root):
        if (F.callee_def(n) or "").endswith("ExecutionThread::instruction") and n.get("k") == "MethodCall":
            inst_calls.append((n, ps))
    ok_b = False
    inst_local = None
    for n, ps in inst_calls:
        arg_l = F.local_of(n["args"][0])
        if arg_l is not None and arg_l == tgt_local:
            # its None case must leave the function: ok_or(..)? / let-else / match
            leaves = any(a.get("k") == "Match" and "TryDesugar" in a.get("source", "") for a, _ in ps) or any(a.get("s") == "Let" and "els" in a for a, _ in ps)
            if leaves:
                ok_b = True
                for a, key in reversed(ps):
                    if a.get("s") == "Let" and a["pat"].get("p") == "Bind":
                        inst_local = a["pat"]["local"]
                        break
    # match form: `match thread.instruction(t) { Some(i) if i.is::<JumpDest>() => Ok(t), Some(_) => Err(..), None => Err(..) }`
    ok_c_match = False
    for n, ps in inst_calls:
        if F.local_of(n["args"][0]) is None or F.local_of(n["args"][0]) != tgt_local:
            continue
        m = next((a for a, key in reversed(ps) if a.get("k") == "Match" and key == "scrut" and "Desugar" not in str(a.get("source", ""))), None)
        if m is None:
            continue
        mine = [a for a in m["arms"] if any(x is okn for x, _ in F.walk(a["body"]))]
        others = [a for a in m["arms"] if a not in mine]
        if len(mine) != 1:
            continue
        arm = mine[0]
        some = any(v == "Some" for _, v in (F.pat_variants(arm["pat"]) or set()))
        binds = set(F.pat_bindings(arm["pat"]))
        g = arm.get("guard")
        guard_ok = False
        if g is not None:
            gc = F.strip(g)
            if gc.get("k") == "MethodCall" and (F.callee(gc) or "").endswith(f"::is::<{JUMPDEST_TY}>"):
                guard_ok = bool(binds & {x["local"] for x, _ in F.walk(gc["recv"]) if x.get("k") == "Path" and x.get("res") == "local"})
        errs = all(any(x.get("k") == "Call" and (F.path_def(x["f"]) or "").endswith("::Err") and not x.get("exp") for x, _ in F.walk(o["body"])) and not any(x.get("k") == "Call" and (F.path_def(x["f"]) or "").endswith("::Ok") and not x.get("exp") for x, _ in F.walk(o["body"])) for o in others)
        if some and others and errs:
            ok_b = True
            if guard_ok:
                ok_c_match = True
    rep.oblige(ok_b, "R08.1", "instruction-exists", w, "the validator does not require an instruction to exist at the very target it returns (out-of-range targets would be taken)")
    ok_c = False
    for n, ps in F.walk(root):
        if n.get("k") == "If":
            c = n["cond"]
            neg = False
            while c.get("k") == "Unary" and c.get("op") == "Not":
                neg = not neg
                c = c["e"]
            if c.get("k") == "MethodCall" and (F.callee(c) or "").endswith(f"::is::<{JUMPDEST_TY}>"):
                recv_locals = {m["local"] for m, _ in F.walk(c["recv"]) if m.get("k") == "Path" and m.get("res") == "local"}
                on_inst = inst_local in recv_locals
                branch = n["then"] if neg else n.get("else")
                jd_branch = n.get("else") if neg else n["then"]
                ok_in = lambda br: br is not None and any(x is okn for x, _ in F.walk(br))
                has_ok_ctor = lambda br: any(x.get("k") == "Call" and (F.path_def(x["f"]) or "").endswith("::Ok") and not x.get("exp") for x, _ in F.walk(br))
                has_err_ctor = lambda br: any(x.get("k") == "Call" and (F.path_def(x["f"]) or "").endswith("::Err") and not x.get("exp") for x, _ in F.walk(br))
                returns = branch is not None and any(r.get("k") == "Ret" for r, _ in F.walk(branch))
                # form 1: `if !is { return Err }` ... Ok(t) after the If
                form1 = returns and not ok_in(branch) and T._span_key(n["span"])[2] <= T._span_key(okn["span"])[1]
                # form 2: `if is { Ok(t) } else { Err(..) }` — the Ok lives in the JUMPDEST branch, the other branch
                # builds an error and no Ok
                form2 = branch is not None and ok_in(jd_branch) and not has_ok_ctor(branch) and (returns or has_err_ctor(branch))
                if on_inst and (form1 or form2):
                    ok_c = True
    ok_c = ok_c or ok_c_match
    rep.oblige(ok_c, "R08.1", "is-jumpdest", w, "the validator does not reject a target whose instruction is not the JUMPDEST opcode (on the instruction fetched for that target, before returning Ok)")


def check_move_bounds(fx, rep):
    """R08.2 (move bounds): the primitives that place a thread on an offset (`jump`, `at`) do so exactly when the offset is
    inside the stream: the write of the instruction pointer is guarded by `offset < len` with the stream's length as it stands.
    With `len - 1` the last instruction cannot be reached (a forked thread stays on its JUMPI); with `<=` one past the end can."""
    ET = "disassembly::ExecutionThread"
    n = 0
    for b in fx.fn_bodies():
        if b.get("impl_self") != ET or not b.get("hir"):
            continue
        # read with the thread's own methods in place: `jump` that is `self.at(target)` is the same primitive
        root = F.inline_module_helpers(fx, b, max_nodes=300, methods=True)["hir"]["value"]
        params = {p_["local"]: p_["name"] for p_ in b["hir"]["params"] if p_.get("p") == "Bind" and p_.get("name") != "self"}
        mutated = T.mutated_locals(root)
        for a, aps in F.walk(root):
            if a.get("k") != "Assign":
                continue
            lt = T.term(a["l"], T.Env(), mutated)
            if not (lt[0] == "field" and lt[2] == "instruction_pointer"):
                continue
            rl = F.local_of(F.strip(a["r"]))
            if rl not in params:
                continue  # stepping (ip + 1) is C03's R03.1
            n += 1
            env = T.env_at(aps, a, mutated)
            ok = False
            seen = []
            for lhs, rhs, strict in T.upper_bounds(aps, a, env, mutated):
                x = lhs
                while isinstance(x, tuple) and x[0] in ("cast", "ref", "deref") and len(x) > 1:
                    x = x[1]
                if not (isinstance(x, tuple) and x[0] == "local" and x[1] == rl):
                    continue
                plain_len = isinstance(rhs, tuple) and rhs[0] == "call" and isinstance(rhs[1], str) and F.strip_generics(rhs[1]).split("::")[-1] == "len"
                seen.append(f"{T.short(lhs)[:30]} {'<' if strict else '<='} {T.short(rhs)[:40]}")
                if plain_len and strict:
                    ok = True
            if not ok:
                # `let op = self.instructions.get(offset as usize)?;` in front of the write: a hit IS `offset < len`
                chain = [x for x, _ in aps] + [a]
                for i_, (anc, key) in enumerate(aps):
                    if "stmts" not in anc or "k" in anc:
                        continue
                    for s_ in anc["stmts"]:
                        if s_ is chain[i_ + 1] or any(x is a for x, _ in F.walk(s_)):
                            break
                        if s_.get("s") != "Let" or "init" not in s_:
                            continue
                        for m, mps in F.walk(s_["init"]):
                            if m.get("k") == "MethodCall" and m["method"] == "get" and m["args"] and "Opcode" in (m.get("recv_ty") or "") and ("Vec<" in (m.get("recv_ty") or "") or "[" in (m.get("recv_ty") or "")):
                                at = T.term(m["args"][0], env, mutated)
                                while isinstance(at, tuple) and at[0] in ("cast", "ref", "deref") and len(at) > 1:
                                    at = at[1]
                                hit_only = any(x.get("k") == "Match" and "TryDesugar" in str(x.get("source", "")) for x, _ in mps) or ("els" in s_ and T.diverges(s_["els"]))
                                if at[0] == "local" and at[1] == rl and hit_only:
                                    ok = True
                                    seen.append("instructions.get(offset) hit")
            rep.oblige(ok, "R08.2", f"move-bound:{b['name']}", F.loc(a["span"]), f"`{b['def']}` places the thread on `{params[rl]}` under {seen or 'no bound'} instead of `{params[rl]} < len`: the last instruction cannot be reached, or an offset past the end can", sample={"rule": "R08.2", "fn": b["name"], "bound": seen})
    rep.floor("R08.2", n, 2, "primitives that place a thread on a given offset")


def check(fx, rep, tier):
    cg = F.CallGraph(fx)
    vm = VMModel(fx, cg)
    dm = DisasmModel(fx)
    if not rep.anchor("R08.1", not vm.problems and dm.ok, "; ".join(vm.problems + dm.problems) or "anchors"):
        return rep.finish("anchor lost", "n/a")
    validators = find_validator(fx)
    if rep.anchor("R08.1", len(validators) == 1, f"exactly one jump-target validator (found {[v['def'] for v in validators]})"):
        check_validator(fx, rep, validators[0])
    vname = validators[0]["def"] if validators else None

    # ---------------------------------------------------------------- R08.2
    check_move_bounds(fx, rep)
    exec_of = {}
    for i, b in fx.trait_method_bodies("opcode::Opcode", "execute"):
        exec_of[b["def"]] = i.get("self_adt")
    plumbing = {"vm::VM::fork_current_thread", "vm::thread::VMThread::fork", "vm::VM::advance", "disassembly::ExecutionThread::step", "disassembly::ExecutionThread::step_backward"}
    n_moves = 0
    movers_in_opcodes = {}
    for b in fx.fn_bodies():
        hir = b.get("hir")
        if not hir or b.get("from_expansion"):
            continue
        root = hir["value"]
        mutated = None
        for n, ps in F.calls(root):
            cd = F.callee_def(n) or ""
            if cd not in MOVERS:
                continue
            n_moves += 1
            who = MOVERS[cd]
            w = F.loc(n["span"])
            name = F.strip_generics(b["def"])
            if b["def"] in exec_of:
                movers_in_opcodes.setdefault(b["def"], []).append(who)
                # the target argument must be the Ok payload of a validator call in this body
                args = n["args"]
                targ = args[-1] if who != "fork_to" else args[1]
                lid = F.local_of(targ)
                validated = False
                if lid is not None and vname:
                    # bound by `Ok(target)` arm of a match on validator(..) or by `let t = match validator(..) { Ok(t) => t, Err.. => return }`
                    for m, mps in F.exprs(root, "Match"):
                        sc_calls = [c for c, _ in F.calls(m["scrut"]) if vname in cg.resolve_local(c)]
                        if not sc_calls:
                            continue
                        for a in m["arms"]:
                            pv = F.pat_variants(a["pat"])
                            if pv and any(v == "Ok" for _, v in pv):
                                binds = F.pat_bindings(a["pat"])
                                if lid in binds and any(x is n for x, _ in F.walk(a["body"])):
                                    validated = True
                                # `Ok(target) => target` feeding a let
                                for bl in binds:
                                    if F.local_of(a["body"]) == bl:
                                        for anc, key in reversed(mps):
                                            if anc.get("s") == "Let" and key == "init" and anc["pat"].get("p") == "Bind" and anc["pat"]["local"] == lid:
                                                validated = True
                    # `let t = validator(..)?;`
                    for s, sps in F.walk(root):
                        if s.get("s") == "Let" and s["pat"].get("p") == "Bind" and s["pat"]["local"] == lid and "init" in s:
                            if any(vname in cg.resolve_local(c) for c, _ in F.calls(s["init"])) and F.strip(s["init"]).get("k") == "Match" and "TryDesugar" in F.strip(s["init"]).get("source", ""):
                                validated = True
                rep.oblige(
                    validated,
                    "R08.2",
                    f"validated-target:{name}:{who}",
                    w,
                    f"`{b['def']}` moves/forks a thread with a target that is not the Ok payload of the jump-target validator",
                    sample={"rule": "R08.2", "fn": b["def"], "mover": who, "validated": validated},
                )
            else:
                ok = name in plumbing or name.startswith("disassembly::ExecutionThread::") or name.startswith("vm::data::JumpTargets::")
                rep.oblige(ok, "R08.2", f"mover-caller:{name}:{who}", w, f"`{b['def']}` changes a thread's position (`{who}`) outside the jump opcodes and the fork plumbing: control can move without validation")
    rep.floor("R08.2", n_moves, 6, "calls that move or fork a thread")
    # only the jump opcodes contain movers
    for fn, whos in sorted(movers_in_opcodes.items()):
        rep.inst("R08.2", f"opcode-with-movers:{fn}", sample={"rule": "R08.2", "opcode": exec_of[fn], "movers": whos})

    # ---------------------------------------------------------------- R08.3
    oracle = {int(r[0], 16): r for r in tables.read("evm_opcodes.tsv")}
    byte_type = {}
    for a in dm.arms:
        ts = sorted({t for t, _ in a["ctors"]})
        for x in a["bytes"]:
            byte_type[x] = ts[0] if len(ts) == 1 else None
    halting_types = set()
    nonhalting_types = set()
    for x in range(256):
        halts = oracle[x][4] == "yes" if x in oracle else True
        t = byte_type.get(x)
        if t is None:
            continue
        (halting_types if halts else nonhalting_types).add(t)
    both = halting_types & nonhalting_types
    rep.oblige(not both, "R08.3", "halting-partition", "-", f"opcode type(s) {sorted(both)} are used both for halting and for non-halting bytes")
    exec_body = {i.get("self_adt"): b for i, b in fx.trait_method_bodies("opcode::Opcode", "execute")}
    rep.floor("R08.3", len(halting_types), 5, "opcode types for halting bytes (STOP, RETURN, REVERT, INVALID, SELFDESTRUCT)")
    for t in sorted(halting_types | nonhalting_types):
        b = exec_body.get(t)
        if b is None:
            continue
        rep.fn(b["def"])
        root = b["hir"]["value"]
        kills = [(n, ps) for n, ps in F.calls(root) if (F.callee_def(n) or "").endswith("VM::kill_current_thread")]
        uncond = [1 for n, ps in kills if not any(a.get("k") in ("If", "Match", "Loop", "Closure") and not ("TryDesugar" in str(a.get("source", ""))) for a, _ in ps)]
        # an early `return Ok(..)` before the kill would skip it
        early = False
        for n, ps in F.walk(root):
            if n.get("k") == "Ret" and not n.get("exp") and kills:
                first_kill = min(T._span_key(k["span"])[1] for k, _ in kills)
                tm = T.term(n, T.Env())
                if T._span_key(n["span"])[1] < first_kill and "Ok" in str(tm):
                    early = True
        if t in halting_types:
            rep.oblige(
                bool(uncond) and not early,
                "R08.3",
                f"halts:{t}",
                F.loc(b["span"]),
                f"`{t}` is what a halting byte is disassembled to, but its execute does not end the current thread on every successful path: code behind it would be analysed although the EVM never runs it",
                sample={"rule": "R08.3", "type": t, "kills": len(kills), "unconditional": bool(uncond)},
            )
        else:
            rep.oblige(
                not uncond,
                "R08.3",
                f"continues:{t}",
                F.loc(b["span"]),
                f"`{t}` is not a halting instruction but its execute always ends the current thread: code the EVM does run is never analysed",
            )

    # a failed instruction (e.g. JUMP to a bad target, also when tolerated in permissive mode) ends the path
    from ..vmmodel import kills_unconditionally, main_loop_err_arm

    ea = main_loop_err_arm(vm)
    if rep.anchor("R08.3", ea is not None, "the Err arm of the match on the opcode's execute result in the main loop"):
        uncond, nk = kills_unconditionally(ea["body"])
        rep.oblige(
            uncond,
            "R08.3",
            "failed-instruction-ends-path",
            F.loc(ea["span"]),
            "an instruction that fails (for example a JUMP to an invalid target, tolerated or not) does not end the current thread on every path: the thread falls through into code the EVM would not execute",
            sample={"rule": "R08.3", "err_arm_kills": nk, "unconditional": uncond},
        )

    # ---------------------------------------------------------------- R08.4
    jd_bytes = sorted(x for x, t in byte_type.items() if t == JUMPDEST_TY)
    rep.oblige(jd_bytes == [0x5B], "R08.4", "jumpdest-byte", F.loc(dm.fn["span"]), f"the JUMPDEST opcode type is produced for bytes {[hex(x) for x in jd_bytes]}; only 0x5b is a jump destination", sample={"rule": "R08.4", "jumpdest_bytes": [hex(x) for x in jd_bytes]})
    match_ids = {id(x) for x, _ in F.walk(dm.match)}
    outside = [e for t, e in dm.ctors_in(dm.fn["hir"]["value"]) if t == JUMPDEST_TY and id(e) not in match_ids]
    rep.oblige(not outside, "R08.4", "jumpdest-only-in-table", F.loc(dm.fn["span"]), "a JUMPDEST entry is produced outside the byte table (e.g. while consuming push data)")
    # nobody else builds JumpDest values in non-test code paths of the disassembly module
    # the validator and fork_to test for the same type
    for b in fx.fn_bodies():
        if F.strip_generics(b["def"]) == "vm::data::JumpTargets::fork_to":
            from ..vmmodel import tests_opcode_type

            rep.oblige(tests_opcode_type(fx, b, JUMPDEST_TY), "R08.4", "fork_to-checks-jumpdest", F.loc(b["span"]), "fork_to no longer requires the fork target to be a JUMPDEST")

    # the kill request concerns the thread that was current when it was made: it is cleared whenever a thread is retired, on
    # every path (a reset that sits in the right operand of `||`, or under another condition, is skipped when the thread is being
    # retired for another reason, and the request then kills the next thread in the queue after one instruction)
    adv = vm.advance
    KILLED = "current_thread_killed"
    rootA = adv["hir"]["value"]
    pops = [(c, cps) for c, cps in F.calls(rootA) if c.get("k") == "MethodCall" and c["method"] in ("pop_front", "pop_back", "pop")]
    resets = []
    for x, xps in F.walk(rootA):
        if x.get("k") == "Assign" and x["l"].get("k") == "Field" and x["l"].get("field") == KILLED and T.term(x["r"], T.Env()) in (("lit", False), ("lit", "false")):
            resets.append((x, xps))
        if x.get("k") in ("Call", "MethodCall"):
            nm = F.strip_generics(F.callee_def(x) or "")
            direct = nm in ("std::mem::take", "core::mem::take", "std::mem::replace", "core::mem::replace") and any(m.get("k") == "Field" and m.get("field") == KILLED for m, _ in F.walk(x))
            via = False
            for t in cg.resolve_local(x):
                tb = fx.body(t)
                if tb and tb.get("hir") and tb.get("impl_self") == adv.get("impl_self"):
                    for y, _ in F.walk(tb["hir"]["value"]):
                        if y.get("k") in ("Call", "MethodCall") and F.strip_generics(F.callee_def(y) or "") in ("std::mem::take", "core::mem::take", "std::mem::replace", "core::mem::replace") and any(m.get("k") == "Field" and m.get("field") == KILLED for m, _ in F.walk(y)):
                            via = True
                        if y.get("k") == "Assign" and y["l"].get("k") == "Field" and y["l"].get("field") == KILLED and T.term(y["r"], T.Env()) in (("lit", False), ("lit", "false")):
                            via = True
            if direct or via:
                resets.append((x, xps))
    rep.anchor("R08.3", bool(pops), "the place where the advance function retires a thread (pops it from the queue)")
    for pi, (pop, pps) in enumerate(pops):
        ok_reset = False
        pop_conds = {id(a): key for a, key in pps if a.get("k") in ("If", "Match") and key in ("then", "else", "arms")}
        for x, xps in resets:
            # short-circuit operand or nested condition that is not also a condition of the pop?
            in_short_circuit = any(a.get("k") == "Binary" and a["op"] in ("Or", "And") and key == "r" for a, key in xps)
            x_conds = {id(a): key for a, key in xps if a.get("k") in ("If", "Match") and key in ("then", "else", "arms") and not a.get("exp")}
            extra_conds = [i for i in x_conds if i not in pop_conds]
            other_branch = [i for i in x_conds if i in pop_conds and x_conds[i] != pop_conds[i]]
            # a reset in a different branch than this pop (e.g. the pop returns early before reaching it) does not count
            early_return_between = False
            if not other_branch and not extra_conds:
                pk, xk = T._span_key(pop["span"]), T._span_key(x["span"])
                if xk[1] > pk[2]:
                    # reset after the pop: no return in between on the pop's path
                    for r, rps in F.walk(rootA):
                        if r.get("k") == "Ret" and pk[2] <= T._span_key(r["span"])[1] <= xk[1] and all(id(a) in {id(b2) for b2, _ in rps} for a, key in pps if a.get("k") in ("If", "Match")):
                            early_return_between = True
            if not in_short_circuit and not extra_conds and not other_branch and not early_return_between:
                ok_reset = True
        rep.oblige(
            ok_reset,
            "R08.3",
            "kill-request-cleared-on-retire" + (f"#{pi + 1}" if pi else ""),
            F.loc(pop["span"]),
            "the request to kill the current thread is not cleared on every path that retires a thread (the reset is missing, conditional, or sits in a short-circuited operand): a left-over request ends the next queued thread after one instruction, so a whole branch is never explored",
            sample={"rule": "R08.3", "resets_found": len(resets), "unconditional_with_retire": ok_reset},
        )

    # ---------------------------------------------------------------- R08.5
    ji = None
    for fn, whos in movers_in_opcodes.items():
        if "fork_current_thread" in whos or "fork_to" in whos:
            ji = fx.body(fn)
    if rep.anchor("R08.5", ji is not None, "the conditional-jump opcode (the execute body that forks)"):
        rep.fn(ji["def"])
        root = ji["hir"]["value"]
        # the match on validator(..)
        mm = None
        for m, mps in F.exprs(root, "Match"):
            if any(vname in cg.resolve_local(c) for c, _ in F.calls(m["scrut"])):
                mm = m
        if rep.anchor("R08.5", mm is not None, "match on the validator's result in the conditional jump"):
            ok_arm = err_arm = None
            for a in mm["arms"]:
                pv = F.pat_variants(a["pat"])
                if pv and any(v == "Ok" for _, v in pv):
                    ok_arm = a
                if pv and any(v == "Err" for _, v in pv):
                    err_arm = a
            if ok_arm is not None:
                names = [(F.callee_def(c) or "", ps) for c, ps in F.calls(ok_arm["body"])]
                kills = [1 for n, ps in names if n.endswith("kill_current_thread")]
                moves = [1 for n, ps in names if n.endswith("ExecutionThread::jump") or n.endswith("ExecutionThread::at")]
                forks = [(n, ps) for n, ps in names if n.endswith("fork_current_thread")]
                rep.oblige(not kills and not moves, "R08.5", "fallthrough-survives", F.loc(ok_arm["span"]), "on a valid conditional-jump target the current (fall-through) thread is killed or moved: only one outcome is explored")
                # fork is conditional only on fork_to(..)
                fork_ok = False
                for n, ps in forks:
                    conds = [a["cond"] for a, key in ps if a.get("k") == "If" and key == "then"]
                    if len(conds) == 1:
                        ct = T.term(conds[0], T.Env())
                        if ct[0] == "call" and F.strip_generics(ct[1]).endswith("JumpTargets::fork_to"):
                            fork_ok = True
                rep.oblige(fork_ok, "R08.5", "fork-iff-budget", F.loc(ok_arm["span"]), "the jump-taken thread is not forked exactly when the per-target fork budget allows it", sample={"rule": "R08.5", "forks": len(forks), "conditional_on": "fork_to" if fork_ok else "other"})
            if err_arm is not None:
                names = [(F.callee_def(c) or "") for c, ps in F.calls(err_arm["body"])]
                kills = [1 for n in names if n.endswith("kill_current_thread")]
                rep.oblige(not kills, "R08.5", "bad-target-keeps-fallthrough", F.loc(err_arm["span"]), "a bad conditional-jump target kills the fall-through thread")
                # for the four kinds the arm ends in Ok(())
                tail_ok = False
                body = err_arm["body"]
                if body.get("k") == "Block" and "expr" in body["block"]:
                    tt = T.term(body["block"]["expr"], T.Env())
                    tail_ok = tt[0] == "struct" and str(tt[2]).endswith("Ok")
                rep.oblige(tail_ok, "R08.5", "bad-target-ok", F.loc(err_arm["span"]), "a bad conditional-jump target makes the instruction fail instead of continuing on the fall-through path")
                # none of the four bad-target kinds may leave the arm as an Err (every Err built in the arm is reached only
                # by other kinds)
                err_adt = fx.adt(EXEC_ERR)
                all_kinds = [v["name"] for v in err_adt["variants"]] if err_adt else []
                leaking = set()
                n_err = 0
                for c, cps in F.walk(err_arm["body"]):
                    if c.get("k") == "Call" and (F.path_def(c["f"]) or "").endswith("::Err") and not c.get("exp"):
                        n_err += 1
                        full = tuple(p for p in cps)
                        ks = arm_kinds(full, all_kinds, fx=fx)
                        leaking |= (set(all_kinds) if ks is None else ks) & JUMP_KINDS
                rep.oblige(
                    not leaking,
                    "R08.5",
                    "bad-target-kinds-tolerated",
                    F.loc(err_arm["span"]),
                    f"the conditional jump fails (and the VM then ends the fall-through path) for bad-target kind(s) {sorted(leaking)}: every bad target must leave the not-taken path alive",
                    sample={"rule": "R08.5", "err_exits_in_arm": n_err, "jump_kinds_reaching_them": sorted(leaking)},
                )
    # jump targets computed through memory: a byte written by MSTORE8 must not come back from MLOAD as the whole word.
    # Structurally: the function that hands a stored value to a load reads the recorded store size, not only the data.
    MS = "vm::state::memory::MemStore"
    ms_adt = fx.adt(MS)
    if ms_adt is not None and any(f["name"] == "size" for f in ms_adt["variants"][0]["fields"]):
        readers = []
        for b in fx.fn_bodies():
            if b.get("impl_self") != "vm::state::memory::Memory" or not b.get("hir"):
                continue
            reads_data = [x for x, _ in F.walk(b["hir"]["value"]) if x.get("k") == "Field" and x.get("field") == "data" and x.get("adt") == MS]
            reads_size = [x for x, _ in F.walk(b["hir"]["value"]) if x.get("k") == "Field" and x.get("field") == "size" and x.get("adt") == MS]
            out = fx.fns.get(b["def"], {}).get("output") or ""
            if reads_data and "SymbolicValue" in out and b["def"] in cg.reachable({x["def"] for x in vm.opcode_execs}):
                readers.append((b, bool(reads_size)))
        for b, sized in readers:
            rep.oblige(
                sized,
                "R08.6",
                f"store-size-honoured:{F.strip_generics(b['def'])}",
                F.loc(b["span"]),
                f"`{b['def']}` hands the data of the latest store at an offset to a word load without looking at the recorded store size: the byte written by MSTORE8 is read back as if it were the whole word, so a jump through `mload` goes to a constant memory does not hold",
                sample={"rule": "R08.6", "fn": b["def"], "reads_store_size": sized},
            )
        rep.floor("R08.6", len(readers), 1, "functions handing stored memory data to loads")

    # "both outcomes are explored while the limits allow": a thread is retired exactly when a configured limit says so - the
    # normal form of the stop condition (visit limit at ip+1, gas used > limit, killed) is C03 R03.1, re-evaluated
    from .. import core as _core3

    _core3.import_rules(rep, fx, "C03", "R08.5", only_rules=("R03.1", "R03.3", "R03.4"), floor=8, what="stop-condition obligations (C03 R03.1) behind 'while the limits allow'")
    # the target the validator sees is a folded constant: the folder computes what the EVM computes (C09)
    _core3.import_rules(rep, fx, "C09", "R08.1", floor=100, what="constant-folding obligations (C09) behind 'the full 256-bit target value'")
    # the EVM ends a path whose stack would exceed 1024 items or underflow: the stack raises on every growing / shrinking operation
    _core3.import_rules(rep, fx, "C17", "R08.3", only_rules=("R17.6",), floor=2, what="stack-limit obligations (C17 R17.6) behind 'a failed instruction ends the path'", key_filter=lambda k: "stack-" in k)
    # jump targets computed from PC: PC pushes the offset of the PC instruction itself (shared with C07 R07.2)
    from .. import core
    from .c07 import check_pc_value

    check_pc_value(fx, core.Retag(rep, "R08.1"), "R08.1")
    rep.exhaustive = True
    return rep.finish(
        "Path/def-use audit of the jump-target validator (constant only; checked conversion of the full 256-bit value with no narrowing on the way; instruction exists; is JUMPDEST; returns that target), "
        "who-may-move audit of every thread-moving call with the validated-payload rule, halting behaviour of every opcode type against an independent EVM table for all 256 bytes, "
        "JUMPDEST produced only for 0x5b inside the byte table, and the conditional jump's two outcomes.",
        "instances = validator clauses, mover call sites, opcode types x halting, bytes producing JUMPDEST, conditional-jump clauses; enumerated from the crate and the 256-entry byte table",
        ["equality of the visited set with EVM reachability for loop-free code is not decided (value-level); these are the structural necessary conditions"],
    )
