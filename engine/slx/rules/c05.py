"""C05 — no phantom slots: every reported slot comes from an executed storage access (proof by cases over constructors).

R05.1 row source          : StorageLayout::add is called only by the layout builder, with an index that is the constant found
      by destructuring a value as StorageSlot { key: KnownData { value } }.
R05.2 StorageSlot provenance: the StorageSlot variant is constructed fresh only inside arms that matched a storage write, a storage
      load, a mapping index or a dynamic-array index, with that node's key / slot as its key.
R05.3 index provenance    : MappingIndex / DynamicArrayIndex are constructed fresh only by lifters that a pass reaches exclusively
      through a guard's storage-access arms (StorageWrite / SLoad / UnwrittenStorageValue); each pass hands such a guard (or a
      lifter that builds nothing fresh) to the transformer; inside a guard's arm the lifter is applied in key position only.
R05.4 storage-access provenance: StorageWrite / SLoad / UnwrittenStorageValue are constructed fresh only by the VM's storage; the
      storage's store / load are called only by the SSTORE / SLOAD opcodes, which are disassembled only from bytes 0x55 / 0x54.
R05.6 executed means EVM-reachable: the control-flow rules of C08 (validated jump targets, halting opcodes, failed instructions
      end the path) are re-evaluated: a storage instruction executed in unreachable code is a phantom access.
R05.7 a run starts empty: a whole-pipeline entry point of the type checker that takes `&mut self` resets the state before its
      first stage, so no value (hence no slot) of an earlier run is reported for the next execution result.
R05.5 key rewriting stays under a storage access: in passes that replace hashes by computed constants, the replacing function is
      referenced only from the key position of storage-access arms (or from itself / pure helpers).
"""
from .. import facts as F
from .. import terms as T
from ..disasm import DisasmModel

SVD = "vm::value::SymbolicValueData"
ACCESS = {"StorageWrite", "SLoad", "UnwrittenStorageValue"}
SLOT_PARENTS = {"StorageWrite", "SLoad", "MappingIndex", "DynamicArrayIndex"}
INDEXERS = {"MappingIndex", "DynamicArrayIndex"}


def pattern_variants_deep(p):
    out = set()
    for n, _ in F.walk(p):
        if n.get("p") in ("Struct", "TupleStruct", "Path") and n.get("adt") == SVD and n.get("variant"):
            out.add(n["variant"])
    return out


def fn_pattern_variants(body):
    """All SVD variants mentioned in any pattern of the function."""
    out = set()
    for n, _ in F.walk(body["hir"]["value"]):
        if n.get("p") in ("Struct", "TupleStruct", "Path") and n.get("adt") == SVD and n.get("variant"):
            out.add(n["variant"])
    return out


def fresh_constructions(fx, variants):
    """(body, node, parents, variant) for Struct literals of the given SVD variants that are not rebuilds of a matched node of
    the same variant (enclosing arm / let-else pattern of that variant)."""
    out = []
    # lifting passes are read together with the private helpers nested next to their callbacks: a helper that is only ever
    # CALLED (never handed on as a callback) is analysed where it is called, with its parameters bound to the arguments
    only_called = set()
    lift_bodies = [b for b in fx.fn_bodies() if b.get("hir") and b["def"].startswith("<tc::lift::")]
    for hb in lift_bodies:
        if hb.get("impl_self") or str(hb.get("kind", "")).lower() != "fn":
            continue
        as_value = as_call = 0
        for b2 in lift_bodies:
            for x, xps in F.walk(b2["hir"]["value"]):
                if x.get("k") == "Path" and x.get("res") == "def" and F.strip_generics(x.get("def") or "") == F.strip_generics(hb["def"]):
                    if xps and isinstance(xps[-1][0], dict) and xps[-1][0].get("k") == "Call" and xps[-1][1] == "f":
                        as_call += 1
                    else:
                        as_value += 1
        if as_call and not as_value:
            only_called.add(hb["def"])
    for b in fx.fn_bodies():
        hir = b.get("hir")
        if not hir:
            continue
        if b["def"] in only_called:
            continue
        if b["def"].startswith("<tc::lift::") and only_called:
            b = F.inline_module_helpers(fx, b)
            hir = b["hir"]
        for n, ps in F.walk(hir["value"]):
            if n.get("k") == "Struct" and n.get("adt") == SVD and n.get("variant") in variants:
                V = n["variant"]
                same = False
                for m, a in F.enclosing_arms(ps):
                    if V in pattern_variants_deep(a["pat"]):
                        same = True
                # `let V { .. } = data else { return None };` earlier in an enclosing block is the same thing
                for anc, key in ps:
                    if isinstance(anc, dict) and "stmts" in anc:
                        for st in anc["stmts"]:
                            if st.get("s") == "Let" and "els" in st and V in pattern_variants_deep(st["pat"]):
                                sk, nk = T._span_key(st["span"]), T._span_key(n["span"])
                                if sk and nk and sk[2] <= nk[1]:
                                    same = True
                out.append((b, n, ps, V, same))
    return out


def fn_refs(fx):
    """name -> list of (referencing body, node, parents) for function values / direct calls by path."""
    refs = {}
    norm = {F.strip_generics(k): k for k in fx.bodies}
    for b in fx.fn_bodies():
        hir = b.get("hir")
        if not hir:
            continue
        for n, ps in F.walk(hir["value"]):
            if n.get("k") == "Path" and n.get("res") == "def" and str(n.get("defkind", "")).startswith("Fn"):
                d = F.strip_generics(n.get("def") or "")
                if d in norm:
                    refs.setdefault(norm[d], []).append((b, n, ps))
    return refs


def field_position(ps, stop_struct_adt=SVD):
    """If the node sits inside the initialiser of a field of an SVD struct literal, (variant, field) of the innermost one."""
    for i in range(len(ps) - 1, -1, -1):
        anc, key = ps[i]
        if anc.get("k") == "Struct" and anc.get("adt") == stop_struct_adt:
            # which field? the next element down the chain is the field dict
            if i + 1 < len(ps):
                fld = ps[i + 1][0]
                if "field" in fld:
                    return anc.get("variant"), fld["field"]
            # the node itself may be the field dict's expr
            return anc.get("variant"), None
    return None


def check_fresh_run(fx, rep, rule):
    """A whole-pipeline entry point of the type checker that can be called again on the same object (`&mut self`) starts from
    an empty state: otherwise the values - and slots - of an earlier run are reported for the next execution result."""
    STATE = "tc::state::TypeCheckerState"
    n = 0
    for b in fx.fn_bodies():
        if b.get("impl_self") != "tc::TypeChecker" or not b.get("hir"):
            continue
        fn = fx.fns.get(b["def"], {})
        if "StorageLayout" not in (fn.get("output") or ""):
            continue
        root = b["hir"]["value"]
        stage_calls = [(c, ps) for c, ps in F.calls(root) if (F.callee_def(c) or "").startswith("tc::TypeChecker::") and c.get("k") == "MethodCall"]
        names = [F.callee_def(c).split("::")[-1] for c, _ in stage_calls]
        if "lift" not in names:
            continue  # not a whole-pipeline entry
        n += 1
        rep.fn(b["def"])
        inputs = fn.get("inputs") or [""]
        by_value = not inputs[0].startswith("&")
        first = min(T._span_key(c["span"])[1] for c, _ in stage_calls)
        reset = False
        for a, _ in F.walk(root):
            if a.get("k") == "Assign" and a["l"].get("k") == "Field" and a["l"].get("field") == "state" and T._span_key(a["span"])[2] <= first:
                r = F.strip(a["r"])
                # a fresh state: an argument-less constructor / `Default::default()` of the state type
                if r.get("k") == "Call" and not r["args"] and (F.strip_generics(F.callee_def(r) or "").startswith(STATE + "::") or (r.get("ty") or "").strip() == STATE):
                    reset = True
        # `std::mem::take(&mut self.state)` / `mem::replace(&mut self.state, <fresh>)` before the first stage
        for c, _ in F.calls(root):
            nm = F.strip_generics(F.callee_def(c) or "")
            if nm in ("std::mem::take", "core::mem::take", "std::mem::replace", "core::mem::replace") and c["args"] and T._span_key(c["span"])[2] <= first:
                a0 = F.strip(c["args"][0])
                if a0.get("k") == "Field" and a0.get("field") == "state":
                    if nm.endswith("take") or (len(c["args"]) > 1 and F.strip(c["args"][1]).get("k") == "Call" and not F.strip(c["args"][1])["args"]):
                        reset = True
        rep.oblige(
            by_value or reset,
            rule,
            f"fresh-run:{F.strip_generics(b['def'])}",
            F.loc(b["span"]),
            f"`{b['def']}` can be called again on the same checker and does not start from an empty state: the slots of an earlier run are reported for the next execution result",
            sample={"rule": rule, "fn": b["def"], "takes_self_by_value": by_value, "resets_state_first": reset},
        )
    rep.floor(rule, n, 1, "whole-pipeline entry points of the type checker")


def check_mapping_shape(fx, rep, rule):
    # a mapping element is keccak(key ++ slot): exactly two hashed words, the slot last. A lifter that also accepts longer hashes
    # attributes them to the mapping at whatever word it picks - a slot the access does not belong to.
    n_shape = 0
    for fb in fx.fn_bodies():
        if not fb.get("hir") or fb.get("from_expansion") or not fb["def"].startswith("<tc::lift::"):
            continue
        fn = fb["def"]
        for node, _ps in F.walk(fb["hir"]["value"]):
            if node.get("k") != "Struct" or node.get("adt") != SVD or node.get("variant") != "MappingIndex":
                continue
            fld = {f["field"]: f["e"] for f in node["fields"]}
            roots = {}
            for role in ("key", "slot"):
                e = fld.get(role)
                lids = [x["local"] for x, _ in F.walk(e)] if False else []
                for x, _ in F.walk(e) if e is not None else []:
                    if x.get("k") == "Path" and x.get("res") == "local":
                        lids.append(x["local"])
                roots[role] = lids[0] if lids else None
            slices = []
            for m, _ in F.walk(fb["hir"]["value"]):
                pat = m.get("pat") if isinstance(m, dict) else None
                if isinstance(pat, dict) and m.get("s") == "Let":
                    alts = pat["pats"] if pat.get("p") == "Or" else [pat]
                    alts = [a for a in alts if a.get("p") == "Slice"]
                    if alts and any(roots["slot"] in [b_.get("local") for b_ in a.get("before", []) + a.get("after", [])] for a in alts):
                        slices = alts
            if not slices:
                continue  # built from something other than a destructured word list (e.g. re-wrapping an existing index)
            n_shape += 1
            ok = len(slices) == 1 and len(slices[0].get("before", [])) == 2 and not slices[0].get("after") and slices[0].get("slice") is None and [b_.get("local") for b_ in slices[0]["before"]] == [roots["key"], roots["slot"]]
            rep.oblige(ok, rule, f"mapping-shape:{F.strip_generics(fn)}", F.loc(node["span"]), f"`{fn}` lifts a mapping element from a hash that is not exactly `keccak(key ++ slot)` (the word list is matched by {len(slices)} pattern(s) of lengths {[len(a.get('before', [])) + len(a.get('after', [])) for a in slices]}{' with a rest' if any(a.get('slice') is not None for a in slices) else ''}): a longer hash is attributed to the mapping at one of its words, a slot that access does not belong to", sample={"rule": rule, "lifter": fn, "pattern": "[key, slot]"})
    rep.floor(rule, n_shape, 1, "mapping elements lifted from a destructured hash pre-image")


def check_row_as_handed(fx, rep, rule):
    """The layout writer files a row under the index and the offset it is handed: `StorageLayout::add(index, offset, typ)` pushes
    a `StorageSlot` whose three fields are its three parameters as they stand (through `into()` and the entry's own constructor).
    Arithmetic on the way (carrying whole words of the offset into the index, say) reports entries for slots the code never
    touched."""
    add = fx.body("layout::StorageLayout::add")
    if not rep.anchor(rule, add is not None and add.get("hir"), "StorageLayout::add"):
        return
    root = add["hir"]["value"]
    mutated = T.mutated_locals(root)
    params = [p_ for p_ in add["hir"]["params"] if p_.get("p") == "Bind" and p_.get("name") != "self"]
    pushes = [(c, ps) for c, ps in F.calls(root) if c.get("k") == "MethodCall" and c["method"] in ("push", "insert", "push_back") and "layout::StorageSlot" in (c.get("recv_ty") or "")]
    rep.oblige(len(pushes) == 1 and not T.path_conditions(pushes[0][1], pushes[0][0]), rule, "row-pushed-once", F.loc(add["span"]), f"StorageLayout::add files its row at {len(pushes)} place(s) / conditionally: exactly one unconditional push is expected")

    def strip_conv(t):
        while isinstance(t, tuple) and ((t[0] == "call" and isinstance(t[1], str) and F.strip_generics(t[1]).split("::")[-1] in ("into", "from", "clone") and len(t[2]) == 1) or t[0] in ("cast",)):
            t = t[2][0] if t[0] == "call" else t[1]
        return t

    for c, ps in pushes[:1]:
        t = T.term(c["args"][-1], T.env_at(ps, c, mutated), mutated)
        t = T.inline_calls(t, fx, 2, (), lambda d: d.startswith("layout::StorageSlot::"))
        ok = isinstance(t, tuple) and t[0] == "struct" and "StorageSlot" in str(t[1])
        bad = []
        if ok:
            fields = dict((f, strip_conv(v)) for f, v in t[3])
            want = {"index": 0, "offset": 1, "typ": 2}
            for f, i in want.items():
                v = fields.get(f)
                if not (i < len(params) and isinstance(v, tuple) and v[0] == "local" and v[1] == params[i]["local"]):
                    bad.append(f"{f} = {T.short(v)[:60] if v else '?'}")
        rep.oblige(
            ok and not bad,
            rule,
            "row-as-handed",
            F.loc(c["span"]),
            f"StorageLayout::add does not file the row under the index / offset / type it is handed ({'; '.join(bad) or T.short(t)[:80]}): entries move to slots (or offsets) the analysed code never named",
            sample={"rule": rule, "row": "StorageSlot{index, offset, typ} = the three parameters"},
        )


def check(fx, rep, tier):
    cg = F.CallGraph(fx)
    refs = fn_refs(fx)

    # ---------------------------------------------------------------- R05.1
    adds = []
    for b in fx.fn_bodies():
        hir = b.get("hir")
        if not hir or b.get("from_expansion"):
            continue
        for n, ps in F.calls(hir["value"]):
            if F.strip_generics(F.callee_def(n) or "") == "layout::StorageLayout::add":
                adds.append((b, n, ps))
    rep.floor("R05.1", len(adds), 1, "calls of StorageLayout::add")
    builders = {b["def"] for b, _, _ in adds}
    rep.oblige(len(builders) == 1, "R05.1", "single-builder", "-", f"layout rows are added by {sorted(builders)}; exactly one layout-building function is expected")
    for b, n, ps in adds:
        rep.fn(b["def"])
        root = b["hir"]["value"]
        idx_local = F.local_of(n["args"][0])
        ok = False
        why = "the row index is not a local bound by destructuring a StorageSlot's constant key"
        if idx_local is not None:
            for s, sps in F.walk(root):
                if s.get("s") == "Let" and "init" in s:
                    binds = F.pat_bindings(s["pat"])
                    if idx_local in binds and pattern_variants_deep(s["pat"]) == {"KnownData"}:
                        # its init derives from a local bound by a StorageSlot pattern
                        src = {m["local"] for m, _ in F.walk(s["init"]) if m.get("k") == "Path" and m.get("res") == "local"}
                        for s2, _ in F.walk(root):
                            if s2.get("s") == "Let" and "init" in s2 and pattern_variants_deep(s2["pat"]) == {"StorageSlot"}:
                                if set(F.pat_bindings(s2["pat"])) & src:
                                    ok = True
        rep.oblige(ok, "R05.1", f"row-index:{F.strip_generics(b['def'])}", F.loc(n["span"]), f"`{b['def']}` adds a layout row whose index is not taken from StorageSlot {{ key: KnownData {{ value }} }}: {why}", sample={"rule": "R05.1", "fn": b["def"], "index_from": "StorageSlot{key: KnownData{value}}" if ok else "?"})

    check_row_as_handed(fx, rep, "R05.1")

    # ---------------------------------------------------------------- R05.2
    slot_sites = [x for x in fresh_constructions(fx, {"StorageSlot"}) if not x[4]]
    rep.floor("R05.2", len(slot_sites), 4, "fresh constructions of StorageSlot")
    for b, n, ps, V, same in slot_sites:
        rep.fn(b["def"])
        w = F.loc(n["span"])
        arms = F.enclosing_arms(ps)
        outer = None
        for m, a in arms:  # innermost first; take the outermost SVD arm
            pv = F.pat_variants(a["pat"])
            if pv and all(x == SVD for x, _ in pv):
                outer = a
        parent_vs = {v for _, v in F.pat_variants(outer["pat"])} if outer is not None else set()
        ok = bool(parent_vs) and parent_vs <= SLOT_PARENTS
        key_ok = False
        if ok:
            binds = F.pat_bindings(outer["pat"])
            want = {lid for lid, (nm, path) in binds.items() if path and path[-1][1] in ("key", "slot")}
            # for MappingIndex the slot-bearing field is `slot`, for accesses `key`
            pv = next(iter(parent_vs))
            fld = "slot" if pv in INDEXERS else "key"
            want = {lid for lid, (nm, path) in binds.items() if path and path[-1][1] == fld}
            kexpr = [f["e"] for f in n["fields"] if f["field"] == "key"][0]
            used = {m["local"] for m, _ in F.walk(kexpr) if m.get("k") == "Path" and m.get("res") == "local"}
            key_ok = bool(want) and used == want
        rep.oblige(
            ok and key_ok,
            "R05.2",
            f"slot-wrap:{F.strip_generics(b['def'])}:{'|'.join(sorted(parent_vs)) or 'none'}",
            w,
            f"`{b['def']}` wraps a value as a storage slot outside the key of a storage access / the base of a lifted index (enclosing arm: {sorted(parent_vs) or 'none'}; key taken from the matched node's key/slot: {key_ok}): arbitrary constants can become reported slots",
            sample={"rule": "R05.2", "fn": b["def"], "under": sorted(parent_vs), "key_from_matched_node": key_ok, "at": w},
        )

    # ---------------------------------------------------------------- R05.3
    # guards: functions with arms over storage accesses that rebuild the same variant, catch-all -> None
    lift_fns = [b for b in fx.fn_bodies() if b["def"].startswith("<tc::lift::")]
    guards = {}
    for b in lift_fns:
        for m, ps in F.exprs(b["hir"]["value"], "Match"):
            arms = m["arms"]
            acc = []
            other = []
            for a in arms:
                pv = F.pat_variants(a["pat"])
                if pv and all(x == SVD for x, _ in pv) and {v for _, v in pv} <= ACCESS:
                    acc.append(a)
                else:
                    other.append(a)
            if acc and all(F.pat_variants(a["pat"]) is None for a in other):
                rebuilds = all(any(s.get("k") == "Struct" and s.get("adt") == SVD and s.get("variant") in {v for _, v in F.pat_variants(a["pat"])} for s, _ in F.walk(a["body"])) for a in acc)
                none_else = all(T.term(a["body"], T.Env()) in (("path", "std::prelude::v1::None"),) or "None" in str(T.term(a["body"], T.Env())) for a in other)
                if rebuilds and none_else and not any(ps2 for ps2 in [ps] if any(x.get("k") == "Match" for x, _ in ps)):
                    guards[b["def"]] = (b, m, acc)
    rep.floor("R05.3", len(guards), 2, "guard functions (storage-access arms only, everything else untouched)")
    idx_sites = [x for x in fresh_constructions(fx, INDEXERS)]
    builders = {}
    for b, n, ps, V, same in idx_sites:
        if same or V in fn_pattern_variants(b):
            continue  # a rebuild / refinement of an existing index node
        builders.setdefault(b["def"], []).append((n, V))
    rep.floor("R05.3", len(builders), 2, "functions that lift a fresh mapping / dynamic-array index")

    def reached_only_through_guard(fn, seen):
        """All references to fn are: inside fn itself, inside a guard's access arm, or inside a function that is itself
        reached only through a guard."""
        if fn in seen:
            return True, []
        seen = seen | {fn}
        bad = []
        rs = refs.get(fn, [])
        if not rs:
            return False, ["never referenced"]
        for rb, rn, rps in rs:
            if rb["def"] == fn:
                continue
            if rb["def"] in guards:
                gb, gm, acc = guards[rb["def"]]
                if any(any(x is rn for x, _ in F.walk(a["body"])) for a in acc):
                    continue
                bad.append(f"referenced in `{rb['def']}` outside its storage-access arms")
                continue
            ok, why = reached_only_through_guard(rb["def"], seen)
            if rb["def"] in builders or ok and rb["def"].startswith("<tc::lift::") and "::run::" in rb["def"]:
                if ok:
                    continue
            bad.append(f"referenced from `{rb['def']}` ({F.loc(rn['span'])}), which is not behind a guard")
        return not bad, bad

    for fn, sites in sorted(builders.items()):
        rep.fn(fn)
        ok, why = reached_only_through_guard(fn, frozenset())
        rep.oblige(
            ok,
            "R05.3",
            f"index-lifter-guarded:{F.strip_generics(fn)}",
            F.loc(sites[0][0]["span"]),
            f"`{fn}` lifts {sorted({v for _, v in sites})} patterns but can be applied outside a storage access: {'; '.join(why[:2])} — look-alike hashing anywhere in the program would be reported as storage",
            sample={"rule": "R05.3", "lifter": fn, "builds": sorted({v for _, v in sites}), "guarded": ok},
        )
    check_mapping_shape(fx, rep, "R05.3")
    # each pass's root callback is a guard, or builds nothing fresh
    runs = [b for i, b in fx.trait_method_bodies("tc::lift::Lift", "run")]
    rep.floor("R05.3", len(runs), 9, "lifting passes")
    for b in runs:
        rep.fn(b["def"])
        roots = []
        for n, ps in F.calls(b["hir"]["value"]):
            if (F.callee_def(n) or "").endswith("SymbolicValue::<AuxData>::transform_data") and n["args"]:
                d = F.path_def(n["args"][0])
                if d:
                    roots.append((d, n))
        for d, n in roots:
            full = next((k for k in fx.bodies if F.strip_generics(k) == F.strip_generics(d)), None)
            ok = full in guards or full not in builders
            rep.oblige(ok, "R05.3", f"pass-root:{F.strip_generics(b['def'])}", F.loc(n["span"]), f"the pass `{b['def']}` hands the index lifter `{d}` directly to the transformer, bypassing the storage-access guard", sample={"rule": "R05.3", "pass": b["impl_self"], "root": d, "is_guard": full in guards})
    # inside a guard's arm the (non-guard) lifter is applied in key position only
    for gname, (gb, gm, acc) in sorted(guards.items()):
        for a in acc:
            for n, ps in F.walk(a["body"]):
                if n.get("k") == "Path" and n.get("res") == "def" and str(n.get("defkind", "")).startswith("Fn"):
                    d = next((k for k in fx.bodies if F.strip_generics(k) == F.strip_generics(n.get("def") or "")), None)
                    if d is None or d == gname or d in guards:
                        continue
                    if not d.startswith("<tc::lift::"):
                        continue
                    pos = field_position(ps)
                    in_key = pos is not None and pos[1] == "key"
                    V = next(iter(F.pat_variants(a["pat"])))[1]
                    rep.oblige(
                        in_key,
                        "R05.3",
                        f"key-position-only:{F.strip_generics(gname)}:{V}",
                        F.loc(n["span"]),
                        f"`{gname}` applies the lifter `{F.strip_generics(d).split('::')[-1]}` to the *{pos[1] if pos else '?'}* of a {V}, not only to its key: a hash that is merely stored or loaded as a value is reported as a storage slot",
                        sample={"rule": "R05.3", "guard": gname, "arm": V, "position": pos[1] if pos else None},
                    )

    # ---------------------------------------------------------------- R05.4
    acc_sites = [x for x in fresh_constructions(fx, ACCESS) if not x[4]]
    rep.floor("R05.4", len(acc_sites), 3, "fresh constructions of storage-access nodes")
    for b, n, ps, V, same in acc_sites:
        ok = (b.get("impl_self") or "") == "vm::state::storage::Storage"
        rep.oblige(ok, "R05.4", f"access-node:{F.strip_generics(b['def'])}:{V}", F.loc(n["span"]), f"`{b['def']}` fabricates a `{V}` node outside the VM's storage: a storage access that never executed would be analysed", sample={"rule": "R05.4", "fn": b["def"], "node": V})
    exec_of = {b["def"]: i.get("self_adt") for i, b in fx.trait_method_bodies("opcode::Opcode", "execute")}
    callers = {}
    for meth in ("store", "load"):
        tgt = f"vm::state::storage::Storage::{meth}"
        for c in cg.callers_of(tgt):
            cb = fx.body(c)
            if cb is None or cb.get("from_expansion"):
                continue
            callers.setdefault(meth, set()).add(c)
            ok = c in exec_of
            rep.oblige(ok, "R05.4", f"storage-caller:{meth}:{F.strip_generics(c)}", F.loc(cb["span"]), f"`{c}` calls Storage::{meth}; only the SSTORE / SLOAD opcodes may touch storage")
    dm = DisasmModel(fx)
    if rep.anchor("R05.4", dm.ok, "disassembler byte table"):
        byte_type = {}
        for a in dm.arms:
            ts = sorted({t for t, _ in a["ctors"]})
            for x in a["bytes"]:
                byte_type[x] = ts[0] if len(ts) == 1 else None
        for meth, want_byte in (("store", 0x55), ("load", 0x54)):
            types = {exec_of[c] for c in callers.get(meth, ()) if c in exec_of}
            bytes_for = sorted(x for x, t in byte_type.items() if t in types)
            rep.oblige(bytes_for == [want_byte] and len(types) == 1, "R05.4", f"storage-opcode-byte:{meth}", "-", f"opcode type(s) {sorted(types)} calling Storage::{meth} are disassembled from bytes {[hex(x) for x in bytes_for]}; only {hex(want_byte)} is a storage instruction", sample={"rule": "R05.4", "method": meth, "opcode_types": sorted(types), "bytes": [hex(x) for x in bytes_for]})

    # ---------------------------------------------------------------- R05.5
    # functions that produce a KnownData constant out of a hash (new_known of a computed word) in lifting passes
    n55 = 0
    for b in lift_fns:
        makes_const = any((F.callee_def(c) or "").endswith("SymbolicValueData::<AuxData>::new_known") for c, _ in F.calls(b["hir"]["value"])) and "Sha3" in fn_pattern_variants(b)
        if not makes_const:
            continue
        # follow references upward until a guard arm is reached; every path must enter through the key position
        def entry_positions(fn, seen):
            out = []
            for rb, rn, rps in refs.get(fn, []):
                if rb["def"] == fn or rb["def"] in seen:
                    continue
                if rb["def"] in guards:
                    pos = field_position(rps)
                    out.append((rb["def"], pos[1] if pos else None, rn))
                elif "::run::" in rb["def"]:
                    out.extend(entry_positions(rb["def"], seen | {fn}))
                else:
                    out.append((rb["def"], "outside", rn))
            return out

        eps = entry_positions(b["def"], frozenset())
        if not eps:
            continue
        n55 += 1
        bad = [e for e in eps if e[1] != "key"]
        rep.oblige(not bad, "R05.5", f"hash-to-constant:{F.strip_generics(b['def'])}", F.loc(b["span"]), f"`{b['def']}` replaces a hash by a computed constant and is reachable through {[(F.strip_generics(e[0]).split('::')[-1], e[1]) for e in bad][:2]}: constants computed from look-alike hashes outside a storage key can become slots", sample={"rule": "R05.5", "fn": b["def"], "entries": [(F.strip_generics(e[0]).split('::')[-1], e[1]) for e in eps]})
    rep.extra["hash_to_constant_functions"] = n55
    # ... and the constant is the hash of the WHOLE pre-image: when the words handed to the hashing helper were collected with an
    # adaptor that can drop elements (non-constant words skipped), the path to the call compares their number with the number of
    # values hashed by the program. The hash of a subset is a slot the program never computes.
    hashers = set()
    for hb in fx.fn_bodies():
        if hb.get("hir") and not hb.get("from_expansion") and any((F.callee_def(c) or "").startswith(("sha3::Digest::", "tiny_keccak::", "sha3::")) or "keccak" in (F.callee_def(c) or "").lower() for c, _ in F.calls(hb["hir"]["value"])):
            hashers.add(F.strip_generics(hb["def"]))
    DROP = ("flat_map", "filter_map", "filter", "take", "skip", "take_while", "skip_while", "step_by", "unique", "dedup", "flatten", "map_while")
    n_pre = 0
    for b in lift_fns:
        root = b["hir"]["value"]
        mutated = None
        for c, cps in F.calls(root):
            if c.get("k") != "Call" or F.strip_generics(F.callee_def(c) or "") not in hashers or not c["args"]:
                continue
            if mutated is None:
                mutated = T.mutated_locals(root)
            env = T.env_at(cps, c, mutated)
            w = T.term(c["args"][0], env, mutated)

            def drops(t):
                return any(st[0] == "call" and isinstance(st[1], str) and F.strip_generics(st[1]).split("::")[-1].split("<")[0] in DROP for st in T.subterms(t))

            n_pre += 1
            ordn = sum(1 for x in rep.instances.get("R05.5", []) if x.startswith(f"whole-preimage:{F.strip_generics(b['def'])}#")) + 1
            if not drops(w):
                rep.oblige(True, "R05.5", f"whole-preimage:{F.strip_generics(b['def'])}#{ordn}", F.loc(c["span"]), "", sample={"rule": "R05.5", "fn": b["def"], "words": "not filtered"})
                continue
            conds = [(T.term(cond, env, mutated), holds) for cond, holds in T.path_conditions(cps, c)]
            ok = False
            for atoms, opname in ((T.entailed_atoms(conds), "Eq"), (T.entailed_atoms(conds, want_false=True), "Ne")):
                for a in atoms:
                    if isinstance(a, tuple) and a[0] == "bin" and a[1] == opname:
                        sides = [a[2], a[3]]
                        lens = [x for x in sides if x[0] == "call" and isinstance(x[1], str) and F.strip_generics(x[1]).split("::")[-1] == "len"]
                        if len(lens) == 2 and drops(lens[0]) != drops(lens[1]):
                            ok = True
            rep.oblige(ok, "R05.5", f"whole-preimage:{F.strip_generics(b['def'])}#{ordn}", F.loc(c["span"]), f"`{b['def']}` hashes words that were collected with an element-dropping adaptor without comparing their number with the number of hashed values: when some words of the pre-image are not constants the remaining ones are hashed on their own, and that hash - which the program never computes - becomes a slot", sample={"rule": "R05.5", "fn": b["def"], "words": "filtered, length compared"})
    rep.floor("R05.5", n_pre, 2, "calls of the constant-hashing helper in the lifting passes")
    # ---------------------------------------------------------------- R05.7
    check_fresh_run(fx, rep, "R05.7")
    # ---------------------------------------------------------------- R05.6 (shared with C08)
    # "a storage access the analysed code performs": an SLOAD / SSTORE the machine executes in code the EVM can never
    # reach (a truncated jump target, a path that survives a failed or halting instruction) is a phantom access. The
    # control-flow rules of C08 are therefore a necessary clause of this property and are re-evaluated here.
    from .. import core

    # ... and so is the stack discipline: an instruction that pops fewer operands than the EVM leaves a stale constant where a
    # later SLOAD / SSTORE takes its key from (C07 R07.1, all 256 bytes)
    core.import_rules(rep, fx, "C07", "R05.6", only_rules=("R07.1",), floor=60, what="stack-effect obligations (C07 R07.1) behind 'the key expression of an executed access'")
    core.import_rules(rep, fx, "C07", "R05.6", only_rules=("R07.2",), floor=15, what="memory / storage effect roles (C07 R07.2) behind 'the key expression of an executed access'", key_filter=lambda k: "effect:" in k or "copy-loop:" in k)
    # ... a stack overflow halts the EVM: an operation that grows the stack past 1024 items without raising executes code (and
    # storage accesses) the EVM never reaches (C17 R17.6 stack rules); and the constants that become slots - hashed words, jump
    # targets - are what the constant folder computes, so it has to compute what the EVM computes (C09, all rules)
    core.import_rules(rep, fx, "C17", "R05.6", only_rules=("R17.6",), floor=2, what="stack-limit obligations (C17 R17.6)", key_filter=lambda k: "stack-" in k)
    core.import_rules(rep, fx, "C09", "R05.6", floor=100, what="constant-folding obligations (C09) behind 'a constant obtained by the documented arithmetic'")
    core.import_rules(rep, fx, "C08", "R05.6", floor=50, what="control-flow obligations (C08) behind 'executed storage access'")
    rep.exhaustive = True
    return rep.finish(
        "Proof by cases over constructors: rows come only from StorageSlot{KnownData}; StorageSlot is built fresh only under storage accesses and lifted indices with the matched key/slot; "
        "indices are lifted only behind a guard's storage-access arms; storage-access nodes are built only by the VM's storage, which only SSTORE/SLOAD (bytes 0x55/0x54) call; "
        "hash-to-constant rewriting enters only through key positions.",
        "instances = add() calls, fresh constructions per variant, lifter reference chains, pass roots, guard arm positions, storage callers; enumerated over the whole crate",
        ["that the reported constant is one 'obtained by the documented hashing, preimage recognition and constant addition' is value-level and not decided"],
    )
