"""C06 — no missed slots: the chain from an executed SLOAD/SSTORE with a literal key to a layout row has no dropping link.

R06.1 generations are append-only : the storage's (and memory's) per-key histories are only ever created and appended to —
      never removed from, overwritten, truncated or conditionally skipped; a load materialises an absent key before reading.
R06.2 every thread's state is kept: the thread popped from the queue flows into the stored states; nothing else pops /
      clears them; the execution result receives the stored states unfiltered.
R06.3 all values are exported     : the state's value export includes the storage export; the storage export maps every
      (key, generation) pair to a StorageWrite carrying that key, built with no size limit and no filtering adaptor; the execution
      result flat-maps over all states.
R06.4 lifting keeps values        : each popped value is pushed to the output or becomes an error; de-duplication is structural
      `unique()` only; variable assignment registers every value.
R06.5 keys become slots           : the storage-slot pass has arms for both StorageWrite and SLoad whose rebuilt node carries a
      StorageSlot key on every path.
R06.7 constants stay constants    : a lifting pass replaces a node that is a constant only by the Sha3 of a slot number found by
      an exact look-up of that constant in the hash table (the exception the property names).
R06.6 full-width index            : the row index handed to the layout is a 256-bit word type and its conversion contains no
      narrowing; the constant-slot filter accepts every StorageSlot with a KnownData key; a packed type with no spans still
      yields a row.
"""
import re

from .. import facts as F
from .. import terms as T

SVD = "vm::value::SymbolicValueData"
STORAGE = "vm::state::storage::Storage"
MEMORY = "vm::state::memory::Memory"
VM = "vm::VM"
DROPPERS = {"remove", "remove_entry", "pop", "clear", "truncate", "insert", "retain", "drain", "swap_remove", "split_off", "take", "dedup", "dedup_by_key", "retain_mut", "pop_front", "pop_back"}
FILTERS = {"filter", "filter_map", "take", "skip", "step_by", "take_while", "skip_while", "find", "nth", "last", "next", "dedup", "unique_by", "chunks"}
NARROW = ("as_u8", "as_u16", "as_u32", "as_u64", "as_u128", "as_usize")


def self_field_recv(n, adt, fields):
    """Is the method call's receiver (possibly through entry()/or_insert chains handled by caller) self.<field> of adt?"""
    r = F.strip(n["recv"])
    return r.get("k") == "Field" and r.get("adt") == adt and r["field"] in fields


def history_fields(fx, adt):
    a = fx.adt(adt)
    if not a:
        return []
    return [f["name"] for f in a["variants"][0]["fields"] if re.match(r"std::collections::HashMap<.*std::vec::Vec<", f["ty"].replace(" ", "")) or "HashMap<" in f["ty"] and "Vec<" in f["ty"]]


def check_r061(fx, rep):
    for adt in (STORAGE, MEMORY):
        hf = history_fields(fx, adt)
        if not rep.anchor("R06.1", len(hf) == 2, f"two per-key history maps in {adt} (found {hf})"):
            continue
        n_mut = 0
        for b in fx.fn_bodies():
            if b.get("impl_self") != adt:
                continue
            root = b["hir"]["value"]
            # locals aliasing a history map (`let target_map = match .. { .. => &mut self.known_slots, ..}`) or an entry of it
            alias = set()
            for n, ps in F.walk(root):
                if n.get("s") == "Let" and "init" in n and n["pat"].get("p") == "Bind":
                    mentions = any(m.get("k") == "Field" and m.get("adt") == adt and m["field"] in hf for m, _ in F.walk(n["init"]))
                    from_alias = any(m.get("k") == "Path" and m.get("res") == "local" and m["local"] in alias for m, _ in F.walk(n["init"]))
                    if mentions or from_alias:
                        alias.add(n["pat"]["local"])
            params = {}
            for p in b["hir"]["params"]:
                if p.get("p") == "Bind" and "HashMap<" in (p.get("ty") or "") and "Vec<" in (p.get("ty") or ""):
                    alias.add(p["local"])
            for n, ps in F.calls(root):
                if n.get("k") != "MethodCall":
                    continue
                r = F.strip(n["recv"])
                on_hist = (r.get("k") == "Field" and r.get("adt") == adt and r["field"] in hf) or (F.local_of(n["recv"]) in alias)
                # chained: self.map.entry(k).or_insert(..).push(v)
                if not on_hist:
                    inner = r
                    while inner.get("k") == "MethodCall":
                        inner = F.strip(inner["recv"])
                    on_hist = (inner.get("k") == "Field" and inner.get("adt") == adt and inner["field"] in hf) or (inner.get("k") == "Path" and inner.get("res") == "local" and inner["local"] in alias)
                if not on_hist:
                    continue
                meth = n["method"]
                if meth in DROPPERS:
                    consuming = b["hir"]["params"] and b["hir"]["params"][0].get("ty", "").startswith(adt) and meth in ("drain",)
                    n_mut += 1
                    rep.oblige(
                        False if not consuming else True,
                        "R06.1",
                        f"history-dropper:{F.strip_generics(b['def'])}:{meth}",
                        F.loc(n["span"]),
                        f"`{b['def']}` calls `{meth}` on a per-key history: a generation (and with it the evidence that the slot was accessed) can be lost",
                    )
                elif meth in ("push", "entry", "or_insert", "or_insert_with", "or_default", "extend"):
                    n_mut += 1
                    # appends must not be conditional on the value (early return / if around the push)
                    if meth == "push":
                        cond = [a for a, key in ps if a.get("k") in ("If", "Match") and not a.get("exp") and not (a.get("k") == "Match" and key == "scrut")]
                        # a match choosing *which map* is fine (it is in a let initialiser, not around the push)
                        early = [m for m, mps in F.walk(root) if m.get("k") == "Ret" and not m.get("exp") and T._span_key(m["span"])[1] < T._span_key(n["span"])[1]]
                        rep.oblige(
                            not cond and not early,
                            "R06.1",
                            f"append-unconditional:{F.strip_generics(b['def'])}",
                            F.loc(n["span"]),
                            f"`{b['def']}` does not append every write to the key's history ({'conditional push' if cond else 'early return before the push'}): a path's storage history no longer lists each write it performed",
                            sample={"rule": "R06.1", "fn": b["def"], "append": "unconditional push"},
                        )
        rep.extra[f"history_mutations:{adt.split('::')[-1]}"] = n_mut
    # load materialises the key before reading
    ld = fx.body(f"{STORAGE}::load")
    if rep.anchor("R06.1", ld is not None, "Storage::load"):
        names = [(F.callee_def(c) or "").split("::")[-1] for c, _ in F.calls(ld["hir"]["value"])]
        rep.oblige("or_insert_with" in names or "or_insert" in names, "R06.1", "load-materialises", F.loc(ld["span"]), "Storage::load does not record a generation for a key that was never written: a slot that is only read leaves no trace", sample={"rule": "R06.1", "load": "entry().or_insert_with(unwritten value)"})


def check_no_replacement(fx, rep, rule="R06.1", targets=None, what="every generation recorded on this path is discarded, so slots that were only touched before this point lose their layout rows", owner_suffix="VMState"):
    """The storage / memory of a state is only ever filled: nothing outside their own constructors replaces the whole object
    (`*state.storage_mut() = Storage::new()`, mem::replace / take / swap on it), which would discard every generation at once."""
    n = 0
    targets = targets or (STORAGE, MEMORY)
    for b in fx.fn_bodies():
        if not b.get("hir") or b.get("from_expansion") or b.get("impl_self") in targets:
            continue
        for x, xps in F.walk(b["hir"]["value"]):
            hit = None
            if x.get("k") == "Assign":
                lty = (x["l"].get("ty") or "").replace("&mut ", "").replace("&", "").strip()
                if lty in targets:
                    # constructing a state (struct literal fields) is not an Assign; a plain field initialisation `self.storage = ..`
                    # inside the state's own constructor is allowed
                    if not ((b.get("impl_self") or "").endswith(owner_suffix) and b.get("name", "").startswith("new")):
                        hit = ("assignment", lty)
            if x.get("k") == "Call" and F.strip_generics(F.callee_def(x) or "") in ("std::mem::replace", "core::mem::replace", "std::mem::take", "core::mem::take", "std::mem::swap", "core::mem::swap"):
                for a in x["args"]:
                    aty = (a.get("ty") or "").replace("&mut ", "").replace("&", "").strip()
                    if aty in targets:
                        hit = (F.callee_def(x).split("::")[-1], aty)
            if hit:
                n += 1
                rep.oblige(False, rule, f"replaced:{F.strip_generics(b['def'])}:{hit[1].split('::')[-1].split('<')[0]}", F.loc(x["span"]), f"`{b['def']}` replaces the whole `{hit[1]}` of a state ({hit[0]}): {what}")
    rep.inst(rule, "no-whole-object-replacement", sample={"rule": rule, "replacements": n, "of": [t.split("::")[-1] for t in targets]})


def check_r062(fx, rep, cg):
    from ..vmmodel import VMModel

    vm = VMModel(fx, cg)
    if not rep.anchor("R06.2", not vm.problems, "; ".join(vm.problems) or "VM anchors"):
        return
    adv = vm.advance
    root = adv["hir"]["value"]
    mutated = T.mutated_locals(root)
    pops = [(n, ps) for n, ps in F.calls(root) if n.get("k") == "MethodCall" and n["method"] in ("pop_front", "pop_back", "pop") and "VMThread" in (n.get("recv_ty") or "")]
    rep.oblige(len(pops) == 1, "R06.2", "one-pop", F.loc(adv["span"]), f"the advance function removes a thread from the queue at {len(pops)} places")
    for n, ps in pops:
        # the popped thread (let-bound) is the argument of stored_states.push(.. .into())
        lid = None
        for anc, key in reversed(ps):
            if anc.get("s") == "Let" and key == "init" and anc["pat"].get("p") == "Bind":
                lid = anc["pat"]["local"]
                break
        kept = False
        for c, cps in F.calls(root):
            if c.get("k") == "MethodCall" and c["method"] == "push" and "VMState" in (c.get("recv_ty") or ""):
                used = {m["local"] for m, _ in F.walk(c["args"][0]) if m.get("k") == "Path" and m.get("res") == "local"}
                same_block = any(a is b for a, _ in cps for b, _ in ps if "stmts" in a and "stmts" in b)
                cond = False
                # conditions between the pop and the push
                for a, key in cps:
                    if a.get("k") == "If" and not any(x is a for x, _ in ps):
                        cond = True
                if lid in used and not cond:
                    kept = True
        rep.oblige(kept, "R06.2", "popped-state-kept", F.loc(n["span"]), "the state of a thread removed from the queue is not (unconditionally) added to the stored states: slots touched only on that path are missed", sample={"rule": "R06.2", "flow": "thread_queue.pop_front() -> stored_states.push(thread.into())"})
    # nothing else drops threads / states
    vm_adt = fx.adt(VM)
    for b in fx.fn_bodies():
        if not (b.get("impl_self") or "").startswith("vm::"):
            continue
        for n, ps in F.calls(b["hir"]["value"]):
            if n.get("k") != "MethodCall" or n["method"] not in DROPPERS:
                continue
            rt = n.get("recv_ty") or ""
            # a private method of the VM that only the advance function calls is part of it (read there, inlined)
            part_of_adv = b.get("impl_self") == adv.get("impl_self") and set(cg.callers_of(b["def"])) == {adv["def"]}
            if ("VecDeque<vm::thread::VMThread>" in rt or "Vec<vm::state::VMState>" in rt) and not ((b["def"] == adv["def"] or part_of_adv) and n["method"] == "pop_front"):
                rep.oblige(False, "R06.2", f"drops-threads:{F.strip_generics(b['def'])}:{n['method']}", F.loc(n["span"]), f"`{b['def']}` removes threads / stored states with `{n['method']}`")
    # consume moves the stored states unfiltered
    er = [n for b in fx.fn_bodies() if b.get("impl_self") == VM for n, _ in F.walk(b["hir"]["value"]) if n.get("k") == "Struct" and n.get("adt") == "vm::ExecutionResult"]
    rep.floor("R06.2", len(er), 1, "constructions of ExecutionResult")
    for n in er:
        fe = {f["field"]: T.term(f["e"], T.Env()) for f in n["fields"]}
        st = fe.get("states")
        ok = st is not None and st[0] == "field" and st[1][0] == "local" and st[1][2] == "self"
        rep.oblige(ok, "R06.2", "result-gets-all-states", F.loc(n["span"]), f"the execution result receives `{T.short(st) if st else '?'}` instead of all stored states")


def chain_methods(node):
    # calls written by the programmer; the `next()` / `into_iter()` of a desugared `for` loop visit every element
    return [F.strip_generics(F.callee_def(c) or "").split("::")[-1] for c, _ in F.calls(node) if not ("ForLoop" in str(c.get("exp")) or "Desugaring" in str(c.get("exp")))]


def check_r063(fx, rep):
    sv = fx.body("vm::state::VMState::all_values")
    if rep.anchor("R06.3", sv is not None, "VMState::all_values"):
        root = sv["hir"]["value"]
        incl = [c for c, _ in F.calls(root) if (F.callee_def(c) or "").endswith("Storage::stores_as_values")]
        ext = []
        for c, ps in F.calls(root):
            if c.get("k") == "MethodCall" and c["method"] == "extend" and any(x is i for i in incl for x, _ in F.walk(c)):
                cond = any(a.get("k") in ("If", "Match") and not a.get("exp") for a, _ in ps)
                ext.append(not cond)
        if not ext and incl:
            # iterator form: the export is a link of the chain that is collected into the answer
            tail = (root.get("block") or root).get("expr") if root.get("k") == "Block" else root
            while tail is not None and tail.get("k") in ("DropTemps", "Use"):
                tail = tail.get("e") or tail.get("expr")
            links, cur, pure = [], tail, True
            while cur is not None and cur.get("k") == "MethodCall":
                if cur["method"] in ("filter", "filter_map", "take", "skip", "take_while", "skip_while", "map_while", "step_by", "flat_map", "map", "zip", "scan", "dedup"):
                    pure = False
                elif cur["method"] not in ("chain", "into_iter", "iter", "collect", "cloned", "copied"):
                    break
                links.append(cur)
                cur = cur.get("recv")
            if cur is not None:
                links.append(cur)
            inside = any(x is i for i in incl for l in links for part in ([l] if l.get("k") != "MethodCall" else (l.get("args") or [])) for x, _ in F.walk(part))
            cond = any(a.get("k") in ("If", "Match") and not a.get("exp") for c, ps in F.calls(root) if any(c is i for i in incl) for a, _ in ps)
            if tail is not None and tail.get("k") == "MethodCall" and pure and inside and not cond:
                ext.append(True)
        rep.oblige(bool(ext) and all(ext), "R06.3", "state-exports-storage", F.loc(sv["span"]), "the state's value export does not (unconditionally) include the storage export: storage accesses never reach the type checker", sample={"rule": "R06.3", "includes": "storage.stores_as_values()"})
    se = fx.body(f"{STORAGE}::stores_as_values")
    if rep.anchor("R06.3", se is not None, "Storage::stores_as_values"):
        root = se["hir"]["value"]
        ms = chain_methods(root)
        bad = sorted(set(ms) & FILTERS)
        rep.oblige(not bad, "R06.3", "export-unfiltered", F.loc(se["span"]), f"the storage export uses {bad}: some (key, generation) pairs are not exported")
        hf = history_fields(fx, STORAGE)
        used = {m["field"] for m, _ in F.walk(root) if m.get("k") == "Field" and m.get("adt") == STORAGE}
        rep.oblige(set(hf) <= used, "R06.3", "export-both-maps", F.loc(se["span"]), f"the storage export reads {sorted(used)} but the histories are {hf}")
        wraps = [n for n, _ in F.walk(root) if n.get("k") == "Struct" and n.get("adt") == SVD and n.get("variant") == "StorageWrite"]
        ok = False
        for wnode in wraps:
            for c, cps in F.calls(root):
                if (F.callee(c) or "").endswith("SymbolicValue::<()>::new") and any(x is wnode for x, _ in F.walk(c)):
                    lim = T.term(c["args"][3], T.Env())
                    key_t = [T.term(f["e"], T.Env()) for f in wnode["fields"] if f["field"] == "key"][0]
                    # key derives from the map's key binding (closure parameter), limit is None
                    if lim == ("path", "std::prelude::v1::None"):
                        ok = True
        rep.oblige(ok, "R06.3", "export-wrapper-unlimited", F.loc(se["span"]), "the exported StorageWrite wrapper is built with a size limit (or not at all): a write whose value is near the limit is replaced by an opaque value and its literal key is lost", sample={"rule": "R06.3", "wrapper": "RSV::new(.., StorageWrite{key,value}, .., None)"})
        cond = [n for n, ps in F.walk(root) if n.get("k") in ("If",) and not n.get("exp")]
        rep.oblige(not cond, "R06.3", "export-unconditional", F.loc(se["span"]), "the storage export skips some generations conditionally")
    er = fx.body("vm::ExecutionResult::all_values")
    if rep.anchor("R06.3", er is not None, "ExecutionResult::all_values"):
        ms = chain_methods(er["hir"]["value"])
        bad = sorted(set(ms) & FILTERS)
        ok = "flat_map" in ms and not bad
        rep.oblige(ok, "R06.3", "result-all-states", F.loc(er["span"]), f"the execution result does not flat-map the value export over all states ({ms})")


def check_r064(fx, rep):
    lf = fx.body("tc::TypeChecker::lift")
    if rep.anchor("R06.4", lf is not None, "TypeChecker::lift"):
        root = lf["hir"]["value"]
        ms = chain_methods(root)
        bad = sorted((set(ms) & FILTERS) - {"next"})
        dedup = [m for m in ms if m in ("unique", "unique_by", "dedup", "dedup_by", "dedup_by_key")]
        rep.oblige(not bad and dedup in (["unique"], []), "R06.4", "lift-dedup-structural", F.loc(lf["span"]), f"the lifting stage filters values with {bad or dedup}: only structural `unique()` de-duplication keeps every distinct storage access")
        # match on the pass result: Ok(v) => push_back(v), Err(e) => errors
        kept = False
        for m, ps in F.exprs(root, "Match"):
            for a in m["arms"]:
                pv = F.pat_variants(a["pat"])
                if pv and any(v == "Ok" for _, v in pv):
                    binds = F.pat_bindings(a["pat"])
                    for c, _ in F.calls(a["body"]):
                        if c.get("k") == "MethodCall" and c["method"] in ("push_back", "push") and F.local_of(c["args"][0]) in binds:
                            if not any(x.get("k") == "If" for x, _ in F.walk(a["body"])):
                                kept = True
        rep.oblige(kept, "R06.4", "lift-keeps-value", F.loc(lf["span"]), "a successfully lifted value is not (unconditionally) kept for the next stage", sample={"rule": "R06.4", "flow": "Ok(v) => new_values.push_back(v)"})
        # the values come from execution_result.all_values()
        src = any((F.callee_def(c) or "").endswith("ExecutionResult::all_values") for c, _ in F.calls(root))
        rep.oblige(src, "R06.4", "lift-source", F.loc(lf["span"]), "the lifting stage does not start from all values of the execution result")
    if lf is not None:
        root_l = lf["hir"]["value"]
        runs = [(c, cps) for c, cps in F.calls(root_l) if (F.callee_def(c) or "").endswith("LiftingPasses::run") or ((F.callee_def(c) or "").endswith("::run") and "lift" in (F.callee_def(c) or ""))]
        rep.anchor("R06.4", bool(runs), "the call that runs the lifting passes on a value")
        for c, cps in runs:
            loop_seen = False
            conditional = []
            for anc, key in cps:
                if anc.get("k") == "Loop":
                    loop_seen = True
                    continue
                if loop_seen and anc.get("k") in ("If", "Match") and key in ("then", "else", "arms") and not anc.get("exp") and "Desugar" not in str(anc.get("source", "")):
                    conditional.append(anc)
            nk = T._span_key(c["span"])
            skips = []
            lp = next((anc for anc, key in cps if anc.get("k") == "Loop"), None)
            if lp is not None:
                for x, xps in F.walk(lp["body"]):
                    if x.get("k") == "Continue" and not x.get("exp") and T._span_key(x["span"])[1] < nk[1]:
                        skips.append(x)
                    if x.get("k") == "If" and not x.get("exp") and T._span_key(x["span"])[2] <= nk[1] and any(y.get("k") in ("Continue",) for y, _ in F.walk(x["then"])):
                        skips.append(x)
            rep.oblige(
                not conditional and not skips,
                "R06.4",
                "lifting-unconditional",
                F.loc(c["span"]),
                "a value can reach registration without having been through the lifting passes (the call is conditional or can be skipped): its storage key is never wrapped as a slot, so a literal key loses its layout row",
                sample={"rule": "R06.4", "lifting_call_unconditional": not conditional and not skips},
            )
    av = fx.body("tc::TypeChecker::assign_vars")
    if rep.anchor("R06.4", av is not None, "TypeChecker::assign_vars"):
        root = av["hir"]["value"]
        reg = []
        for c, ps in F.calls(root):
            if (F.callee_def(c) or "").endswith("TypeCheckerState::register"):
                cond = any(a.get("k") == "If" and not a.get("exp") and "While" not in str(a.get("source", "")) for a, _ in ps if not (a.get("k") == "If" and a["cond"].get("k") == "Let"))
                reg.append(F.in_loop(ps) and not cond)
        rep.oblige(bool(reg) and all(reg), "R06.4", "register-every-value", F.loc(av["span"]), "variable assignment does not register every value", sample={"rule": "R06.4", "flow": "values.pop_front() -> state.register(value)"})


def check_r065(fx, rep):
    run = None
    for i, b in fx.trait_method_bodies("tc::lift::Lift", "run"):
        if (i.get("self_adt") or "").endswith("storage_slots::StorageSlots"):
            run = b
    if not rep.anchor("R06.5", run is not None, "the StorageSlots lifting pass"):
        return
    # the callback handed to transform_data
    cb = None
    for n, ps in F.calls(run["hir"]["value"]):
        if (F.callee_def(n) or "").endswith("transform_data") and n["args"]:
            d = F.path_def(n["args"][0])
            cb = next((fx.bodies[k] for k in fx.bodies if F.strip_generics(k) == F.strip_generics(d or "")), None)
    if not rep.anchor("R06.5", cb is not None, "the callback of the StorageSlots pass"):
        return
    # read the callback together with the private helpers nested next to it (`wrap_slot(key)`)
    cb = F.inline_module_helpers(fx, cb)
    for V in ("StorageWrite", "SLoad"):
        arm = None
        for m, ps in F.exprs(cb["hir"]["value"], "Match"):
            for a in m["arms"]:
                pv = F.pat_variants(a["pat"])
                if pv == {(SVD, V)}:
                    arm = a
        if arm is None:
            rep.oblige(False, "R06.5", f"slot-arm:{V}", F.loc(cb["span"]), f"the storage-slot pass has no arm for `{V}`: keys of such accesses are never marked as slots and never reach the layout")
            continue
        rebuilt = [n for n, _ in F.walk(arm["body"]) if n.get("k") == "Struct" and n.get("adt") == SVD and n.get("variant") == V]
        ok = bool(rebuilt)
        for r in rebuilt:
            root = arm["body"]
            mutated = T.mutated_locals(root)
            for n, ps in F.walk(root):
                if n is r:
                    env = T.env_at(ps, n, mutated)
                    kt = [T.term(f["e"], env, mutated) for f in r["fields"] if f["field"] == "key"][0]
                    # every branch of the key's data is a StorageSlot (existing one cloned, or fresh)
                    txt = T.short(kt)
                    fresh = "StorageSlot{" in txt
                    reuse = "StorageSlot =>" in txt or "match" in txt
                    if not (fresh and reuse) and "StorageSlot" not in txt:
                        ok = False
        # the arm returns Some(rebuilt) unconditionally
        tail = T.term(arm["body"], T.Env())
        leaves = [F.strip(x) for x in T.result_leaves(arm["body"])]
        returns_some = bool(leaves) and all(x.get("k") == "Call" and (F.path_def(x["f"]) or "").endswith("::Some") for x in leaves)
        rep.oblige(ok and returns_some, "R06.5", f"slot-arm:{V}", F.loc(arm["span"]), f"the `{V}` arm of the storage-slot pass does not rebuild the node with a StorageSlot key on every path", sample={"rule": "R06.5", "arm": V, "key": "existing StorageSlot or fresh wrapper"})


def check_r066(fx, rep):
    n = 0
    for b in fx.fn_bodies():
        hir = b.get("hir")
        if not hir or b.get("from_expansion"):
            continue
        for c, ps in F.calls(hir["value"]):
            if F.strip_generics(F.callee_def(c) or "") == "layout::StorageLayout::add":
                n += 1
                full = F.callee(c) or ""
                m = re.search(r"add::<(.*)>$", full)
                ty = m.group(1) if m else "?"
                ok = any(x in ty for x in ("KnownWord", "ethnum::U256", "U256Wrapper")) and not re.search(r"\b(usize|u64|u32|u128)\b", ty)
                rep.oblige(ok, "R06.6", f"index-type:{F.strip_generics(b['def'])}", F.loc(c["span"]), f"the slot index is handed to the layout as `{ty}`: slot keys of 2^64 and above cannot be represented", sample={"rule": "R06.6", "index_type": ty})
                at = T.term(c["args"][0], T.Env())
                narrow = [s for s in T.subterms(at) if s[0] == "call" and str(s[1]).split("::")[-1] in NARROW] + [s for s in T.subterms(at) if s[0] == "cast"]
                rep.oblige(not narrow, "R06.6", f"index-narrowed:{F.strip_generics(b['def'])}", F.loc(c["span"]), "the slot index is narrowed before it reaches the layout")
    rep.floor("R06.6", n, 1, "calls of StorageLayout::add")
    # ... and the writer files the row under that index as it stands (shared with C05 R05.1)
    from .c05 import check_row_as_handed

    check_row_as_handed(fx, rep, "R06.6")
    # From<KnownWord>/<&KnownWord>/<U256> for U256Wrapper: no narrowing
    k = 0
    for i in fx.impls:
        if i.get("self_adt") == "utility::U256Wrapper" and i.get("trait") == "std::convert::From":
            src = i.get("trait_full", "")
            for it in i["items"]:
                b = fx.body(it["def"])
                if not b:
                    continue
                k += 1
                names = [F.strip_generics(F.callee(x) or F.callee_def(x) or "").split("::")[-1] for x, _ in F.calls(b["hir"]["value"])]
                casts = [x for x, _ in F.walk(b["hir"]["value"]) if x.get("k") == "Cast"]
                m = re.search(r"From<(.*)>>?$", src)
                from_ty = m.group(1) if m else src
                wide = "KnownWord" in from_ty or "ethnum::U256" in from_ty
                if wide:
                    bad = [x for x in names if x in NARROW] or casts
                    rep.oblige(not bad, "R06.6", f"wrapper-from:{src}", F.loc(b["span"]), f"`{src}` narrows the 256-bit value ({bad})", sample={"rule": "R06.6", "impl": src, "calls": names})
    rep.floor("R06.6", k, 3, "From impls of the index wrapper")
    # the constant-slot filter
    un = fx.body("tc::TypeChecker::unify")
    flt = None
    for name, b in fx.bodies.items():
        if name.startswith("tc::TypeChecker::unify::") and b.get("kind") == "Fn":
            flt = b
    if rep.anchor("R06.6", flt is not None, "the constant-storage-slot predicate inside the layout builder"):
        root = flt["hir"]["value"]
        pats = [n for n, _ in F.walk(root) if n.get("p") in ("Struct",) and n.get("adt") == SVD]
        vs = [p.get("variant") for p in pats]
        guards = [n for n, _ in F.walk(root) if n.get("k") == "Binary" and n["op"] in ("Lt", "Le", "Gt", "Ge", "Eq", "Ne")]
        ok = vs.count("StorageSlot") >= 1 and vs.count("KnownData") >= 1 and not guards
        rep.oblige(ok, "R06.6", "filter-accepts-all-constants", F.loc(flt["span"]), f"the constant-slot predicate matches {vs} with {len(guards)} extra comparison(s): some literal keys are filtered out")
    # every constant slot yields at least one row: a packed type without spans is not turned into zero rows
    ab = fx.body("tc::TypeChecker::abi_type_for_impl")
    if rep.anchor("R06.6", ab is not None, "TypeChecker::abi_type_for_impl"):
        root = ab["hir"]["value"]
        bare = []
        for n, ps in F.walk(root):
            if n.get("k") == "Call" and (F.path_def(n["f"]) or "").endswith("AbiValue::Packed") and n["args"] and F.local_of(n["args"][0]) is not None:
                bare.append((n, ps))
        rep.floor("R06.6", len(bare), 1, "places returning the accumulated packed pairs")
        for n, ps in bare:
            lid = F.local_of(n["args"][0])
            safe = False
            for a, key in ps:
                if a.get("k") == "If":
                    ct = T.term(a["cond"], T.Env())
                    # (a) parent == ParentType::Packed, then-branch
                    if key == "then" and "ParentType::Packed" in str(ct):
                        safe = True
                    # (b) else-chain after `pairs.is_empty()`
                    if key == "else" and ct[0] == "call" and str(ct[1]).endswith("::is_empty") and ct[2] and ct[2][0][0] == "local" and ct[2][0][1] == lid:
                        safe = True
                # (c) a later arm of `match pairs.as_slice()` / `match pairs.len()` whose empty case is taken by an earlier arm
                if a.get("k") == "Match":
                    sc = T.term(a["scrut"], T.Env())
                    on_pairs = sc[0] == "call" and str(sc[1]).split("::")[-1] in ("as_slice", "len", "as_ref") and sc[2] and sc[2][0][0] == "local" and sc[2][0][1] == lid
                    mine = next((i for i, arm in enumerate(a["arms"]) if any(x is n for x, _ in F.walk(arm["body"]))), None)
                    if on_pairs and mine:
                        for arm in a["arms"][:mine]:
                            pt = arm["pat"]
                            empty_pat = (pt.get("p") == "Slice" and not pt.get("before") and not pt.get("after") and "mid" not in pt) or (pt.get("p") == "Lit" and str(pt["value"].get("v")) == "0")
                            if empty_pat and not arm.get("guard"):
                                safe = True
            rep.oblige(safe, "R06.6", "empty-packed-still-a-row", F.loc(n["span"]), "a slot whose packed type has no spans is returned as an empty list of entries: the layout builder then adds no row for that slot", sample={"rule": "R06.6", "guard": "pairs.is_empty() => Any"})


def check_r067(fx, rep):
    """A lifting pass may replace a node that *is* a constant by an expression only in the one documented case: the constant
    is exactly the hash of a small slot number (looked up, unmodified, in the table of pre-computed hashes) and becomes the
    Sha3 of that number. Any other constant-to-expression rewrite turns a literal key into a non-literal one and loses its row."""
    n = 0
    for b in fx.fn_bodies():
        if not (b["def"].startswith("<tc::lift::") or b["def"].startswith("tc::lift::")) or not b.get("hir"):
            continue
        root = b["hir"]["value"]
        units = [(root, b["hir"]["params"])]
        for c, ps in F.exprs(root, "Closure"):
            units.append((c["body"], c.get("params", [])))
        for body, params in units:
            plids = {p.get("local") for p in params if p.get("p") == "Bind"}
            consts = []  # locals bound to the value of the constant the unit received
            for m, ps in F.walk(body):
                if m.get("s") == "Let" and "els" in m and (F.pat_variants(m["pat"]) or set()) == {(SVD, "KnownData")} and F.local_of(F.strip(m["init"])) in plids:
                    consts += list(F.pat_bindings(m["pat"]))
                if m.get("k") == "Match" and F.local_of(F.strip(m["scrut"])) in plids:
                    for a in m["arms"]:
                        if (F.pat_variants(a["pat"]) or set()) == {(SVD, "KnownData")}:
                            consts += list(F.pat_bindings(a["pat"]))
            if not consts:
                continue
            mutated = T.mutated_locals(body)
            for st, sps in F.walk(body):
                if st.get("k") != "Struct" or st.get("adt") != SVD or st.get("variant") == "KnownData":
                    continue
                # only productions in result position of the unit (wrapped in Some(..)), not pieces of the constant's own tree
                n += 1
                rep.fn(b["def"])
                w = F.loc(st["span"])
                exact = False

                def exact_lookup(call):
                    call = F.strip(call)
                    if call.get("k") == "MethodCall" and call["method"] in ("get_by_left", "get_by_right", "get") and call["args"]:
                        t = T.term(call["args"][0], T.env_at(sps, st, mutated), mutated)
                        while t[0] == "call" and isinstance(t[1], str) and F.strip_generics(t[1]).split("::")[-1] in ("value_le", "value", "clone") and t[2]:
                            t = t[2][0]
                        return t[0] == "local" and t[1] in consts
                    return False

                for anc, key in sps:
                    cond = anc.get("cond") if anc.get("k") == "If" and key == "then" else None
                    if cond is not None and cond.get("k") == "Let" and exact_lookup(cond["init"]):
                        exact = True
                    # the production follows `let x = <lookup>?;` / `let Some(x) = <lookup> else { return None }` in the same block:
                    # it is reached only with a hit
                    if "stmts" in anc and "k" not in anc:
                        for s_ in anc["stmts"]:
                            if any(x is st for x, _ in F.walk(s_)):
                                break
                            if s_.get("s") != "Let" or "init" not in s_:
                                continue
                            i_ = F.strip(s_["init"])
                            if i_.get("k") == "Match" and "TryDesugar" in i_.get("source", "") and i_["scrut"].get("k") == "Call" and i_["scrut"]["args"] and exact_lookup(i_["scrut"]["args"][0]):
                                exact = True
                            if "els" in s_ and exact_lookup(i_) and any(v == "Some" for _, v in (F.pat_variants(s_["pat"]) or set())) and T.diverges(s_["els"]):
                                exact = True
                ok = st.get("variant") == "Sha3" and exact
                rep.oblige(
                    ok,
                    "R06.7",
                    f"constant-rewrite:{F.strip_generics(b['def'])}:{st.get('variant')}",
                    w,
                    f"`{b['def']}` replaces a constant by a `{st.get('variant')}` expression"
                    + ("" if exact else " without an exact look-up of that constant in the table of slot-number hashes")
                    + ": a literal storage key of that form is no longer a constant and its layout row is lost",
                    sample={"rule": "R06.7", "fn": b["def"], "produces": st.get("variant"), "exact_lookup": exact, "at": w},
                )
    rep.floor("R06.7", n, 1, "constant-to-expression rewrites in the lifting passes")


def check(fx, rep, tier):
    cg = F.CallGraph(fx)
    check_r061(fx, rep)
    check_no_replacement(fx, rep)
    check_r062(fx, rep, cg)
    check_r063(fx, rep)
    check_r064(fx, rep)
    check_r065(fx, rep)
    check_r066(fx, rep)
    check_r067(fx, rep)
    # registration keeps every distinct literal key apart: nothing in the type checker's state (or the checker itself) reads a
    # constant as a native integer (a cache or index keyed by `usize::from(word)` merges slots that agree modulo 2^64)
    from .c11 import constant_readers

    narrowers = {k: v for k, v in constant_readers(fx, lambda d: d.startswith("tc::state::") or d.startswith("tc::TypeChecker::")).items() if any("->" in x or x.startswith(("as_", "try_from", "into", "from")) for x in v.split(","))}
    rep.oblige(
        not narrowers,
        "R06.6",
        "no-narrowing-in-registration",
        F.loc(fx.body(sorted(narrowers)[0])["span"]) if narrowers else "-",
        f"the type checker's state converts a constant to a native integer ({narrowers}): values or slots keyed that way are merged when their low bits agree, and one of them loses its layout row",
        sample={"rule": "R06.6", "functions_scanned": sum(1 for b in fx.fn_bodies() if b["def"].startswith(("tc::state::", "tc::TypeChecker::"))), "narrowing_readers": len(narrowers)},
    )
    # a checker that is used again starts from an empty state (a stale stable-type cache answers registrations of a later
    # run and the value - hence its slot - is never registered): shared with C05 R05.7
    from .c05 import check_fresh_run

    check_fresh_run(fx, rep, "R06.4")
    # a literal key survives on the stack only if a value of up to `limit` nodes is kept (the cull comparison is `>`): with the
    # smallest limit every pushed literal would otherwise become an opaque value and its slot would be lost (shared with C18 R18.4)
    from .c18 import check_r184
    from ..core import Retag

    check_r184(fx, Retag(rep, "R06.2"))
    from .c18 import check_leaf_survives

    check_leaf_survives(fx, rep, "R06.2")
    # a literal key that travels through memory reaches SLOAD / SSTORE intact only if memory operations touch the words the EVM
    # touches: operand roles and copy extents of the memory / storage model (C07 R07.2 effect:* / copy-loop:*)
    from .. import core as _core6

    _core6.import_rules(rep, fx, "C07", "R06.2", only_rules=("R07.2",), floor=20, what="memory / storage effect obligations (C07 R07.2) behind 'the key of an executed access'", key_filter=lambda k: "effect:" in k or "copy-loop:" in k)
    # the chain starts at execution: the one-call entry point reaches a layout only through every stage (C17 R17.7)
    _core6.import_rules(rep, fx, "C17", "R06.2", only_rules=("R17.7",), floor=2, what="pipeline-complete obligations (C17 R17.7) behind 'every executed access reaches the layout'")
    return rep.finish(
        "Must-flow / append-only audit of the chain executed access -> generation -> stored state -> exported StorageWrite -> lifted value -> registered value -> StorageSlot key -> layout row, "
        "with the row index carried as a 256-bit type and no dropping adaptor, conditional or narrowing on any link.",
        "instances = history mutations, thread/state drops, export adaptors, lift/register flows, storage-slot arms, index types and conversions; enumerated from the crate",
        ["that type resolution of the row succeeds is not decided; key rewrites are decided only for passes that replace a node that is itself a constant (R06.7)"],
    )
