"""C19 — union-find forest and vector map: representation invariants (necessary conditions).

R19.1 the vector map's length counter moves only with occupancy: +1 only where the written slot was empty,
      -1 only where the removed slot was full; len()/is_empty() read that counter; growth pads with None only.
R19.2 forest data lives at roots: the key of every data.{get,insert,remove} derives from a find() result
      (or from a representative that is its own parent, in the enumeration).
R19.3 union hands data over: both operands are find() results, equal roots return early, the absorbed root's data
      is removed and combined into the surviving root's entry, and the absorbed root is re-parented to the survivor.
R19.4 find writes only the recursive find result (path compression) or a self-parent for a new element.
"""
from .. import facts as F
from .. import terms as T

VM_ADT = "data::vector_map::VectorMap"
DS_ADT = "data::disjoint_set::DisjointSet"


def bodies_of(fx, adt):
    out = {}
    for b in fx.fn_bodies():
        if (b.get("impl_self") or "").startswith(adt) and not b.get("impl_trait"):
            out[b["name"]] = b
    return out


def field_of_self(t, field):
    return isinstance(t, tuple) and t[0] == "field" and t[2] == field and t[1][0] == "local" and t[1][2] == "self"


def cond_facts(cond, env, mutated, root=None):
    """Occupancy facts established by a condition: list of (kind, subject_term) with kind in
    {'is_none','is_some'} for the then-branch. A condition that is a local bound by an earlier immutable `let` is looked
    through (the bound test must have been evaluated before any write to a slot)."""
    out = []
    c = cond
    while c.get("k") in ("DropTemps", "Use"):
        c = c["e"]
    if c.get("k") == "MethodCall" and c["method"] in ("is_none", "is_some"):
        out.append((c["method"], T.term(c["recv"], env, mutated)))
    if c.get("k") == "Let":
        pv = F.pat_variants(c["pat"])
        if pv and len(pv) == 1:
            v = next(iter(pv))[1]
            if v in ("Some", "None"):
                out.append(("is_some" if v == "Some" else "is_none", T.term(c["init"], env, mutated)))
    if c.get("k") == "Unary" and c.get("op") == "Not":
        inner = cond_facts(c["e"], env, mutated, root)
        flip = {"is_none": "is_some", "is_some": "is_none"}
        out.extend((flip[k], s) for k, s in inner)
    lid = F.local_of(c) if c.get("k") == "Path" else None
    if lid is not None and root is not None and lid not in mutated:
        for m, mps in F.walk(root):
            if m.get("s") == "Let" and m["pat"].get("p") == "Bind" and m["pat"].get("local") == lid and "init" in m and "els" not in m:
                lk = T._span_key(m["span"])
                early_write = False
                for w, _ in F.walk(root):
                    wk = T._span_key(w.get("span")) if isinstance(w, dict) and w.get("span") else None
                    if wk is None or not lk or wk[2] > lk[1]:
                        continue
                    if w.get("k") == "Assign" and is_slot_of_data(T.term(w["l"], T.Env(), mutated)):
                        early_write = True
                    if w.get("k") == "MethodCall" and w["method"] in ("take", "replace", "insert", "get_or_insert") and is_slot_of_data(T.term(w["recv"], T.Env(), mutated)):
                        early_write = True
                if not early_write:
                    out.extend(cond_facts(m["init"], T.env_at(mps, m, mutated), mutated, None))
    return out


def occupancy_context(ps, env, mutated, root=None):
    """Facts that hold at a node because of the enclosing if / match arms."""
    facts = []
    for i, (anc, key) in enumerate(ps):
        if anc.get("k") == "If" and key in ("then", "else"):
            for k, s in cond_facts(anc["cond"], env, mutated, root):
                if key == "else":
                    k = {"is_none": "is_some", "is_some": "is_none"}[k]
                facts.append((k, s))
        if "pat" in anc and "body" in anc and key == "body" and i > 0:
            m = ps[i - 1][0]
            if m.get("k") == "Match":
                pv = F.pat_variants(anc["pat"])
                if pv and len(pv) == 1:
                    v = next(iter(pv))[1]
                    if v in ("Some", "None"):
                        facts.append(("is_some" if v == "Some" else "is_none", T.term(m["scrut"], env, mutated)))
    return facts


def is_slot_of_data(t):
    """self.data[index]"""
    return isinstance(t, tuple) and t[0] == "index" and field_of_self(t[1], "data")


def check_vector_map(fx, rep):
    fns = bodies_of(fx, VM_ADT)
    adt = fx.adt(VM_ADT)
    if not rep.anchor("R19.1", adt is not None and fns, "the vector map type and its methods"):
        return
    fields = {f["name"]: f["ty"] for f in adt["variants"][0]["fields"]}
    counters = [f for f, ty in fields.items() if ty == "usize"]
    if not rep.anchor("R19.1", len(counters) == 1, f"exactly one usize counter field in the vector map (found {counters})"):
        return
    cnt = counters[0]
    n_writes = 0
    for name, b in sorted(fns.items()):
        root = b["hir"]["value"]
        mutated = T.mutated_locals(root)
        for n, ps in F.walk(root):
            k = n.get("k")
            if k not in ("Assign", "AssignOp"):
                continue
            lhs = T.term(n["l"], T.Env(), mutated)
            if not field_of_self(lhs, cnt):
                continue
            n_writes += 1
            rep.fn(b["def"])
            w = F.loc(n["span"])
            env = T.env_at(ps, n, mutated)
            facts = occupancy_context(ps, env, mutated, root)
            if k == "Assign":
                rhs = T.term(n["r"], env, mutated)
                ok = rhs == ("lit", "0")
                rep.oblige(ok, "R19.1", f"counter-write:{name}", w, f"`{cnt}` assigned `{T.short(rhs)}` in `{name}`: the counter may only be reset to 0 or stepped by one under an occupancy test")
                continue
            op = n["op"].replace("Assign", "")
            step = T.term(n["r"], env, mutated)
            if step != ("lit", "1") or op not in ("Add", "Sub"):
                rep.oblige(False, "R19.1", f"counter-write:{name}", w, f"`{cnt} {op}= {T.short(step)}` in `{name}`: not a unit step")
                continue
            need = "is_none" if op == "Add" else "is_some"
            ok = False
            for kind, subj in facts:
                if kind != need:
                    continue
                # the subject must be the slot being written (self.data[index]) or the value taken out of it
                if is_slot_of_data(subj):
                    ok = True
                if subj[0] == "call" and isinstance(subj[1], str) and subj[1].split("::")[-1] in ("take", "replace") and subj[2] and is_slot_of_data(subj[2][0]):
                    ok = True
                if subj[0] == "call" and isinstance(subj[1], str) and ("::get" in subj[1]) and subj[2] and field_of_self(subj[2][0], "data"):
                    ok = True
                # `self.data.get_mut(i)?.take()`: the value taken out of the (existing) slot
                if subj[0] == "call" and isinstance(subj[1], str) and subj[1].split("::")[-1] in ("take", "replace") and subj[2]:
                    inner = subj[2][0]
                    while isinstance(inner, tuple) and inner[0] in ("ref", "deref") and len(inner) > 1:
                        inner = inner[1]
                    if isinstance(inner, tuple) and inner[0] == "call" and isinstance(inner[1], str) and F.strip_generics(inner[1]).split("::")[-1] in ("get_mut", "index_mut") and inner[2] and field_of_self(inner[2][0], "data"):
                        ok = True
            rep.oblige(
                ok,
                "R19.1",
                f"counter-step:{name}:{op}",
                w,
                f"`{cnt} {'+' if op=='Add' else '-'}= 1` in `VectorMap::{name}` is not conditional on the slot having been {'empty' if op=='Add' else 'occupied'}: the reported length drifts from the number of stored entries",
                sample={"rule": "R19.1", "fn": name, "step": op, "guards": [f"{k}({T.short(s)[:50]})" for k, s in facts], "at": w},
            )
    rep.floor("R19.1", n_writes, 2, f"writes to VectorMap::{cnt}")
    # a fresh map reports 0: wherever the type is built from its fields, the counter starts at the number of occupied slots of
    # the vector it is given - literally 0 with a vector that holds no `Some`, or the length of a vector that is empty
    GROW = {"push", "resize", "resize_with", "extend", "extend_from_slice", "insert", "append", "fill", "fill_with"}
    n_ctor = 0
    for name, b in sorted(fns.items()):
        root = b["hir"]["value"]
        for lit, lps in F.walk(root):
            if lit.get("k") != "Struct" or lit.get("adt") != VM_ADT:
                continue
            fl = {f["field"]: f["e"] for f in lit["fields"]}
            if cnt not in fl or "data" not in fl:
                continue
            n_ctor += 1
            mutated = T.mutated_locals(root)
            st = T.term(fl[cnt], T.env_at(lps, lit, mutated), mutated)
            zero = st == ("lit", "0")
            is_len = st[0] == "call" and isinstance(st[1], str) and F.strip_generics(st[1]).split("::")[-1] == "len"
            # where the vector comes from: this body, or (for a parameter) every caller inside the type's own methods
            dl = F.local_of(F.strip(fl["data"]))
            params = {p_.get("local") for p_ in b["hir"]["params"]}
            sources = []
            if dl in params:
                pi = [p_.get("local") for p_ in b["hir"]["params"]].index(dl)
                for cname, cb in fns.items():
                    for c, _ in F.calls(cb["hir"]["value"]):
                        if F.strip_generics(F.callee_def(c) or "") == F.strip_generics(b["def"]) and len(c.get("args", [])) > pi:
                            sources.append((cb, F.local_of(F.strip(c["args"][pi]))))
            else:
                sources.append((b, dl))
            grows, some_fill = [], []
            for sb, sl in sources:
                for c, _ in F.calls(sb["hir"]["value"]):
                    if c.get("k") == "MethodCall" and c["method"] in GROW and sl is not None and F.local_of(F.strip(c["recv"])) == sl:
                        grows.append(f"{sb['name']}:{c['method']}")
                        if any(x.get("k") == "Call" and (F.path_def(x["f"]) or "").endswith("::Some") for a in c["args"] for x, _ in F.walk(a)) or c["method"] in ("push", "insert", "extend", "append", "extend_from_slice"):
                            some_fill.append(f"{sb['name']}:{c['method']}")
            ok = bool(sources) and ((zero and not some_fill) or (is_len and not grows))
            rep.oblige(ok, "R19.1", f"counter-init:{name}", F.loc(lit["span"]), f"`{name}` builds the map with `{cnt}` = `{T.short(st)[:40]}` over a vector that " + (f"has been grown by {grows}" if grows else "comes from an unknown place") + ": a fresh map reports a length that is not the number of its entries", sample={"rule": "R19.1", "fn": name, "initial_counter": T.short(st)[:30], "vector_grown_by": grows})
    rep.floor("R19.1", n_ctor, 1, "places where the vector map is built from its fields")
    # operations that change how many slots are occupied without going through the counted write / take idiom
    for name, b in sorted(fns.items()):
        root = b["hir"]["value"]
        mutated = T.mutated_locals(root)
        for n, ps in F.calls(root):
            if n.get("k") != "MethodCall" or n["method"] not in ("pop", "remove", "swap_remove", "truncate", "clear", "drain", "retain", "split_off", "dedup"):
                continue
            if not field_of_self(T.term(n["recv"], T.Env(), mutated), "data"):
                continue
            # accepted only when a counter write follows in the same block (e.g. clear + size = 0)
            blk = None
            for anc, key in reversed(ps):
                if "stmts" in anc:
                    blk = anc
                    break
            followed = False
            if blk is not None:
                nk = T._span_key(n["span"])
                for st in blk["stmts"]:
                    e = st.get("e") if st.get("s") == "Expr" else None
                    if e is not None and e.get("k") in ("Assign", "AssignOp") and field_of_self(T.term(e["l"], T.Env(), mutated), cnt) and T._span_key(e["span"])[1] >= nk[2]:
                        followed = True
                    if e is not None and e.get("k") == "If" and any(m.get("k") in ("Assign", "AssignOp") and field_of_self(T.term(m["l"], T.Env(), mutated), cnt) for m, _ in F.walk(e)) and T._span_key(e["span"])[1] >= nk[2]:
                        followed = True
            rep.oblige(followed, "R19.1", f"uncounted-removal:{name}:{n['method']}", F.loc(n["span"]), f"`VectorMap::{name}` removes entries from the backing vector with `{n['method']}` without adjusting `{cnt}` afterwards: the reported length drifts from the number of stored entries")
    # readers ------------------------------------------------------------------------------
    for name, want in (("len", "field"), ("is_empty", "eq0")):
        b = fns.get(name)
        if not rep.anchor("R19.1", b is not None, f"VectorMap::{name}"):
            continue
        t = T.block_term({"stmts": [], "expr": b["hir"]["value"]}, T.Env())
        if want == "field":
            ok = field_of_self(t, cnt)
        else:
            ok = t[0] == "bin" and t[1] == "Eq" and ((field_of_self(t[2], cnt) and t[3] == ("lit", "0")) or (field_of_self(t[3], cnt) and t[2] == ("lit", "0")))
            if not ok:
                # `self.len() == 0` (delegation to the counter's reader); the backing vector never shrinks, so asking *it* whether
                # it is empty is not the same question
                def reads_len(x):
                    return x[0] == "call" and isinstance(x[1], str) and F.strip_generics(x[1]).endswith("VectorMap::len") and x[2] and x[2][0][0] == "local" and x[2][0][2] == "self"

                ok = t[0] == "bin" and t[1] == "Eq" and ((reads_len(t[2]) and t[3] == ("lit", "0")) or (reads_len(t[3]) and t[2] == ("lit", "0")))
        rep.oblige(ok, "R19.1", f"reader:{name}", F.loc(b["span"]), f"VectorMap::{name} returns `{T.short(t)}` instead of reading the `{cnt}` counter", sample={"rule": "R19.1", "fn": name, "returns": T.short(t)})
    # growth pads with None; the write stores Some(value) at key.index() --------------------
    ins = fns.get("insert")
    if rep.anchor("R19.1", ins is not None, "VectorMap::insert"):
        root = ins["hir"]["value"]
        mutated = T.mutated_locals(root)
        pushes = [(n, ps) for n, ps in F.calls(root) if n.get("k") == "MethodCall" and n["method"] == "push"]
        ok = all(T.term(n["args"][0], T.Env(), mutated) == ("path", "std::prelude::v1::None") or "None" in str(T.term(n["args"][0], T.Env(), mutated)) for n, ps in pushes)
        rep.oblige(ok, "R19.1", "grow-with-none", F.loc(ins["span"]), "VectorMap::insert pads the backing vector with something other than None")
        writes = [(n, ps) for n, ps in F.walk(root) if n.get("k") == "Assign" and is_slot_of_data(T.term(n["l"], T.Env(), mutated))]
        ok = False
        for n, ps in writes:
            env = T.env_at(ps, n, mutated)
            lhs = T.term(n["l"], env, mutated)
            rhs = T.term(n["r"], env, mutated)
            idx = lhs[2]
            is_key_index = idx[0] == "call" and str(idx[1]).endswith("::index") and idx[2] and idx[2][0][0] == "local" and idx[2][0][2] == "key"
            is_some_value = rhs[0] == "struct" and str(rhs[2]).endswith("Some") and rhs[3] and rhs[3][0][1][0] == "local" and rhs[3][0][1][2] == "value"
            if is_key_index and is_some_value:
                ok = True
        # `self.data[key.index()].replace(value)` / `.insert(value)` store Some(value) as well
        for n, ps in F.calls(root):
            if n.get("k") == "MethodCall" and n["method"] in ("replace", "insert") and n["args"]:
                env = T.env_at(ps, n, mutated)
                recv = T.term(n["recv"], env, mutated)
                arg = T.term(n["args"][0], env, mutated)
                if is_slot_of_data(recv):
                    idx = recv[2]
                    is_key_index = idx[0] == "call" and str(idx[1]).endswith("::index") and idx[2] and idx[2][0][0] == "local" and idx[2][0][2] == "key"
                    if is_key_index and arg[0] == "local" and arg[2] == "value":
                        ok = True
        rep.oblige(ok, "R19.1", "insert-writes-slot", F.loc(ins["span"]), "VectorMap::insert does not store Some(value) at data[key.index()]")


def find_results(root, mutated):
    """Locals bound to `self.find(..)`."""
    out = {}
    for n, ps in F.walk(root):
        if n.get("s") == "Let" and "init" in n and n["pat"].get("p") == "Bind":
            init = F.strip(n["init"])
            if init.get("k") == "MethodCall" and (init.get("def") or "").endswith("DisjointSet::<Value, Data>::find"):
                out[n["pat"]["local"]] = (n["pat"]["name"], T.term(init["args"][0], T.Env(), mutated))
    return out


def check_disjoint_set(fx, rep):
    fns = bodies_of(fx, DS_ADT)
    if not rep.anchor("R19.2", bool(fns), "the union-find forest type and its methods"):
        return
    adt = fx.adt(DS_ADT)
    fields = {f["name"]: f["ty"] for f in adt["variants"][0]["fields"]}
    # the parent map stores Value -> Value; the data map Value -> Data
    parent_f = [f for f, ty in fields.items() if ty.replace(" ", "").endswith("<Value,Value>")]
    data_f = [f for f, ty in fields.items() if ty.replace(" ", "").endswith("<Value,Data>")]
    if not rep.anchor("R19.2", len(parent_f) == 1 and len(data_f) == 1, f"one parent map and one data map in the forest (found {parent_f}, {data_f})"):
        return
    reps, data = parent_f[0], data_f[0]

    # every operation that names an element looks it up first, unconditionally: the look-up is what registers an element the forest
    # has not seen, so an early return in front of it leaves that element out of values() / sets()
    n_first = 0
    for name, b in sorted(fns.items()):
        if name in ("find", "insert", "new", "default", "sets", "values", "with_capacity"):
            continue
        root = b["hir"]["value"]
        vparams = [p_ for p_ in b["hir"]["params"] if p_.get("p") == "Bind" and (p_.get("ty") or "").replace(" ", "") in ("&Value",)]
        for p_ in vparams:
            n_first += 1
            calls = [(c, cps) for c, cps in F.calls(root) if c.get("k") == "MethodCall" and (c.get("def") or "").endswith("DisjointSet::<Value, Data>::find") and c["args"] and F.local_of(F.strip(c["args"][0])) == p_["local"]]
            uncond = [c for c, cps in calls if not T.path_conditions(cps, c) and not any(a.get("k") in ("If", "Match", "Loop", "Closure") for a, _ in cps if isinstance(a, dict))]
            rep.oblige(bool(uncond), "R19.2", f"lookup-first:{name}:{p_['name']}", F.loc(b["span"]), f"`{name}` does not look `{p_['name']}` up with find() unconditionally (it can return, or act, before the look-up): an element the forest has not seen is not registered on that path and is missing from values() and sets()", sample={"rule": "R19.2", "fn": name, "param": p_["name"]} if n_first <= 3 else None)
    rep.floor("R19.2", n_first, 4, "element parameters of the forest's operations")
    # R19.2 ---------------------------------------------------------------------------------
    n_sites = 0
    for name, b in sorted(fns.items()):
        root = b["hir"]["value"]
        mutated = T.mutated_locals(root)
        finds = find_results(root, mutated)
        for n, ps in F.calls(root):
            if n.get("k") != "MethodCall" or n["method"] not in ("get", "get_mut", "insert", "remove"):
                continue
            recv = T.term(n["recv"], T.Env(), mutated)
            if not field_of_self(recv, data):
                continue
            n_sites += 1
            rep.fn(b["def"])
            key = F.strip(n["args"][0])
            lid = F.local_of(key)
            w = F.loc(n["span"])
            ok = lid in finds
            how = "find() result" if ok else ""
            if not ok and name == "sets":
                # keys come from representatives that are their own parent: require the filter k == v.index()
                filt = [c for c, _ in F.calls(root) if c.get("k") == "MethodCall" and c["method"] == "filter"]
                for c in filt:
                    for m, _ in F.walk(c):
                        if m.get("k") == "Binary" and m["op"] == "Eq":
                            ok = True
                            how = "self-representative filter"
            rep.oblige(
                ok,
                "R19.2",
                f"data-key:{name}:{n['method']}",
                w,
                f"`{name}` accesses the per-set data with a key that is not a find() result: data would live (or be looked up) at a non-root element",
                sample={"rule": "R19.2", "fn": name, "access": n["method"], "key": how, "at": w},
            )
    rep.floor("R19.2", n_sites, 7, "accesses to the forest's data map")

    # R19.3 ---------------------------------------------------------------------------------
    u = fns.get("union")
    if rep.anchor("R19.3", u is not None, "DisjointSet::union"):
        root = u["hir"]["value"]
        mutated = T.mutated_locals(root)
        finds = find_results(root, mutated)
        w = F.loc(u["span"])
        rep.oblige(len(finds) == 2, "R19.3", "union-finds", w, f"union must resolve both operands with find() (found {len(finds)})")
        calls = [(n, ps) for n, ps in F.calls(root) if n.get("k") == "MethodCall"]
        removed = [F.local_of(n["args"][0]) for n, ps in calls if n["method"] == "remove" and field_of_self(T.term(n["recv"], T.Env(), mutated), data)]
        inserted = [(F.local_of(n["args"][0]), n, ps) for n, ps in calls if n["method"] == "insert" and field_of_self(T.term(n["recv"], T.Env(), mutated), data)]
        reparent = [(F.local_of(n["args"][0]), F.local_of(n["args"][1]), n) for n, ps in calls if n["method"] == "insert" and field_of_self(T.term(n["recv"], T.Env(), mutated), reps)]
        ok = len(removed) >= 1 and len(inserted) == 1 and len(reparent) == 1
        if ok:
            absorbed = reparent[0][0]
            survivor = reparent[0][1]
            ok = (
                absorbed in finds
                and survivor in finds
                and absorbed != survivor
                and absorbed in removed
                and inserted[0][0] == survivor
            )
            # both data values reach combine
            ins_node, ins_ps = inserted[0][1], inserted[0][2]
            env = T.env_at(ins_ps, ins_node, mutated)
            val = T.term(ins_node["args"][1], env, mutated)
            comb = [t for t in T.subterms(val) if t[0] == "call" and str(t[1]).endswith("::combine")]
            both = False
            if comb:
                s = str(comb[0])
                both = "::remove" in s and ("::get" in s or s.count("::remove") >= 2)
            ok = ok and both
            # the hand-over happens on every path past the same-root return: an insertion that depends on the data (skipped when
            # both sets carry equal data) loses one contribution for every combine that is not idempotent
            conds = [1 for a, k_ in ins_ps if isinstance(a, dict) and a.get("k") in ("If", "Match") and not a.get("exp") and "Desugar" not in str(a.get("source", ""))]
            ok = ok and not conds
        rep.oblige(
            ok,
            "R19.3",
            "union-handover",
            w,
            "union must remove the absorbed root's data, combine it with the surviving root's data into the survivor's entry, and re-parent the absorbed root to the survivor (both roots from find)",
            sample={"rule": "R19.3", "removed": len(removed), "inserted": len(inserted), "reparent": len(reparent)},
        )
        # early return on equal roots, before any data access
        guard_ok = False
        for n, ps in F.walk(root):
            if n.get("k") == "If" and n["cond"].get("k") == "Binary" and n["cond"]["op"] == "Eq":
                l, r = F.local_of(n["cond"]["l"]), F.local_of(n["cond"]["r"])
                if l in finds and r in finds and l != r:
                    rets = [m for m, _ in F.walk(n["then"]) if m.get("k") == "Ret"]
                    if rets:
                        # it must precede the data accesses
                        gk = T._span_key(n["span"])
                        first_data = min((T._span_key(c["span"])[1] for c, _ in calls if field_of_self(T.term(c["recv"], T.Env(), mutated), data)), default=None)
                        if first_data is None or gk[2] <= first_data:
                            guard_ok = True
            if n.get("k") == "If" and n["cond"].get("k") == "Binary" and n["cond"]["op"] == "Ne":
                l, r = F.local_of(n["cond"]["l"]), F.local_of(n["cond"]["r"])
                if l in finds and r in finds and l != r:
                    inner = {id(m) for m, _ in F.walk(n["then"])}
                    if all(id(c) in inner for c, _ in calls if field_of_self(T.term(c["recv"], T.Env(), mutated), data)):
                        guard_ok = True
        rep.oblige(guard_ok, "R19.3", "union-same-root", w, "union of two elements of the same set is not a no-op: the set's data is combined with itself (duplicated unless the combine is idempotent)")

    # R19.4 ---------------------------------------------------------------------------------
    f = fns.get("find")
    if rep.anchor("R19.4", f is not None, "DisjointSet::find"):
        root = f["hir"]["value"]
        mutated = T.mutated_locals(root)
        finds = find_results(root, mutated)
        n_w = 0
        # the value find() answers with: a recursive result, or (iterative form) the local it returns at the end - the top of the walk
        ret_l = None
        tail = root
        while isinstance(tail, dict) and tail.get("k") in ("Block", "DropTemps", "Use"):
            tail = tail["block"].get("expr") if tail.get("k") == "Block" else tail.get("e")
        if isinstance(tail, dict):
            ret_l = F.local_of(F.strip(tail))
        # locals that walk the chain: initialised from the queried value (clone) and only ever re-assigned a stored parent
        param_l = next((p_["local"] for p_ in f["hir"]["params"] if p_.get("p") == "Bind" and p_.get("name") != "self"), None)
        walkers = {param_l}
        for m, _ in F.walk(root):
            if m.get("s") == "Let" and "init" in m and m["pat"].get("p") == "Bind":
                init = F.strip(m["init"])
                while init.get("k") == "MethodCall" and init["method"] in ("clone", "to_owned"):
                    init = F.strip(init["recv"])
                if F.local_of(init) == param_l:
                    walkers.add(m["pat"]["local"])

        def base_local(e):
            e = F.strip(e)
            while e.get("k") in ("MethodCall",) and e["method"] in ("clone", "to_owned"):
                e = F.strip(e["recv"])
            while e.get("k") in ("AddrOf", "Unary"):
                e = F.strip(e["e"])
            return F.local_of(e)

        for n, ps in F.calls(root):
            if n.get("k") == "MethodCall" and n["method"] == "insert" and field_of_self(T.term(n["recv"], T.Env(), mutated), reps):
                n_w += 1
                key = T.term(n["args"][0], T.Env(), mutated)
                val = T.term(n["args"][1], T.Env(), mutated)
                kl, vl = base_local(n["args"][0]), base_local(n["args"][1])
                # a self-link is the registration of an element that has no entry yet: it sits on the not-found side of the look-up
                # (a `None` arm, or the else of `if let Some(..) = reps.get(..)`)
                import json as _json

                not_found = False
                for anc, akey in ps:
                    if isinstance(anc, dict) and "pat" in anc and "body" in anc and isinstance(anc["pat"], dict):
                        pj = _json.dumps(anc["pat"])
                        if '"None"' in pj or "::None" in pj:
                            not_found = True
                    if isinstance(anc, dict) and anc.get("k") == "If" and akey == "else" and "Some" in _json.dumps(anc.get("cond", {}))[:2000]:
                        not_found = True
                    # `let Some(parent) = reps.get(..) else { <here> }`
                    if isinstance(anc, dict) and anc.get("s") == "Let" and akey == "els" and {v for _, v in (F.pat_variants(anc.get("pat") or {}) or set())} == {"Some"}:
                        not_found = True
                self_link = kl is not None and kl == vl and kl in walkers and not_found
                compress = kl in walkers and vl is not None and (vl in finds or (vl == ret_l and vl != kl))
                ok = self_link or compress
                rep.oblige(
                    ok,
                    "R19.4",
                    f"find-write#{n_w}",
                    F.loc(n["span"]),
                    f"find() rewrites the parent link of `{T.short(key)}` with `{T.short(val)}`: only the root it answers with (path compression of a node on the walked chain) or a self-link for a new element keeps the partition intact",
                    sample={"rule": "R19.4", "write": f"reps[{T.short(key)}] = {T.short(val)}", "kind": "self-link" if self_link else "compression", "at": F.loc(n["span"])},
                )
        rep.floor("R19.4", n_w, 1, "parent-link writes in find()")
        # an element that was never inserted is registered (as its own representative) the first time it is looked up:
        # otherwise it takes part in unions and carries data but is missing from values() / sets()
        self_links = [1 for n, ps in F.calls(root) if n.get("k") == "MethodCall" and n["method"] == "insert" and field_of_self(T.term(n["recv"], T.Env(), mutated), reps) and T.term(n["args"][0], T.Env(), mutated)[0] == "local" and T.term(n["args"][1], T.Env(), mutated)[0] == "local" and T.term(n["args"][0], T.Env(), mutated)[1] == T.term(n["args"][1], T.Env(), mutated)[1]]
        rep.oblige(bool(self_links), "R19.4", "find-registers-unknown", F.loc(f["span"]), "find() does not register an element it has never seen (no `reps.insert(value, value)` on the not-found path): such an element can be united and carry data yet never appears in values() or sets()")
        # the root test compares the stored parent with the queried value
        eqs = [n for n, _ in F.walk(root) if n.get("k") == "Binary" and n["op"] == "Eq"]
        rep.oblige(len(eqs) >= 1, "R19.4", "find-root-test", F.loc(f["span"]), "find() has no `parent == value` root test")
    # sets() hands out every set: its roots are enumerated from the representative map itself (every occupied slot), not from an
    # index range whose end is a *count* - keys need not be dense
    ss = fns.get("sets")
    if rep.anchor("R19.2", ss is not None, "DisjointSet::sets"):
        root = ss["hir"]["value"]
        from_map = False
        from_range = False
        for n, ps in F.calls(root):
            if n.get("k") == "MethodCall" and n["method"] in ("iter", "indices", "keys", "into_iter") and field_of_self(T.term(n["recv"], T.Env()), reps):
                from_map = True
        for n, ps in F.walk(root):
            if n.get("k") == "Struct" and "ops::Range" in str(n.get("adt")):
                from_range = True
        rep.oblige(from_map and not from_range, "R19.2", "sets-enumerates-all", F.loc(ss["span"]), "sets() does not enumerate the roots from the representative map itself (it walks an index range): a root whose key is not below the number of stored elements is skipped, so its set is never handed out" if not from_map or from_range else "", sample={"rule": "R19.2", "roots_from": "representative map" if from_map and not from_range else "index range"})
        # a root is an element that is its own parent: the enumeration keeps exactly the self-referential entries (a stored parent
        # is a root only while every path is fully compressed)
        self_test = any(n.get("k") == "Binary" and n["op"] == "Eq" for n, _ in F.walk(root))
        parents = any(n.get("k") == "MethodCall" and n["method"] in ("values", "into_values", "values_mut") and field_of_self(T.term(n["recv"], T.Env()), reps) for n, _ in F.calls(root))
        rep.oblige(self_test and not parents, "R19.2", "sets-roots-are-self-parents", F.loc(ss["span"]), "sets() does not select the roots as the entries that are their own parent (it takes stored parents as roots, or has no `key == parent` test): an inner node of an uncompressed chain is handed out as an extra set, or a member as a root", sample={"rule": "R19.2", "root_test": "key == parent"})
    # values() lists the members (the keys of the representative map), not the parents stored under them
    vs = fns.get("values")
    if rep.anchor("R19.2", vs is not None, "DisjointSet::values"):
        root = vs["hir"]["value"]
        keys = any(n.get("k") == "MethodCall" and n["method"] in ("indices", "keys", "iter", "into_iter") and field_of_self(T.term(n["recv"], T.Env()), reps) for n, _ in F.calls(root))
        parents = any(n.get("k") == "MethodCall" and n["method"] in ("values", "into_values", "values_mut") and field_of_self(T.term(n["recv"], T.Env()), reps) for n, _ in F.calls(root))
        rep.oblige(keys and not parents, "R19.2", "values-enumerates-members", F.loc(vs["span"]), "values() does not list the keys of the representative map (it lists the parents stored under them): after a union the absorbed elements are missing and roots are repeated", sample={"rule": "R19.2", "members_from": "keys of the representative map"})
    # insert makes a singleton: reps.insert(&value, value)
    i = fns.get("insert")
    if rep.anchor("R19.4", i is not None, "DisjointSet::insert"):
        root = i["hir"]["value"]
        ok = False
        for n, ps in F.calls(root):
            if n.get("k") == "MethodCall" and n["method"] == "insert" and field_of_self(T.term(n["recv"], T.Env()), reps):
                k = T.term(n["args"][0], T.Env())
                v = T.term(n["args"][1], T.Env())
                if k == v and k[0] == "local":
                    ok = True
        rep.oblige(ok, "R19.4", "insert-singleton", F.loc(i["span"]), "insert must make the new element its own representative")
        # ... and only a *new* element: re-pointing a known element at itself takes it (and what hangs below it) out of its set
        guarded = False
        for n, ps in F.calls(root):
            if n.get("k") == "MethodCall" and n["method"] == "insert" and field_of_self(T.term(n["recv"], T.Env()), reps):
                for anc, key in ps:
                    if anc.get("k") == "If" and key in ("then", "else"):
                        ct = T.term(anc["cond"], T.Env())
                        looks_up = any(st[0] == "call" and isinstance(st[1], str) and F.strip_generics(st[1]).split("::")[-1] in ("get", "contains_key", "contains") and st[2] and field_of_self(st[2][0], reps) for st in T.subterms(ct))
                        if looks_up:
                            guarded = True
                for cond, holds in T.path_conditions(ps, n):
                    ct = T.term(cond, T.Env())
                    if any(st[0] == "call" and isinstance(st[1], str) and F.strip_generics(st[1]).split("::")[-1] in ("get", "contains_key", "contains") and st[2] and field_of_self(st[2][0], reps) for st in T.subterms(ct)):
                        guarded = True
        rep.oblige(guarded, "R19.4", "insert-only-new", F.loc(i["span"]), "insert re-points an element that is already known at itself: an element that had been joined to another set is split off again (with everything whose parent link goes through it) and loses the set's data")


def check_combine(fx, rep):
    """R16.4/R19: Combine for HashSet is set union; for Option the inner combine with None as identity."""
    impls = fx.impls_of_trait("data::combine::Combine")
    n = 0
    for i in impls:
        st = i.get("self_ty", "")
        for it in i["items"]:
            b = fx.body(it["def"])
            if not b:
                continue
            if it["name"] == "combine" and st.startswith("std::collections::HashSet"):
                n += 1
                cs = [F.callee_def(c) or "" for c, _ in F.calls(b["hir"]["value"])]
                ok = any(c.endswith("::union") and "HashSet" in c for c in cs) and not any(c.split("::")[-1] in ("intersection", "difference", "symmetric_difference", "retain", "filter", "take", "skip") for c in cs)
                rep.oblige(ok, "R19.3", "combine-hashset", F.loc(b["span"]), "Combine for HashSet must be plain set union (no element may be lost or filtered)", sample={"rule": "R19.3", "combine": "HashSet union"})
            if it["name"] == "identity" and st.startswith("std::collections::HashSet"):
                n += 1
                cs = [F.callee_def(c) or "" for c, _ in F.calls(b["hir"]["value"])]
                ok = any("default" in c or c.endswith("::new") for c in cs)
                rep.oblige(ok, "R19.3", "identity-hashset", F.loc(b["span"]), "Combine::identity for HashSet must be the empty set")
    rep.floor("R19.3", n, 2, "Combine for HashSet (combine, identity)")
    # the other implementation a forest can be instantiated with (Option<A>): inner combine, None as the identity on BOTH sides
    from .. import core
    from .c16 import check_combine as c16_check_combine

    c16_check_combine(fx, core.Retag(rep, "R19.3"))


def check(fx, rep, tier):
    check_vector_map(fx, rep)
    check_disjoint_set(fx, rep)
    check_combine(fx, rep)
    return rep.finish(
        "Representation-invariant audit of the two containers: every write of the vector map's length counter is a unit step "
        "conditional on the occupancy of the very slot written/removed; every access to the forest's data map is keyed by a find() result; "
        "union removes+combines+re-parents with an early return for equal roots; find only writes compression/self links.",
        "instances = counter writes, counter readers, data-map accesses, union clauses, parent-link writes; enumerated from the two types' methods",
        ["conformance to the abstract models over all histories is NOT decided; these are necessary structural conditions"],
    )
