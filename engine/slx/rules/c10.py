"""C10 — disassembly is total, lossless and keeps byte offsets.

R10.1 table agreement : for every arm of the byte match, as_byte(opcode built in the arm) == byte for every
                        byte of the arm (evaluated over all 256 byte values); unassigned bytes (oracle) map to the
                        INVALID opcode type, which keeps the byte; state captured in the PUSH arm re-encodes to the byte.
R10.2 length agreement: `encode` is the one-byte trait default except for the push opcode (1 + n bytes, immediate
                        reversed exactly once each way) and the padding no-op (empty); exactly `n` no-ops follow a
                        complete push; while an immediate is pending nothing but push/no-op entries is produced;
                        a cut-off push yields one entry per consumed byte.
R10.3 error exits     : every Err exit of the disassembler is enumerated; allowed are empty input and offsets beyond
                        u32; each fallible constructor call is discharged by interval reasoning over the arm's bytes or,
                        for the push constructor's length equation, by the counter discipline sub-checks.
R10.5 stream integrity : the instruction stream is constructed from the disassembler's output as it stands; push immediates are
                        never jump destinations (C08 R08.1 / R08.4 re-evaluated).
R10.4 hard assertion  : the post-disassembly round-trip assertion is discharged by R10.1+R10.2 (shared with C01).
"""
from .. import facts as F
from .. import tables
from .. import terms as T
from ..disasm import DisasmModel, Lin, impl_method


def oracle_bytes():
    rows = tables.read("evm_opcodes.tsv")
    return {int(r[0], 16): r for r in rows}


def interval_of_guard(cond_term, param_local, fx):
    """Parse `lo (<|<=) n && n (<|<=) hi` style guards into (lo, hi, others)."""
    lo, hi, others = None, None, []

    def const(t):
        if t[0] == "lit":
            try:
                return int(t[1])
            except (TypeError, ValueError):
                return None
        if t[0] == "path":
            return fx.const_value(t[1])
        if t[0] == "cast":
            return const(t[1])
        return None

    def is_param(t):
        while t[0] == "cast":
            t = t[1]
        return t[0] == "local" and t[1] == param_local

    def rec(t, neg=False):
        nonlocal lo, hi
        if t[0] == "un" and t[1] == "Not":
            rec(t[2], not neg)
            return
        if t[0] == "bin" and ((t[1] == "And" and not neg) or (t[1] == "Or" and neg)):
            rec(t[2], neg)
            rec(t[3], neg)
            return
        if t[0] == "bin" and t[1] in ("Lt", "Le", "Gt", "Ge"):
            op, l, r = t[1], t[2], t[3]
            if neg:
                op = {"Lt": "Ge", "Le": "Gt", "Gt": "Le", "Ge": "Lt"}[op]
            if is_param(r) and const(l) is not None:
                # c op n  ==> n op' c
                op = {"Lt": "Gt", "Le": "Ge", "Gt": "Lt", "Ge": "Le"}[op]
                l, r = r, l
            if is_param(l) and const(r) is not None:
                c = const(r)
                if op == "Lt":
                    hi = c - 1 if hi is None else min(hi, c - 1)
                elif op == "Le":
                    hi = c if hi is None else min(hi, c)
                elif op == "Gt":
                    lo = c + 1 if lo is None else max(lo, c + 1)
                elif op == "Ge":
                    lo = c if lo is None else max(lo, c)
                return
        # `(a..=b).contains(&n)` / `(a..b).contains(&n)`
        if t[0] == "call" and isinstance(t[1], str) and t[1].split("<")[0].split("::")[-1] == "contains" or (t[0] == "call" and isinstance(t[1], str) and F.strip_generics(t[1]).endswith("::contains")):
            rng, arg = (t[2] + (None, None))[:2]
            a_ = arg
            while isinstance(a_, tuple) and a_[0] in ("ref", "deref") and len(a_) > 1:
                a_ = a_[1]
            bounds = None
            if isinstance(rng, tuple) and rng[0] == "call" and "RangeInclusive" in str(rng[1]) and len(rng[2]) == 2:
                bounds = (const(rng[2][0]), const(rng[2][1]))
            elif isinstance(rng, tuple) and rng[0] == "struct" and "Range" in str(rng[1]) + str(rng[2]):
                fl = dict(rng[3])
                if "start" in fl and "end" in fl:
                    e_ = const(fl["end"])
                    bounds = (const(fl["start"]), (e_ if "Inclusive" in str(rng[1]) + str(rng[2]) else (e_ - 1 if e_ is not None else None)))
            if bounds and None not in bounds and a_ is not None and is_param(a_) and not neg:
                lo = bounds[0] if lo is None else max(lo, bounds[0])
                hi = bounds[1] if hi is None else min(hi, bounds[1])
                return
        others.append(("un", "Not", t) if neg else t)

    rec(cond_term)
    return lo, hi, others


def ctor_guard(fx, body):
    """For `fn new(n, ..) -> Result<Self,_>`: the condition under which Ok is returned."""
    hir = body["hir"]
    params = hir["params"]
    if not params or params[0].get("p") != "Bind":
        return None
    n_local = params[0]["local"]
    v = hir["value"]
    mut = T.mutated_locals(v)
    # find an `if COND { Ok(..) } else { Err(..) }` as the tail
    for n, ps in F.walk(v):
        if n.get("k") == "If" and "else" in n:
            then_ok = any(c.get("k") == "Call" and (F.path_def(c["f"]) or "").endswith("Ok") for c, _ in F.walk(n["then"]))
            else_err = any(c.get("k") == "Call" and (F.path_def(c["f"]) or "").endswith("Err") for c, _ in F.walk(n["else"]))
            if then_ok and else_err:
                env = T.Env()
                # inline lets before the if
                blk = v.get("block") if v.get("k") == "Block" else None
                if blk:
                    for s in blk["stmts"]:
                        if s.get("s") == "Let" and "init" in s:
                            T.bind_pattern(s["pat"], T.term(s["init"], env, mut), env)
                return n_local, T.term(n["cond"], env, mut)
    # early-return form: `if REJECT { return Err(..) }` (one or more) followed by a final Ok(..): accepted = none of them holds
    blk = v.get("block") if v.get("k") == "Block" else None
    if blk and blk.get("expr") is not None:
        tail_ok = any(c.get("k") == "Call" and (F.path_def(c["f"]) or "").endswith("Ok") for c, _ in F.walk(blk["expr"]))
        env = T.Env()
        rejects = []
        for s_ in blk["stmts"]:
            if s_.get("s") == "Let" and "init" in s_:
                T.bind_pattern(s_["pat"], T.term(s_["init"], env, mut), env)
            e_ = s_.get("e") if s_.get("s") in ("Expr", "Semi") else None
            while isinstance(e_, dict) and e_.get("k") in ("DropTemps", "Use"):
                e_ = e_["e"]
            if isinstance(e_, dict) and e_.get("k") == "If" and "else" not in e_ and T.diverges(e_["then"]) and any(c.get("k") == "Call" and (F.path_def(c["f"]) or "").endswith("Err") for c, _ in F.walk(e_["then"])):
                rejects.append(T.term(e_["cond"], env, mut))
        if tail_ok and rejects:
            acc = None
            for r_ in rejects:
                nr = ("un", "Not", r_)
                acc = nr if acc is None else ("bin", "And", acc, nr)
            return n_local, acc
    # any other spelling (a validation helper, `.map(|n| Self { .. })`): run the constructor on every u8; an accepted interval is
    # handed on as the condition `lo <= n && n <= hi`
    from ..disasm import concrete_ctor_table

    tab = concrete_ctor_table(fx, body)
    if tab:
        ns = sorted(tab)
        if ns == list(range(ns[0], ns[-1] + 1)):
            nl = ("local", n_local, params[0].get("name"))
            return n_local, ("bin", "And", ("bin", "Ge", nl, ("lit", str(ns[0]))), ("bin", "Le", nl, ("lit", str(ns[-1]))))
    return None


def check(fx, rep, tier):
    dm = DisasmModel(fx)
    if not rep.anchor("R10.1", dm.ok, "the byte -> opcode match of the disassembler: " + "; ".join(dm.problems)):
        return rep.finish("anchor lost", "n/a")
    fn = dm.fn
    rep.fn(fn["def"])
    where_fn = F.loc(fn["span"])
    oracle = oracle_bytes()
    lin = Lin(fx, {dm.byte_local})
    env = T.Env()
    mutated = dm.mutated

    # ---------------------------------------------------------------- R10.1 ----------------
    byte_type = {}
    state_values = {}  # local -> (a,b, byteset) captured in an arm (push state)
    n_arm = 0
    invalid_type = None
    for a in dm.arms:
        arm = a["arm"]
        w = F.loc(arm["span"])
        bs = a["bytes"]
        if not bs:
            continue
        n_arm += 1
        ctors = a["ctors"]
        types = sorted({t for t, _ in ctors})
        if a["wild"]:
            if len(types) == 1:
                invalid_type = types[0]
        if not ctors:
            # state-capturing arm (PUSH): record assignments
            captured = False
            for n, ps in F.walk(arm["body"]):
                if n.get("k") == "Assign":
                    l = F.local_of(n["l"])
                    if l is not None:
                        v = lin.ev(T.term(n["r"], env, mutated), {k: (x[0], x[1]) for k, x in state_values.items()})
                        if v is not None:
                            state_values[l] = (v[0], v[1], bs)
                            captured = True
            rep.oblige(
                captured,
                "R10.1",
                f"arm:{min(bs):02x}-{max(bs):02x}",
                w,
                "arm of the byte table builds no opcode and captures no state (bytes are dropped)",
                sample={"rule": "R10.1", "bytes": f"{min(bs):02x}..{max(bs):02x}", "kind": "state-capturing arm", "at": w},
            )
            for x in bs:
                byte_type[x] = "<push-state>"
            continue
        if len(types) != 1:
            rep.oblige(False, "R10.1", f"arm:{min(bs):02x}-{max(bs):02x}", w, f"arm builds more than one opcode type: {types}")
            continue
        t = types[0]
        for x in bs:
            byte_type[x] = t
        e = ctors[0][1]
        fields = dm.ctor_fields(t, e, lin)
        ab = dm.as_byte_of(t, fields) if fields is not None else None
        if ab is None:
            rep.oblige(False, "R10.1", f"arm:{min(bs):02x}-{max(bs):02x}", w, f"cannot evaluate as_byte() of the `{t}` built in this arm (unrecognised constructor / as_byte idiom)")
            continue
        bad = [x for x in sorted(bs) if ab[0] * x + ab[1] != x]
        rep.oblige(
            not bad,
            "R10.1",
            f"arm:{min(bs):02x}-{max(bs):02x}",
            w,
            f"byte 0x{bad[0]:02x} is disassembled to `{t}` whose as_byte() is 0x{(ab[0]*bad[0]+ab[1]) & 0xff:02x}: re-encoding does not reproduce the input" if bad else "",
            sample={"rule": "R10.1", "bytes": f"{min(bs):02x}..{max(bs):02x}", "type": t, "as_byte": f"{ab[0]}*byte+{ab[1]}", "at": w},
        )
    rep.floor("R10.1", n_arm, 80, "arms of the byte table")
    rep.oblige(not dm.uncovered, "R10.1", "coverage", where_fn, f"bytes without an arm: {sorted(dm.uncovered)[:5]}")
    rep.extra["bytes_evaluated"] = 256

    # oracle: unassigned bytes are INVALID, assigned bytes are not
    if rep.anchor("R10.1", invalid_type is not None, "the catch-all arm building the INVALID opcode type"):
        wrong_unassigned = [x for x in range(256) if x not in oracle and byte_type.get(x) != invalid_type]
        rep.oblige(
            not wrong_unassigned,
            "R10.1",
            "unassigned->INVALID",
            where_fn,
            f"unassigned byte 0x{wrong_unassigned[0]:02x} is disassembled to `{byte_type.get(wrong_unassigned[0])}` instead of the INVALID opcode" if wrong_unassigned else "",
        )
        wrong_assigned = [x for x in oracle if oracle[x][1] != "INVALID" and byte_type.get(x) == invalid_type]
        rep.oblige(
            not wrong_assigned,
            "R10.1",
            "assigned-not-INVALID",
            where_fn,
            f"assigned opcode byte 0x{wrong_assigned[0]:02x} ({oracle[wrong_assigned[0]][1]}) is disassembled as INVALID" if wrong_assigned else "",
        )
        # distinct assigned bytes must map to an opcode value that re-encodes distinctly (done above) and
        # each oracle mnemonic family must map to one type
        fam = {}
        for x, r in oracle.items():
            name = r[1].rstrip("0123456789") if r[1][:4] in ("PUSH", "SWAP") or r[1][:3] in ("DUP", "LOG") else r[1]
            if r[1] == "PUSH0":
                name = "PUSH0"
            fam.setdefault(name, set()).add(byte_type.get(x))
        for name, ts in sorted(fam.items()):
            rep.oblige(len(ts) == 1, "R10.1", f"family:{name}", where_fn, f"bytes of {name} map to several opcode types {sorted(map(str, ts))}")
        # and different families to different types
        seen = {}
        for name, ts in sorted(fam.items()):
            for t in ts:
                if t in seen and t not in ("<push-state>",) and seen[t] != name:
                    rep.oblige(False, "R10.1", f"shared-type:{name}", where_fn, f"{name} and {seen[t]} are both disassembled to `{t}`")
                seen[t] = name

    # constructors outside the table (completion of a push, trailing handling) ------------------------
    outside = []
    for n, ps in F.walk(fn["hir"]["value"]):
        if n is dm.match:
            continue
    match_ids = {id(x) for x, _ in F.walk(dm.match)}
    for t, e in dm.ctors_in(fn["hir"]["value"]):
        if id(e) in match_ids:
            continue
        outside.append((t, e))
    push_type = None
    nop_type = None
    for t, e in outside:
        w = F.loc(e["span"])
        extra = {l: (v[0], v[1]) for l, v in state_values.items()}
        lin2 = Lin(fx, {dm.byte_local}, extra)
        fields = dm.ctor_fields(t, e, lin2)
        ab = dm.as_byte_of(t, fields) if fields is not None else None
        # which state locals does it use?
        used = [l for l in state_values if any(m.get("k") == "Path" and m.get("res") == "local" and m.get("local") == l for m, _ in F.walk(e))]
        if used:
            bs = state_values[used[0]][2]
            if ab is None:
                rep.oblige(False, "R10.1", f"state-ctor:{t}", w, f"cannot evaluate as_byte() of the `{t}` built from captured push state")
            else:
                bad = [x for x in sorted(bs) if ab[0] * x + ab[1] != x]
                rep.oblige(
                    not bad,
                    "R10.1",
                    f"state-ctor:{t}",
                    w,
                    f"`{t}` built from the state captured at byte 0x{bad[0]:02x} re-encodes to 0x{(ab[0]*bad[0]+ab[1]) & 0xff:02x}" if bad else "",
                    sample={"rule": "R10.1", "type": t, "from_state": True, "as_byte": f"{ab[0]}*byte+{ab[1]}", "at": w},
                )
            if t != invalid_type and push_type is None:
                push_type = t
        else:
            # a constructor fed from data bytes (Invalid::new(*b)) or a constant (Nop)
            if t != invalid_type and not dm.optypes[t]["items"] == []:
                enc = impl_method(fx, dm.optypes[t], "encode")
                if enc is not None:
                    nop_type = t if nop_type is None else nop_type
    # ---------------------------------------------------------------- R10.2 ----------------
    overriders = {}
    for t, impl in dm.optypes.items():
        enc = impl_method(fx, impl, "encode")
        if enc is not None:
            overriders[t] = enc
    # trait default must be one byte: vec![self.as_byte()]
    default = None
    for b in fx.bodies.values():
        if b.get("trait_default") == "opcode::Opcode" and b.get("name") == "encode":
            default = b
    if rep.anchor("R10.2", default is not None, "the default `encode` of the opcode trait"):
        calls = [F.callee_def(c) for c, _ in F.calls(default["hir"]["value"])]
        n_as_byte = sum(1 for c in calls if c and c.endswith("Opcode::as_byte"))
        elems = [n for n, _ in F.walk(default["hir"]["value"]) if n.get("k") == "Array"]
        one = n_as_byte == 1 and len(elems) == 1 and len(elems[0]["elems"]) == 1
        rep.oblige(one, "R10.2", "default-encode", F.loc(default["span"]), "the default encoding is not exactly the one byte returned by as_byte()")
    expected_over = {t for t in (push_type, nop_type) if t}
    rep.oblige(
        set(overriders) == expected_over and len(expected_over) == 2,
        "R10.2",
        "encode-overriders",
        where_fn,
        f"opcode types overriding `encode`: {sorted(overriders)}; expected exactly the push opcode and the padding no-op {sorted(expected_over)}",
        sample={"rule": "R10.2", "overriders": sorted(overriders)},
    )
    if nop_type in overriders:
        b = overriders[nop_type]
        tm = T.block_term({"stmts": [], "expr": b["hir"]["value"]}, T.Env())
        empty = any(n.get("k") == "Array" and not n["elems"] for n, _ in F.walk(b["hir"]["value"])) or "Vec" in str(tm) and "new" in str(tm)
        has_call_as_byte = any((F.callee_def(c) or "").endswith("as_byte") for c, _ in F.calls(b["hir"]["value"]))
        rep.oblige(empty and not has_call_as_byte, "R10.2", "nop-encode-empty", F.loc(b["span"]), "the padding no-op must encode to nothing")
    if push_type in overriders:
        b = overriders[push_type]
        revs = sum(1 for c, _ in F.calls(b["hir"]["value"]) if (F.callee_def(c) or "").split("::")[-1] in ("rev", "reverse"))
        asb = sum(1 for c, _ in F.calls(b["hir"]["value"]) if (F.callee_def(c) or "").endswith("as_byte"))
        newb = fx.body(push_type + "::new")
        revs_new = sum(1 for c, _ in F.calls(newb["hir"]["value"]) if (F.callee_def(c) or "").split("::")[-1] in ("rev", "reverse")) if newb else -1
        rep.oblige(
            revs == 1 and revs_new == 1 and asb == 1,
            "R10.2",
            "push-encode",
            F.loc(b["span"]),
            f"push re-encoding must be as_byte() followed by the immediate reversed exactly once in the constructor and once in encode (found {revs_new} and {revs} reversals, {asb} as_byte)",
            sample={"rule": "R10.2", "push_type": push_type, "reversals": [revs_new, revs]},
        )
        # no take/skip/truncate on the data in encode
        lossy = [c for c, _ in F.calls(b["hir"]["value"]) if (F.callee_def(c) or "").split("::")[-1] in ("take", "skip", "truncate", "step_by", "filter", "skip_while", "take_while")]
        rep.oblige(not lossy, "R10.2", "push-encode-lossless", F.loc(b["span"]), "push re-encoding drops part of the immediate")

    # no-op padding loop: for _ in 0..S where S is the size handed to the push constructor ----------
    v = fn["hir"]["value"]
    push_calls = [(t, e) for t, e in outside if t == push_type]
    nop_ctor_nodes = [(e, ps) for e, ps in F.walk(v) if e.get("k") in ("Path", "Struct", "Call") and nop_type and (e.get("ty") == nop_type) and not (e.get("k") == "Path" and e.get("res") == "local")]
    rep.oblige(len(nop_ctor_nodes) >= 1, "R10.2", "nop-padding", where_fn, "no padding no-op is emitted after a push: instruction index would no longer equal byte offset")
    for t, e in push_calls:
        args = F.call_args(e)
        size_local = F.local_of(args[0]) if args else None
        # the enclosing block of the push ctor must contain a for-loop over 0..size_local that builds the no-op
        ok = False
        for loop, lps in F.exprs(v, "Loop"):
            if "ForLoop" not in loop.get("source", ""):
                continue
            has_nop = any(id(n) == id(x) for n, _ in F.walk(loop) for x, _ in nop_ctor_nodes)
            if not has_nop:
                continue
            # range bound: find the `0..X` struct in the iterator expression (the match scrutinee just above)
            parent = lps[-1][0] if lps else None
            bound_ok = False
            search_root = None
            for anc, key in reversed(lps):
                if anc.get("k") == "Match" and "ForLoop" in anc.get("source", ""):
                    search_root = anc["scrut"]
                    break
            if search_root is not None:
                for n, _ in F.walk(search_root):
                    if n.get("k") == "Struct" and (n.get("adt") or "").endswith("ops::Range"):
                        fl = {f["field"]: f["e"] for f in n["fields"]}
                        st = T.term(fl["start"], T.Env())
                        if st == ("lit", "0") and F.local_of(fl["end"]) == size_local and size_local is not None:
                            bound_ok = True
            # no break/continue/return inside the loop other than the desugared one
            early = [n for n, pp in F.walk(loop["body"]) if n.get("k") in ("Continue", "Ret") or (n.get("k") == "Break" and not n.get("exp"))]
            if bound_ok and not early:
                ok = True
        rep.oblige(ok, "R10.2", "nop-count", F.loc(e["span"]), "the number of padding no-ops after a push is not the very size handed to the push constructor (loop `0..size` not found)", sample={"rule": "R10.2", "push_ctor_at": F.loc(e["span"])})

    # pending-immediate branch: only push / no-op entries, and the byte table only in the other branch
    pend_ok = False
    for anc, key in dm.match_parents:
        if anc.get("k") == "If" and key == "else":
            then_types = {t for t, _ in dm.ctors_in(anc["then"])}
            cond_locals = {m.get("name") for m, _ in F.walk(anc["cond"]) if m.get("k") == "Path" and m.get("res") == "local"}
            if then_types <= {push_type, nop_type} and cond_locals:
                pend_ok = True
            else:
                rep.oblige(False, "R10.2", "pending-branch", F.loc(anc["span"]), f"while a push immediate is pending, entries of type {sorted(then_types - {push_type, nop_type})} are produced: data bytes become instructions")
    rep.oblige(pend_ok, "R10.2", "pending-branch", where_fn, "the byte table is not guarded by the 'no immediate pending' branch: push data could be decoded as instructions")

    # trailing cut-off push: Invalid(last push byte) + one Invalid per consumed data byte
    trailing = [(t, e) for t, e in outside if t == invalid_type]
    n_state = 0
    n_data = 0
    def _let_init(lid):
        for m_, _ in F.walk(v):
            if m_.get("s") == "Let" and "init" in m_ and m_["pat"].get("p") == "Bind" and m_["pat"].get("local") == lid:
                return m_["init"]
        return None

    def _locals_through_lets(e_, depth=0):
        out = set()
        for m_, _ in F.walk(e_):
            if m_.get("k") == "Path" and m_.get("res") == "local":
                out.add(m_.get("local"))
                if depth < 2 and m_.get("local") not in state_values:
                    i_ = _let_init(m_.get("local"))
                    if i_ is not None:
                        out |= _locals_through_lets(i_, depth + 1)
        return out

    for t, e in trailing:
        # the push byte may be rebuilt from the captured state through a let (`let b = BASE + push_size; Invalid::new(b)`)
        used_state = bool(_locals_through_lets(e) & set(state_values))
        if used_state:
            n_state += 1
        else:
            n_data += 1
    # the trailing branch must be taken exactly when a push is still pending: its condition tests the captured
    # push state (size / counter) against zero, not the (possibly empty) data buffer
    state_like = set(state_values)
    for m, pp in F.walk(v):
        if m.get("k") == "Assign" and F.local_of(m["r"]) in state_values and F.local_of(m["l"]) is not None:
            state_like.add(F.local_of(m["l"]))
    for t, e in trailing:
        cond_ok = False
        conds = []
        for anc, key in dm.parents_of.get(id(e), ()):
            if anc.get("k") == "If" and key == "then":
                conds.append(anc["cond"])
        for c in conds:
            tc = T.term(c, T.Env(), mutated)
            if tc[0] == "bin" and tc[1] in ("Ne", "Gt"):
                l, r = tc[2], tc[3]
                if l[0] == "local" and l[1] in state_like and r == ("lit", "0") and len(conds) == 1:
                    cond_ok = True
        in_loop = any(anc.get("k") == "Loop" and "ForLoop" in anc.get("source", "") and id(anc) != id(None) for anc, key in dm.parents_of.get(id(e), ()) if any(id(x) == id(dm.match) for x, _ in F.walk(anc)))
        if not in_loop:
            rep.oblige(cond_ok, "R10.2", "trailing-push-condition", F.loc(e["span"]), "the handling of a cut-off trailing push is not conditional on exactly 'a push is still pending' (captured push size/counter != 0): a push cut off by all of its bytes, or some other state, is mishandled")
    rep.oblige(n_state == 1 and n_data == 1, "R10.2", "trailing-push", where_fn, f"a cut-off trailing push must yield one INVALID entry for the push byte and one per consumed data byte (found {n_state} and {n_data} constructor sites)")

    # ---------------------------------------------------------------- R10.3 ----------------
    err_sites = []
    for n, ps in F.walk(v):
        if n.get("k") == "Match" and "TryDesugar" in n.get("source", ""):
            err_sites.append(("?", n, ps))
        elif n.get("k") == "Ret" and "e" in n and "Err" in str(T.term(n["e"], T.Env()))[:60] and not n.get("exp"):
            err_sites.append(("return", n, ps))
    dis_err = "error::disassembly::Error"
    allowed_kinds = {"EmptyBytecode", "BytecodeTooLarge"}
    n_fallible = 0
    for kind, n, ps in err_sites:
        w = F.loc(n["span"])
        node = n["scrut"] if kind == "?" else n["e"]
        variants = {m.get("variant") for m, _ in F.walk(node) if m.get("adt") == dis_err and m.get("variant")}
        variants |= {(m.get("def") or "").split("::")[-1] for m, _ in F.walk(node) if m.get("k") == "Path" and (m.get("def") or "").startswith(dis_err + "::")}
        ctors = dm.ctors_in(node)
        if ctors:
            n_fallible += 1
            t, e = ctors[0]
            newb = fx.body(F.callee_def(e) or "")
            g = ctor_guard(fx, newb) if newb else None
            arm_bytes = None
            for a in dm.arms:
                if any(id(m) == id(e) for m, _ in F.walk(a["arm"]["body"])):
                    arm_bytes = a["bytes"]
            if g is None:
                rep.oblige(False, "R10.3", f"fallible:{t}", w, f"cannot read the accepting condition of `{t}`'s constructor")
                continue
            n_local, cond = g
            lo, hi, others = interval_of_guard(cond, n_local, fx)
            args = F.call_args(e)
            extra = {l: (x[0], x[1]) for l, x in state_values.items()}
            av = Lin(fx, {dm.byte_local}, extra).ev(T.term(args[0], dm.env_of(e), mutated)) if args else None
            if arm_bytes is None:
                used = [l for l in state_values if any(m.get("k") == "Path" and m.get("res") == "local" and m.get("local") == l for m, _ in F.walk(e))]
                arm_bytes = state_values[used[0]][2] if used else None
            in_range = (
                av is not None
                and arm_bytes is not None
                and all((lo is None or av[0] * x + av[1] >= lo) and (hi is None or av[0] * x + av[1] <= hi) for x in arm_bytes)
            )
            if not others:
                rep.oblige(
                    in_range,
                    "R10.3",
                    f"fallible:{t}",
                    w,
                    f"`{t}` constructor can reject a byte of its arm: accepted range [{lo},{hi}], argument {av} over bytes {sorted(arm_bytes)[:1] if arm_bytes else '?'}..: some byte string fails to disassemble",
                    sample={"rule": "R10.3", "ctor": t, "accepts": [lo, hi], "arg": f"{av[0]}*byte+{av[1]}" if av else None, "at": w},
                )
            else:
                # push constructor: interval part + counter discipline for the length equation
                ok_interval = in_range
                size_local = F.local_of(args[0]) if args else None
                buf_local = None
                if len(args) > 1:
                    for m, _ in F.walk(args[1]):
                        if m.get("k") == "Path" and m.get("res") == "local":
                            buf_local = m["local"]
                # counter: local assigned from size_local
                counter = None
                for m, pp in F.walk(v):
                    if m.get("k") == "Assign" and F.local_of(m["r"]) == size_local and size_local is not None:
                        counter = F.local_of(m["l"])
                s1 = counter is not None
                # every push onto the buffer sits in a block that also decrements the counter by one
                s2 = True
                n_push = 0
                for m, pp in F.calls(v):
                    if m.get("k") == "MethodCall" and m["method"] == "push" and F.local_of(m["recv"]) == buf_local and buf_local is not None:
                        n_push += 1
                        blk = None
                        for anc, key in reversed(pp):
                            if "stmts" in anc:
                                blk = anc
                                break
                        dec = False
                        if blk:
                            for s in blk["stmts"]:
                                ee = s.get("e") if s.get("s") == "Expr" else None
                                if ee and ee.get("k") == "AssignOp" and ee["op"] in ("SubAssign", "Sub") and F.local_of(ee["l"]) == counter and T.term(ee["r"], T.Env()) == ("lit", "1"):
                                    dec = True
                        s2 = s2 and dec
                s2 = s2 and n_push >= 1
                # the constructor call is under `counter == 0`
                s3 = False
                for anc, key in ps:
                    if anc.get("k") == "If" and key == "then":
                        for m, _ in F.walk(anc["cond"]):
                            if m.get("k") == "Binary" and m["op"] == "Eq" and F.local_of(m["l"]) == counter and T.term(m["r"], T.Env()) == ("lit", "0"):
                                s3 = True
                # afterwards the buffer is cleared and the size reset in the same block
                s4 = False
                for anc, key in reversed(ps):
                    if "stmts" in anc:
                        cleared = any(s.get("s") == "Expr" and s["e"].get("k") == "MethodCall" and s["e"]["method"] == "clear" and F.local_of(s["e"]["recv"]) == buf_local for s in anc["stmts"])
                        reset = any(s.get("s") == "Expr" and s["e"].get("k") == "Assign" and F.local_of(s["e"]["l"]) == size_local and T.term(s["e"]["r"], T.Env()) == ("lit", "0") for s in anc["stmts"])
                        if cleared and reset:
                            s4 = True
                            break
                        if anc.get("k") is None and any(isinstance(x, dict) and x.get("k") == "Loop" for x, _ in [(a_, k_) for a_, k_ in ps if a_ is anc]):
                            break
                ok = ok_interval and s1 and s2 and s3 and s4
                rep.oblige(
                    ok,
                    "R10.3",
                    f"fallible:{t}",
                    w,
                    f"`{t}` constructor's acceptance (size in [{lo},{hi}] and immediate length == size) is not guaranteed: interval={ok_interval}, counter initialised from size={s1}, one decrement per collected byte={s2}, built only when counter==0={s3}, buffer cleared and size reset afterwards={s4}",
                    sample={"rule": "R10.3", "ctor": t, "discipline": [ok_interval, s1, s2, s3, s4], "at": w},
                )
        else:
            ok = bool(variants) and variants <= allowed_kinds
            # the *condition* of the exit: empty input / an offset that does not fit in u32, nothing tighter
            why = ""
            if ok and kind == "return":
                conds = [anc["cond"] for anc, key in ps if anc.get("k") == "If" and key == "then"]
                cts = [T.term(c, T.Env()) for c in conds]
                if variants == {"EmptyBytecode"}:
                    ok = any(st[0] == "call" and isinstance(st[1], str) and F.strip_generics(st[1]).split("::")[-1] == "is_empty" for ct in cts for st in T.subterms(ct)) or any(
                        ct[0] == "bin" and ct[1] == "Eq" and ("lit", "0") in (ct[2], ct[3]) for ct in cts
                    )
                    why = "the empty-input exit is not conditional on the input being empty"
                elif "BytecodeTooLarge" in variants:
                    big = False
                    for ct in cts:
                        for st in T.subterms(ct):
                            if st[0] == "bin" and st[1] in ("Lt", "Le", "Gt", "Ge"):
                                for side in (st[2], st[3]):
                                    val = None
                                    for q in T.subterms(side):
                                        if q[0] == "path":
                                            cv = fx.const_value(q[1])
                                            if cv is not None:
                                                val = cv
                                        if q[0] == "lit":
                                            try:
                                                val = int(q[1])
                                            except (TypeError, ValueError):
                                                pass
                                    if val is not None and val >= 4294967295:
                                        big = True
                    ok = big
                    why = "the too-large exit compares the input length with a bound below u32::MAX: deployable-size (or larger) code is rejected instead of disassembled"
            elif ok and kind == "?" and "BytecodeTooLarge" in variants:
                names = [F.strip_generics(st[1]) for st in T.subterms(T.term(node, T.Env())) if st[0] == "call" and isinstance(st[1], str)]
                ok = any("try_from" in nm or "try_into" in nm for nm in names)
                why = "the too-large exit is not the failure of a checked conversion of an offset to u32"
            if not ok and why:
                rep.oblige(False, "R10.3", f"err-exit-condition:{'/'.join(sorted(variants))}", w, why)
                continue
            rep.oblige(
                ok,
                "R10.3",
                f"err-exit:{'/'.join(sorted(variants)) or 'unknown'}",
                w,
                f"the disassembler can fail with {sorted(variants) or 'an unrecognised error'}; only empty input and offsets beyond u32 may be rejected",
                sample={"rule": "R10.3", "exit": kind, "kinds": sorted(variants), "at": w},
            )
    rep.floor("R10.3", len(err_sites), 5, "error exits of the disassembler")
    rep.extra["fallible_constructor_calls"] = n_fallible

    # ---------------------------------------------------------------- R10.4 ----------------
    asserts = []
    for b in fx.fn_bodies():
        if b.get("impl_trait") == "std::convert::TryFrom" and "InstructionStream" in (b.get("impl_self") or ""):
            for n, ps in F.walk(b["hir"]["value"]):
                if n.get("k") == "Call" and "assert_failed" in (F.callee_def(n) or ""):
                    asserts.append((b, n))
    rep.extra["hard_round_trip_assertions"] = len(asserts)
    for b, n in asserts:
        rep.inst("R10.4", f"assert_eq in {b['def']}", sample={"rule": "R10.4", "at": F.loc(n["span"]), "discharged_by": "R10.1+R10.2+R10.3 all holding"})

    # ---------------------------------------------------------------- R10.5 ----------------
    # the stream *is* the disassembler's output: every construction of the instruction stream takes the vector the byte
    # table produced as it stands (no re-mapping / interning / filtering of entries: two entries with equal encodings need not
    # be the same instruction - the INVALID that stands for a byte of a cut-off immediate encodes like the opcode of that byte)
    STREAM = "disassembly::InstructionStream"
    n_ctor = 0
    dis_fn = F.strip_generics(dm.fn["def"]) if dm.fn else None
    for b in fx.fn_bodies():
        if not b.get("hir"):
            continue
        for n, ps in F.walk(b["hir"]["value"]):
            if n.get("k") != "Struct" or n.get("adt") != STREAM:
                continue
            n_ctor += 1
            mutated = T.mutated_locals(b["hir"]["value"])
            fe = next((f["e"] for f in n["fields"] if f["field"] == "instructions"), None)
            t = T.term(fe, T.env_at(ps, n, mutated), mutated) if fe is not None else ("opaque",)
            # peel Rc::new / Arc::new / into
            while t[0] == "call" and isinstance(t[1], str) and F.strip_generics(t[1]).split("::")[-1] in ("new", "into", "from") and len(t[2]) == 1 and ("Rc" in t[1] or "Arc" in t[1] or "into" in t[1] or "From" in t[1]):
                t = t[2][0]
            direct = t[0] == "call" and isinstance(t[1], str) and F.strip_generics(t[1]) == dis_fn
            copies = t[0] in ("field", "local")  # clone of an existing stream's vector
            rep.oblige(
                direct or copies,
                "R10.5",
                f"stream-is-disassembly:{F.strip_generics(b['def'])}",
                F.loc(n["span"]),
                f"`{b['def']}` builds the instruction stream from `{T.short(t)[:70]}` rather than from the disassembler's output as it stands: entries are re-mapped after disassembly, so the entry at an offset need not be the instruction the byte table produced for it",
                sample={"rule": "R10.5", "fn": b["def"], "instructions": T.short(t)[:60]},
            )
    rep.floor("R10.5", n_ctor, 1, "constructions of the instruction stream")
    # ... from the *input* as it stands: the byte-slice conversion hands its parameter to the disassembler and has no other way
    # of producing a stream (no decoding / trimming / recursion on derived bytes first)
    for b in fx.fn_bodies():
        if not (b.get("impl_trait") == "std::convert::TryFrom" and "InstructionStream" in (b.get("impl_self") or "") and b.get("hir")):
            continue
        fn = fx.fns.get(b["def"], {})
        if "[u8]" not in " ".join(fn.get("inputs") or []):
            continue
        params = [p0.get("local") for p0 in b["hir"]["params"]]
        dcalls = [c for c, _ in F.calls(b["hir"]["value"]) if F.strip_generics(F.callee_def(c) or "") == dis_fn]
        arg_is_param = bool(dcalls) and all(F.local_of(F.strip(c["args"][0])) in params for c in dcalls if c["args"])
        others = [c for c, _ in F.calls(b["hir"]["value"]) if "InstructionStream" in (c.get("ty") or "") and (F.callee_def(c) or "").split("::")[-1] in ("try_from", "from", "try_into", "into", "new") and not c.get("exp")]
        rep.oblige(
            arg_is_param and not others,
            "R10.5",
            f"input-as-it-stands:{F.strip_generics(b['def'])}",
            F.loc(b["span"]),
            f"`{b['def']}` does not hand its input to the disassembler as it stands (" + ("the disassembler is called on derived bytes" if not arg_is_param else f"it also produces a stream through {[ (F.callee_def(c) or '').split('::')[-1] for c in others]}") + "): some inputs are re-interpreted before disassembly, so the stream has not one entry per input byte",
            sample={"rule": "R10.5", "fn": b["def"], "disassembles_parameter": arg_is_param, "other_stream_sources": len(others)},
        )
    # push immediates are never jump destinations: the validator tests the *type* of the entry and JUMPDEST entries come only
    # from byte 0x5b of the table (C08 R08.1 / R08.4, re-evaluated)
    from .. import core

    core.import_rules(rep, fx, "C08", "R10.5", only_rules=("R08.1", "R08.2", "R08.4"), floor=8, what="jump-destination obligations (C08 R08.1 / R08.2 / R08.4) behind 'push immediates are never jump destinations'")
    # bytes with no assigned opcode behave as INVALID: the type they all disassemble to does the same thing whatever byte it
    # carries (its execute does not look at the byte) and ends the path without failing the analysis
    from .. import tables as _tables

    assigned = {int(r[0], 16) for r in _tables.read("evm_opcodes.tsv")}
    byte_type = {}
    for a in dm.arms:
        ts = sorted({t for t, _ in a["ctors"]})
        for x in a["bytes"]:
            byte_type[x] = ts[0] if len(ts) == 1 else None
    inv_t = byte_type.get(0xFE)
    un_types = sorted({str(byte_type.get(x)) for x in range(256) if x not in assigned})
    if rep.anchor("R10.5", inv_t is not None and un_types == [inv_t], f"one opcode type for INVALID and every unassigned byte (found {un_types})"):
        eb = next((b for i, b in fx.trait_method_bodies("opcode::Opcode", "execute") if i.get("self_adt") == inv_t), None)
        if rep.anchor("R10.5", eb is not None, "execute of the INVALID opcode type"):
            root = eb["hir"]["value"]
            self_l = eb["hir"]["params"][0].get("local") if eb["hir"]["params"] else None
            reads_byte = any(x.get("k") == "Field" and F.local_of(F.strip(x["e"])) == self_l for x, _ in F.walk(root)) or any(x.get("k") == "MethodCall" and F.local_of(F.strip(x["recv"])) == self_l for x, _ in F.walk(root))
            from .. import terms as _T

            leaves = [F.strip(x) for x in _T.result_leaves(root)]
            all_ok = bool(leaves) and all(x.get("k") == "Call" and (F.path_def(x["f"]) or "").endswith("::Ok") for x in leaves)
            rep.oblige(not reads_byte and all_ok, "R10.5", "unassigned-behaves-as-invalid", F.loc(eb["span"]), f"`{eb['def']}` " + ("looks at the byte it carries" if reads_byte else "can answer with an error") + ": bytes with no assigned opcode no longer all behave as INVALID (end the path, nothing else)", sample={"rule": "R10.5", "type": inv_t, "reads_self": reads_byte, "always_ok": all_ok})

    rep.exhaustive = True
    return rep.finish(
        "Case analysis of the disassembler as a byte transducer: the byte match is evaluated for all 256 byte values "
        "(as_byte of the opcode built in each arm equals the byte, including constructors fed from captured push state), "
        "encodings are one byte except push (1+n) and the padding no-op (0), n no-ops follow a push, every Err exit is "
        "enumerated and every fallible constructor call discharged by interval reasoning / counter discipline.",
        "instances = arms x bytes of the table, constructor sites outside the table, encode overriders, Err exits; all enumerated",
        ["the push-state variables are reasoned about only through the named structural sub-checks (counter initialised from the size, one decrement per collected byte, construction under counter==0, reset afterwards)"],
    )
