"""C02 — determinism across hash iteration orders (every order source is insensitive or backed by a checked law).

R02.1 order-source audit : every start of an iteration over a HashMap / HashSet on the analyze() call graph is enumerated, its
      consumer classified (collected into a set / a sequence, reduced, for_each-extend, plain loop) and compared with the reviewed
      table; a new source, or one whose class changed, needs review.
R02.2 backing laws       : the one order-sensitive consumer — the left-to-right fold of a class's judgements with merge — is
      order-independent only if merge is commutative and associative: the C16 rules are re-evaluated here (their findings are this
      property's findings); layout rows are sorted on insertion (R12.1); a class is a singleton when it is picked from (R14.1);
      conflict payloads are ignored by equality.
R02.3 rule isolation     : inference rules only add judgements derived from their own value and read no other evidence; lifting
      passes do not read the state (= R11.2).
R02.4 nothing outlives a run : TypeChecker::run replaces its per-run state as a whole; a write (MIR assignment to / mutable borrow of
      a place under `*self`, or an interior-mutability writer) to any other engine-owned type - configuration, passes, rules and
      what they own - in a function on the call graph of run needs a reviewed row in tables/persistent_state.tsv.
"""
from .. import facts as F
from .. import tables
from .. import terms as T

ITER = {"iter", "into_iter", "keys", "values", "into_values", "into_keys", "drain", "values_mut", "iter_mut", "union", "intersection", "difference", "symmetric_difference"}
REDUCERS = {"any", "all", "count", "sum", "len", "max", "min", "contains", "is_empty", "product", "fold_commutative"}
PICKERS = {"next", "find", "first", "last", "nth", "position", "find_map", "min_by_key", "max_by_key", "min_by", "max_by", "reduce", "fold", "take", "skip", "peek"}


def is_hash_ty(t):
    t = (t or "").lstrip("&").replace("mut ", "").strip()
    return t.startswith("std::collections::HashMap<") or t.startswith("std::collections::HashSet<")


LOOP_ADAPTORS = {"iter", "into_iter", "iter_mut", "chain", "cloned", "copied", "enumerate", "rev", "by_ref", "keys", "values", "into_keys", "into_values", "drain"}


def reviewed_sensitivity(cls):
    """What a REVIEWED consumer class covers: an argument made for a materialised sequence (collected, or appended element by
    element) is an argument about the whole order, so it covers every other consumer of the same source."""
    if cls in ("for_each:extend", "collect:sequence"):
        return 2
    return sensitivity(cls)


def sensitivity(cls):
    """How much of the iteration order a consumer class lets through: 0 = none (a set / a reduction that ignores order),
    1 = the order of independent effects (calls, appends), 2 = everything (a sequence, a pick, state carried between iterations)."""
    if cls.startswith(("collect:set", "reduce:", "sorted")):
        return 0
    if cls == "loop:calls-only":
        return 1
    if cls in ("for_each:extend", "collect:sequence"):
        # appending every element to a sequence in iteration order, and collecting the iteration into a sequence, expose the same
        return 1.5
    return 2


def classify(n, ps):
    top = n
    for anc, key in reversed(ps):
        if anc.get("k") == "MethodCall" and key == "recv":
            top = anc
        elif anc.get("k") == "Call" and key == "args" and (F.callee_def(anc) or "").endswith("into_iter"):
            top = anc
        else:
            break
    chain = []
    x = top
    while x.get("k") == "MethodCall":
        chain.append(x["method"])
        x = F.strip(x["recv"])
    chain.reverse()
    last = chain[-1] if chain else None
    ty = (top.get("ty") or "").lstrip("&")
    if any(m in PICKERS for m in chain):
        return "pick:" + next(m for m in chain if m in PICKERS), top
    if last == "collect":
        if ty.startswith(("std::collections::HashSet<", "std::collections::HashMap<", "std::collections::BTreeSet<", "std::collections::BTreeMap<")):
            return "collect:set", top
        return "collect:sequence", top
    if last in REDUCERS:
        return "reduce:" + last, top
    if last == "for_each":
        clo = [F.strip(a) for a in top["args"] if F.strip(a).get("k") == "Closure"]
        calls = [c["method"] for c, _ in F.calls(clo[0]["body"]) if c.get("k") == "MethodCall"] if clo else []
        mutating = {"extend", "push", "push_back", "push_front", "insert", "remove", "pop", "clear", "append", "entry", "or_insert", "or_insert_with", "retain", "truncate", "swap", "sort", "set_data", "add_data", "union"}
        muts = [c for c in calls if c in mutating]
        assigns = [m for m, _ in F.walk(clo[0]["body"]) if m.get("k") in ("Assign", "AssignOp")] if clo else []
        if muts and set(muts) <= {"extend", "push", "push_back"} and not assigns:
            return "for_each:extend", top
        return "for_each:other", top
    if last in ("sorted", "sorted_by_key", "sorted_by", "sorted_unstable"):
        return "sorted", top
    # plain loop over the collection (possibly through adaptors: `for x in map.into_iter().chain(other)`)
    for anc, key in reversed(ps):
        if anc.get("k") == "Match" and "ForLoop" in anc.get("source", ""):
            has_assign = any(m.get("k") in ("Assign", "AssignOp") for m, _ in F.walk(anc))
            calls = [c["method"] for c, _ in F.calls(anc) if c.get("k") == "MethodCall" and not c.get("exp")]
            mutating = {"extend", "push", "push_back", "push_front", "insert", "remove", "pop", "clear", "append", "entry", "or_insert", "or_insert_with", "retain", "truncate", "swap", "sort", "set_data", "add_data", "union"}
            muts = [c for c in calls if c in mutating]
            # a loop whose body *tests* the structure it is filling (a guard or `if` mentioning the receiver of one of its own
            # mutating calls) makes every iteration depend on the ones before it: the iteration order shows in the result
            mut_recv = {F.local_of(F.strip(c["recv"])) for c, _ in F.calls(anc) if c.get("k") == "MethodCall" and not c.get("exp") and c["method"] in mutating}
            mut_recv.discard(None)
            conds = [x["cond"] for x, _ in F.walk(anc) if x.get("k") == "If" and not x.get("exp")] + [a["guard"] for m, _ in F.exprs(anc, "Match") for a in m["arms"] if "guard" in a]
            reads_own = any(y.get("k") == "Path" and y.get("res") == "local" and y.get("local") in mut_recv for cnd in conds for y, _ in F.walk(cnd))
            if reads_own:
                return "loop:state-dependent", anc
            if muts and set(muts) <= {"extend", "push", "push_back"} and not has_assign:
                return "for_each:extend", anc  # the same consumer as `.for_each(|x| vec.push/extend(..))`
            return ("loop:assigns" if has_assign else "loop:calls-only"), anc
        if anc.get("k") == "MethodCall" and key == "recv" and anc["method"] in LOOP_ADAPTORS:
            continue
        if anc.get("k") == "Call" and key == "args" and (F.callee_def(anc) or "").endswith("into_iter") and anc.get("exp"):
            continue
        if anc.get("k") in ("Call", "MethodCall") and key != "recv":
            break
        if anc.get("k") in ("Call", "MethodCall"):
            break
    return "other:" + (last or "bare"), top


def check_identity_order(fx, rep, rule, names, floor):
    # orderings by *identity*: a type variable's number is its allocation order, which follows the hash iteration order of the
    # values being registered. Sorting / taking a minimum by anything that contains a type variable turns that hidden order into
    # visible output order.
    ORDERERS = {"sort", "sort_unstable", "sorted", "sorted_unstable", "sort_by_key", "sort_unstable_by_key", "sort_by_cached_key", "sorted_by_key", "sorted_by_cached_key",
                "min", "max", "min_by_key", "max_by_key", "sort_by", "sorted_by", "min_by", "max_by"}
    IDENT = ("TypeVariable", "tc::expression::Span", "tc::expression::TypeExpression", "tc::unification::Judgement", "tc::unification::Equality", "std::sync::Arc<", "*const", "*mut")
    n_ord = 0
    for name in names:
        b = fx.body(name)
        if not b or "hir" not in b or b.get("from_expansion"):
            continue
        k_ord = 0
        for n, ps in F.calls(b["hir"]["value"]):
            if n.get("k") != "MethodCall" or n["method"] not in ORDERERS or n.get("exp"):
                continue
            m = n["method"]
            key_ty = None
            clo = [F.strip(a) for a in n["args"] if F.strip(a).get("k") == "Closure"]
            if m.endswith("_by_key") or m.endswith("_cached_key"):
                if clo:
                    body = clo[0]["body"]
                    key_ty = body.get("ty") or ""
            elif m.endswith("_by"):
                # comparator closure: the types of what it compares
                if clo:
                    key_ty = " ".join((x.get("recv_ty") or "") + " " + " ".join((a.get("ty") or "") for a in x.get("args", [])) for x, _ in F.calls(clo[0]["body"]) if x.get("k") == "MethodCall" and x["method"] in ("cmp", "partial_cmp", "then", "then_with"))
            elif m in ("sorted", "sorted_unstable", "min", "max"):
                key_ty = n.get("ty") or ""  # `vec::IntoIter<T>` / `Option<T>`: the element type
            else:
                key_ty = n.get("recv_ty") or ""  # `Vec<T>` / `[T]`
            if key_ty is None:
                continue
            n_ord += 1
            k_ord += 1
            ident = [t for t in IDENT if t in key_ty]
            # plain integers / tuples of integers are fine; anything that embeds an identity is not
            rep.oblige(
                not ident,
                rule,
                f"identity-order:{F.strip_generics(name) if not name.startswith('<') else name}#{k_ord}",
                F.loc(n["span"]),
                f"`{name}` orders elements with `{m}` by a key of type `{key_ty.strip()[:80]}`, which embeds {ident}: type-variable numbers follow the order in which values were registered (hash iteration order), so this ordering makes the result depend on the hash seed",
                sample={"rule": rule, "fn": name, "orders_with": m, "key_type": key_ty.strip()[:80]} if n_ord <= 6 else None,
            )
    rep.floor(rule, n_ord, floor, "sorting / ordering calls in scope")
    return n_ord



INTERIOR_WRITERS = ("RwLock::<T>::write", "RwLock::<T>::try_write", "Mutex::<T>::lock", "Mutex::<T>::try_lock", "RefCell::<T>::borrow_mut", "RefCell::<T>::replace", "Cell::<T>::set", "Cell::<T>::replace", "OnceCell", "OnceLock", "::fetch_add", "::fetch_sub", "::store", "::swap", "::compare_exchange")


def check_run_persistent_state(fx, rep, cg, rule="R02.4"):
    """`the same bytecode with the same configuration yields an equal result every time` - also the second time the same engine
    is used. The type checker's `run` replaces its per-run state wholesale; everything else the engine owns (its configuration:
    lifting passes, inference rules, and whatever they own) outlives the run. A write to a field of such a type in a function
    reachable from `run` is state carried from one run into the next: it needs a reviewed row (tables/persistent_state.tsv)
    saying why the next run cannot observe it."""
    TC = "tc::TypeChecker"
    run = fx.body(TC + "::run")
    adt = fx.adt(TC)
    if not rep.anchor(rule, run is not None and adt is not None and run.get("mir"), "TypeChecker and its run method"):
        return
    fields = adt["variants"][0]["fields"]

    def self_field(p):
        return isinstance(p, dict) and p.get("l") == 1 and len(p.get("proj", [])) >= 2 and p["proj"][0] == "*" and isinstance(p["proj"][1], dict) and "f" in p["proj"][1]

    # the per-run fields: assigned as a whole by run itself (before anything is computed from them)
    per_run = set()
    for bl in run["mir"]["blocks"]:
        for st in bl.get("stmts", []):
            pl = st.get("p")
            if st.get("s") == "Assign" and self_field(pl) and len(pl["proj"]) == 2:
                per_run.add(pl["proj"][1]["f"])
    # ... or taken out as a whole: `std::mem::take(&mut self.state)` / `std::mem::replace(&mut self.state, fresh)`
    refs = {}
    for bl in run["mir"]["blocks"]:
        for st in bl.get("stmts", []):
            rv = st.get("rv") or {}
            if st.get("s") == "Assign" and rv.get("r") == "Ref" and rv.get("mut") and self_field(rv.get("p")) and len(rv["p"]["proj"]) == 2 and not st["p"]["proj"]:
                refs[st["p"]["l"]] = rv["p"]["proj"][1]["f"]
    for _round in range(3):
        for bl in run["mir"]["blocks"]:
            for st in bl.get("stmts", []):
                rv = st.get("rv") or {}
                if st.get("s") != "Assign" or st["p"]["proj"]:
                    continue
                src = None
                if rv.get("r") == "Ref" and rv.get("mut") and isinstance(rv.get("p"), dict) and rv["p"].get("proj") == ["*"]:
                    src = rv["p"]["l"]
                elif rv.get("r") == "Use" and isinstance(rv.get("op"), dict) and isinstance(rv["op"].get("p"), dict) and not rv["op"]["p"].get("proj"):
                    src = rv["op"]["p"]["l"]
                if src in refs:
                    refs[st["p"]["l"]] = refs[src]
    for bl in run["mir"]["blocks"]:
        t = bl.get("term") or {}
        if t.get("t") == "Call" and str((t.get("func") or {}).get("fn", "")).endswith(("mem::take", "mem::replace")) and t.get("args"):
            a0 = t["args"][0].get("p") or {}
            if a0.get("l") in refs and not a0.get("proj"):
                per_run.add(refs[a0["l"]])
    rep.oblige(bool(per_run), rule, "run-resets-its-state", F.loc(run["span"]), "TypeChecker::run no longer replaces its per-run state as a whole: judgements of an earlier run take part in the next one", sample={"rule": rule, "per_run_fields": [fields[i]["name"] for i in sorted(per_run) if i < len(fields)]})
    # types that outlive a run: closure over the fields of the remaining ones, through `dyn Trait` to the implementors
    import re

    def type_names(ty):
        return set(re.findall(r"[A-Za-z_][A-Za-z0-9_]*(?:::[A-Za-z_][A-Za-z0-9_]*)+", ty or ""))

    work = []
    for i, f in enumerate(fields):
        if i not in per_run:
            work += list(type_names(f["ty"]))
    persistent = set()
    while work:
        t = work.pop()
        if t in persistent:
            continue
        a = fx.adt(t)
        if a is not None and not t.startswith("std::"):
            persistent.add(t)
            for v in a.get("variants", []):
                for f in v["fields"]:
                    work += list(type_names(f["ty"]))
        else:
            impls = [i for i in fx.impls if i.get("trait") == t and not i.get("from_expansion")]
            for i in impls:
                if i.get("self_adt"):
                    work.append(i["self_adt"])
    persistent.discard("watchdog::LazyWatchdog")
    rep.floor(rule, len(persistent), 10, "types owned by the engine beyond one run (configuration, passes, rules)")
    rows = tables.Keyed("persistent_state.tsv", fx)
    reach = cg.reachable({run["def"]})
    n_fn = n_w = 0
    for name in sorted(reach):
        b = fx.bodies.get(name)
        if not b or not b.get("mir") or b.get("from_expansion"):
            continue
        st_ty = F.strip_generics(b.get("impl_self") or "")
        self_adt = next((i.get("self_adt") for i in fx.impls if i.get("def") == b.get("impl")), None) if b.get("impl") else None
        owner = st_ty if st_ty in persistent else (self_adt if self_adt in persistent else None)
        if owner is None:
            continue
        n_fn += 1
        mir = b["mir"]
        l1 = next((l for l in mir["locals"] if l["i"] == 1), None)
        writes = {}
        if l1 and str(l1.get("ty", "")).startswith("&mut "):
            oadt = fx.adt(owner)
            ofields = oadt["variants"][0]["fields"] if oadt and oadt.get("variants") else []
            for bl in mir["blocks"]:
                for st in bl.get("stmts", []):
                    pl, rv = st.get("p"), st.get("rv") or {}
                    hit = None
                    if st.get("s") == "Assign" and self_field(pl):
                        hit = pl
                    elif rv.get("r") in ("Ref", "RawPtr") and (rv.get("mut") or rv.get("r") == "RawPtr") and self_field(rv.get("p")):
                        hit = rv["p"]
                    if hit is not None:
                        fi = hit["proj"][1]["f"]
                        fname = ofields[fi]["name"] if fi < len(ofields) else str(fi)
                        writes.setdefault(fname, st.get("span"))
        for c, _ in F.calls(b["hir"]["value"]) if b.get("hir") else []:
            cd = F.callee_def(c) or ""
            if any(w in cd for w in INTERIOR_WRITERS) and ("sync::" in cd or "cell::" in cd):
                writes.setdefault("interior:" + cd.split("::")[-1], c.get("span"))
        for fname, span in sorted(writes.items()):
            n_w += 1
            key = f"{F.strip_generics(name) if not name.startswith('<') else name}|{fname}"
            row = rows.get(key)
            rep.fn(name)
            rep.oblige(
                row is not None,
                rule,
                f"persistent-write:{key}",
                F.loc(span),
                f"`{name}` writes `{fname}` of `{owner}` while the type checker runs; that state is owned by the engine's configuration and outlives the run (run only replaces {[fields[i]['name'] for i in sorted(per_run) if i < len(fields)]}): a second run of the same engine on the same input can answer differently. No reviewed row in tables/persistent_state.tsv",
                sample={"rule": rule, "fn": name, "field": fname, "owner": owner, "reviewed": row[1] if row else None},
            )
    rep.floor(rule, n_fn, 10, "functions of engine-owned types on the run() call graph")
    rep.extra["persistent_types"] = sorted(persistent)


def check(fx, rep, tier):
    cg = F.CallGraph(fx)
    entries = [b["def"] for b in fx.fn_bodies() if (b.get("impl_self") or "").startswith("extractor::Extractor<") and b.get("name") == "analyze"]
    if not rep.anchor("R02.1", bool(entries), "the one-call entry point Extractor::analyze"):
        return rep.finish("anchor lost", "n/a")
    pipe = cg.reachable(entries)
    rows = tables.Keyed("order_sources.tsv", fx)
    found = {}
    for name in sorted(pipe):
        b = fx.body(name)
        if not b or "hir" not in b or b.get("from_expansion"):
            continue
        k = 0
        for n, ps in F.calls(b["hir"]["value"]):
            rt = None
            if n.get("k") == "MethodCall" and n["method"] in ITER:
                rt = n.get("recv_ty")
            elif n.get("k") == "Call" and (F.callee_def(n) or "").endswith("IntoIterator::into_iter") and n["args"]:
                rt = n["args"][0].get("ty")
            if not is_hash_ty(rt):
                continue
            k += 1
            key = f"{F.strip_generics(name) if not name.startswith('<') else name}#{k}"
            cls, top = classify(n, ps)
            found[key] = (cls, n, name)
    rep.floor("R02.1", len(found), 10, "order sources on the analyze() call graph")
    for key, (cls, n, name) in sorted(found.items()):
        rep.fn(name)
        row = rows.get(key)
        w = F.loc(n["span"])
        if row is None:
            sens = cls.startswith(("pick", "collect:sequence", "for_each", "loop", "other"))
            rep.oblige(
                not sens,
                "R02.1",
                f"order-source:{key}",
                w,
                f"new iteration over a hash collection in `{name}` whose order reaches its consumer (`{cls}`): the result may depend on the per-process hash seed; review it and add a row to tables/order_sources.tsv with the law that makes it order-independent",
                sample={"rule": "R02.1", "source": key, "class": cls, "reviewed": False},
            )
            continue
        # the reviewed argument covers any consumer that lets through no more of the order than the reviewed one did (the same
        # source rewritten from a collected queue to a loop over the iterator is the same consumer)
        rep.oblige(
            row[1] == cls or sensitivity(cls) <= reviewed_sensitivity(row[1]),
            "R02.1",
            f"order-source:{key}",
            w,
            f"the consumer of the hash-ordered iteration in `{name}` changed from `{row[1]}` to `{cls}`, which lets more of the order through: the reviewed argument ({row[2][:80]}...) no longer applies",
            sample={"rule": "R02.1", "source": key, "class": cls, "backing": row[2][:100]},
        )
    stale = sorted(set(rows) - set(found))
    rep.extra["stale_rows"] = stale

    check_identity_order(fx, rep, "R02.1", sorted(pipe), 3)

    # ---------------------------------------------------------------- R02.2
    from ..mergemodel import MergeModel
    from .c16 import check_absorption, check_diagonal, check_idempotence, check_mirrors, check_usage_laws, usage_table

    class Re:
        def __init__(self, rep, rule):
            self.rep, self.rule = rep, rule

        def __getattr__(self, k):
            return getattr(self.rep, k)

        def oblige(self, ok, rule, key, where, msg, sample=None):
            return self.rep.oblige(ok, self.rule, key, where, msg, sample)

        def anchor(self, rule, ok, what):
            return self.rep.anchor(self.rule, ok, what)

        def floor(self, rule, count, minimum, what):
            return self.rep.floor(self.rule, count, minimum, what)

        def violation(self, rule, key, where, msg):
            return self.rep.violation(self.rule, key, where, msg)

    r2 = Re(rep, "R02.2")
    mm = MergeModel(fx)
    if rep.anchor("R02.2", mm.ok, "; ".join(mm.problems) or "merge model"):
        check_mirrors(mm, r2)
        check_diagonal(mm, r2)
        check_idempotence(mm, r2)
        usages, table = usage_table(fx, r2, "R02.2")
        if table is not None:
            check_usage_laws(fx, r2, "R02.2", usages, table, want_upper_bound=False)
        check_absorption(mm, r2)
        from .c16 import check_structural_equality

        check_structural_equality(fx, r2, "R02.2")
    # rows sorted on insertion
    from .c12 import check_r121

    check_r121(fx, r2, require_stable=True)
    # equality of layouts ignores conflict payloads (both fields, both traits)
    from .. import srcattrs

    abi = fx.adt("tc::abi::AbiType")
    if rep.anchor("R02.2", abi is not None, "AbiType"):
        outer, members = srcattrs.item_attrs(abi["span"])
        ign = {k for k, attrs in members.items() if any("derivative" in a and "ignore" in a and "PartialEq" in a for a in attrs)}
        rep.oblige(ign == {"ConflictedType.conflicts", "ConflictedType.reasons"}, "R02.2", "conflict-payload-ignored", F.loc(abi["span"]), f"layout equality ignores {sorted(ign)}; conflict explanations (which mention type variables numbered in hash order) must be ignored, and nothing else", sample={"rule": "R02.2", "ignored": sorted(ign)})

    # ---------------------------------------------------------------- R02.3
    from .c11 import check_r112

    check_r112(fx, Re(rep, "R02.3"))
    # the same success/failure class: with a watchdog that answers from the number of polls, the outcome is the same in every run
    # only if the number of polls does not depend on the hash order - each polled loop counts its own iterations, one per pass
    # (C13 R13.1: canonical counter, no `continue` in front of the increment, the cadence test in front of the poll)
    from .. import core as _core2

    _core2.import_rules(rep, fx, "C13", "R02.2", only_rules=("R13.1",), floor=20, what="poll-cadence obligations (C13 R13.1) behind 'the same success/failure class'")
    check_run_persistent_state(fx, rep, cg)
    return rep.finish(
        "Every start of an iteration over a hash collection on the analyze() call graph is enumerated and its consumer classified; insensitive consumers need nothing, the others are tied to a law that is "
        "re-checked here: commutativity/associativity clauses of merge for the fold, sort-on-insert for layout rows, rule isolation for rule application, payload-ignoring equality for conflicts.",
        "instances = order sources, ordered constructor pairs, usage pairs/triples, absorbing paths, layout writers, judgement sites; all enumerated",
        ["equality of two actual runs is NOT decided; the known non-associativity of merge (array/bytes/packed absorbing word evidence) is exactly what makes the fold order-sensitive today and is reported as known findings"],
    )
