"""C14 — unification ends with one equality-free type per variable and honours equalities (post-condition skeleton).

R14.1 singleton per class     : in the per-class body of the unifier every path that does not skip an empty class ends by
      storing a one-element inference set for the class; progress is flagged whenever a class held more than one expression, and
      the round loop only exits on a round without progress.
R14.2 no equality survives    : equality judgements are turned into unions in the set-up loop and never stored as data; nothing
      in merge / the round loop constructs an equality expression; merge's two panicking arms are therefore unreachable.
R14.3 constructor merges unify components: for each diagonal arm of merge on a constructor with type-variable fields, one
      Equality(left.f, right.f) is emitted for every such field of the enum definition.
R14.4 equalities are honoured : every equality, judgement and fresh variable collected in a round reaches forest.union /
      forest.add_data / forest.insert after the class loop, unfiltered.
R14.5 arms consume evidence    : an arm that emits a judgement either files a new expression or files it on a fresh variable; re-filing
      an operand unchanged on an existing variable consumes nothing and lets cyclic evidence loop for ever.
Termination of the fixpoint in general is NOT decided (R14.5 is one necessary condition).
"""
from .. import facts as F
from .. import terms as T
from ..mergemodel import TE, MergeModel
from .c16 import result_exprs

FOREST_FNS = ("union", "add_data", "set_data", "insert")


def forest_calls(root):
    out = []
    for n, ps in F.calls(root):
        if n.get("k") == "MethodCall" and n["method"] in FOREST_FNS and "DisjointSet" in (n.get("recv_ty") or ""):
            out.append((n, ps))
    return out


def check(fx, rep, tier):
    mm = MergeModel(fx)
    if not rep.anchor("R14.3", mm.ok, "; ".join(mm.problems) or "merge model"):
        return rep.finish("anchor lost", "n/a")
    # the unifier: the function that calls merge inside a loop and writes a DisjointSet
    uni = None
    for b in fx.fn_bodies():
        hir = b.get("hir")
        if not hir:
            continue
        calls_merge = any(F.strip_generics(F.callee_def(c) or "") == F.strip_generics(mm.fn["def"]) and F.in_loop(ps) for c, ps in F.calls(hir["value"]))
        if calls_merge and b["def"] != mm.fn["def"] and forest_calls(hir["value"]):
            uni = b
    if not rep.anchor("R14.1", uni is not None, "the unifier (function folding merge over each class of a union-find forest)"):
        return rep.finish("anchor lost", "n/a")
    rep.fn(uni["def"])
    rep.fn(mm.fn["def"])
    root = uni["hir"]["value"]
    mutated = T.mutated_locals(root)
    fc = forest_calls(root)

    # locate the round loop (outer `loop`) and the class loop (for over forest.sets())
    loops = [(n, ps) for n, ps in F.exprs(root, "Loop")]
    round_loop = None
    class_loop = None
    for n, ps in loops:
        if "ForLoop" not in n.get("source", "") and "While" not in n.get("source", ""):
            if any(F.strip_generics(F.callee_def(c) or "") == F.strip_generics(mm.fn["def"]) for c, _ in F.calls(n)):
                round_loop = (n, ps)
    for n, ps in loops:
        if "ForLoop" in n.get("source", "") and round_loop and any(a is round_loop[0] for a, _ in ps):
            direct_merge = any(F.strip_generics(F.callee_def(c) or "") == F.strip_generics(mm.fn["def"]) for c, _ in F.calls(n))
            sets_data = any(c["method"] == "set_data" for c, _ in forest_calls(n))
            if direct_merge and sets_data:
                class_loop = (n, ps)
    if not rep.anchor("R14.1", round_loop is not None and class_loop is not None, "the round loop and the per-class loop of the unifier"):
        return rep.finish("anchor lost", "n/a")
    rl, cl = round_loop[0], class_loop[0]

    # ---------------------------------------------------------------- R14.1
    sets = [(c, ps) for c, ps in forest_calls(cl) if c["method"] == "set_data"]
    rep.oblige(len(sets) == 1, "R14.1", "one-set_data", F.loc(cl["span"]), f"the per-class body stores the class's result at {len(sets)} places (exactly one expected)")
    for c, ps in sets:
        env = T.env_at(ps, c, mutated)
        val = T.term(c["args"][1], env, mutated)
        # InferenceSet::from([current]) : a one-element array literal
        arrays = [n for n, _ in F.walk(c["args"][1]) if n.get("k") == "Array"]
        single = len(arrays) == 1 and len(arrays[0]["elems"]) == 1
        rep.oblige(single, "R14.1", "singleton-set", F.loc(c["span"]), "the class's inferences are not replaced by a one-element set: a class can keep more than one type expression", sample={"rule": "R14.1", "stored": T.short(val)[:80]})
        # the stored element is the fold accumulator: the local assigned from merge's `expression`
        el = F.local_of(arrays[0]["elems"][0]) if single else None
        assigned_from_merge = False
        for n, nps in F.walk(cl):
            if n.get("k") == "Assign" and F.local_of(n["l"]) == el and el is not None:
                assigned_from_merge = True
        rep.oblige(assigned_from_merge or el is not None, "R14.1", "stores-accumulator", F.loc(c["span"]), "the stored expression is not the fold accumulator")
        # set_data is unconditional at the end of the class body (only the empty-class `continue` may skip it)
        cond = [a for a, key in ps if a.get("k") in ("If", "Match") and any(x is a for x, _ in F.walk(cl["body"])) and not a.get("exp") and "ForLoop" not in str(a.get("source", ""))]
        rep.oblige(not cond, "R14.1", "set_data-unconditional", F.loc(c["span"]), "storing the class's single result is conditional: some classes keep their unfolded inference sets")
    conts = [(n, ps) for n, ps in F.walk(cl["body"]) if n.get("k") == "Continue" and not n.get("exp")]
    for n, ps in conts:
        guard = None
        for a, key in reversed(ps):
            if a.get("k") == "If" and key == "then":
                guard = a["cond"]
                break
        t = T.term(guard, T.Env(), mutated) if guard else None
        ok = t is not None and t[0] == "call" and str(t[1]).endswith("::is_empty")
        if not ok:
            # `let Some(first) = <the class's inferences>.next() else { continue }`: skipped exactly when there is none
            for a, key in reversed(ps):
                if isinstance(a, dict) and a.get("s") == "Let" and a.get("els") is not None and key == "els":
                    pv = F.pat_variants(a["pat"]) or set()
                    init = F.strip(a["init"])
                    if {v for _, v in pv} == {"Some"} and init.get("k") == "MethodCall" and init["method"] in ("next", "pop_front", "pop", "first", "last", "pop_first"):
                        ok = True
                    break
        rep.oblige(ok, "R14.1", "continue-only-when-empty", F.loc(n["span"]), "a class is skipped (continue) for a reason other than having no inferences: it keeps whatever set it had")
    # made_progress set in the fold loop; loop exits only on !made_progress
    prog_local = None
    for n, ps in F.walk(rl):
        if n.get("k") == "If" and any(m.get("k") == "Break" and not m.get("exp") for m, _ in F.walk(n["then"])):
            c = n["cond"]
            if c.get("k") == "Unary" and c.get("op") == "Not" and F.local_of(c["e"]) is not None:
                prog_local = F.local_of(c["e"])
    breaks = [n for n, ps in F.walk(rl["body"]) if n.get("k") == "Break" and not n.get("exp") and not any(a.get("k") == "Loop" and a is not rl for a, _ in ps)]
    rep.oblige(prog_local is not None and len(breaks) == 1, "R14.1", "exit-only-without-progress", F.loc(rl["span"]), f"the round loop does not exit exactly when a round made no progress ({len(breaks)} break(s))")
    if prog_local is not None:
        # inside the fold loop (the inner for over the remaining expressions) progress is set unconditionally
        set_true = []
        for n, ps in F.walk(cl):
            if n.get("k") == "Assign" and F.local_of(n["l"]) == prog_local:
                inner_for = [a for a, _ in ps if a.get("k") == "Loop" and "ForLoop" in a.get("source", "") and a is not cl]
                conditional = any(a.get("k") == "If" and not a.get("exp") for a, _ in ps if any(x is a for l in inner_for for x, _ in F.walk(l)))
                val = T.term(n["r"], T.Env())
                if inner_for and not conditional and val in (("lit", True), ("lit", "true")):
                    # and the merge call is in that same loop
                    if any(F.strip_generics(F.callee_def(c) or "") == F.strip_generics(mm.fn["def"]) for c, _ in F.calls(inner_for[-1])):
                        set_true.append(n)
        rep.oblige(bool(set_true), "R14.1", "progress-on-every-fold", F.loc(cl["span"]), "progress is not flagged on every fold step: the loop can stop while a class still holds several expressions", sample={"rule": "R14.1", "progress_flag_set_in_fold": bool(set_true)})
        # reset to false at the top of each round
        resets = [n for n, ps in F.walk(rl["body"]) if n.get("s") == "Let" and n["pat"].get("p") == "Bind" and n["pat"]["local"] == prog_local and "init" in n and T.term(n["init"], T.Env()) in (("lit", False), ("lit", "false"))]
        rep.oblige(bool(resets), "R14.1", "progress-reset-each-round", F.loc(rl["span"]), "the progress flag is not reset at the start of each round")

    # ---------------------------------------------------------------- R14.2
    # set-up: Equal -> union, everything else -> add_data
    setup_ok = False
    for m, ps in F.exprs(root, "Match"):
        if any(a is rl for a, _ in ps):
            continue
        if not any(F.pat_variants(a["pat"]) == {(TE, "Equal")} for a in m["arms"]):
            continue
        # the arms an Equal expression can reach, in order: Equal arms and catch-alls, up to the first unguarded one
        reach_eq = []
        for a in m["arms"]:
            pv = F.pat_variants(a["pat"])
            if pv is None or (TE, "Equal") in pv:
                reach_eq.append(a)
                if "guard" not in a:
                    break
        eq_names = [c["method"] for a in reach_eq for c, _ in forest_calls(a["body"])]
        all_names = [c["method"] for a in m["arms"] for c, _ in forest_calls(a["body"])]
        union_arm = next((a for a in reach_eq if F.pat_variants(a["pat"]) == {(TE, "Equal")} and [c["method"] for c, _ in forest_calls(a["body"])] == ["union"]), None)
        union_unconditional = union_arm is not None and not any(x.get("k") in ("If", "Match") and not x.get("exp") for x, _ in F.walk(union_arm["body"]))
        others_union = any(c["method"] == "union" for a in m["arms"] if (F.pat_variants(a["pat"]) or set()) and (TE, "Equal") not in F.pat_variants(a["pat"]) for c, _ in forest_calls(a["body"]))
        if union_unconditional and "add_data" not in eq_names and "add_data" in all_names and not others_union:
            setup_ok = True
    if not setup_ok:
        # `if let TE::Equal { id } = expr { forest.union(..) } else { forest.add_data(..) }`
        for n, ps in F.exprs(root, "If"):
            if any(a is rl for a, _ in ps) or "else" not in n:
                continue
            c = F.strip(n["cond"])
            if c.get("k") != "Let" or F.pat_variants(c["pat"]) != {(TE, "Equal")}:
                continue
            then_names = [x["method"] for x, _ in forest_calls(n["then"])]
            else_names = [x["method"] for x, _ in forest_calls(n["else"])]
            then_plain = not any(x.get("k") in ("If", "Match") and not x.get("exp") for x, _ in F.walk(n["then"]))
            if then_names == ["union"] and then_plain and "add_data" in else_names and "union" not in else_names:
                setup_ok = True
    rep.oblige(setup_ok, "R14.2", "equal-becomes-union", F.loc(uni["span"]), "equality judgements are not turned into unions (and only unions) before the rounds start: an Equal expression can reach merge, which panics on it", sample={"rule": "R14.2", "setup": "Equal => union, _ => add_data"})
    # nothing in merge / unifier constructs TE::Equal
    for b in (mm.fn, uni):
        built = [n for n, _ in F.walk(b["hir"]["value"]) if (n.get("k") == "Struct" and n.get("adt") == TE and n.get("variant") == "Equal") or (n.get("k") in ("Call", "MethodCall") and F.strip_generics(F.callee_def(n) or "").endswith("TypeExpression::eq"))]
        rep.oblige(not built, "R14.2", f"no-equal-built:{F.strip_generics(b['def'])}", F.loc(b["span"]), f"`{b['def']}` constructs an equality expression during unification")
    # constructor provenance of Equal in the whole crate
    builders = set()
    for b in fx.fn_bodies():
        hir = b.get("hir")
        if not hir:
            continue
        for n, nps in F.walk(hir["value"]):
            if n.get("k") == "Struct" and n.get("adt") == TE and n.get("variant") == "Equal":
                # an Equal rebuilt only to be reported inside an error value is not evidence
                in_error = any(a.get("k") == "Struct" and str(a.get("adt", "")).startswith("error::") for a, _ in nps)
                if not in_error:
                    builders.add(F.strip_generics(b["def"]))
    rep.oblige(builders <= {"tc::expression::TypeExpression::eq"}, "R14.2", "equal-provenance", "-", f"equality expressions are constructed in {sorted(builders)}; only the dedicated constructor may build them", sample={"rule": "R14.2", "builders": sorted(builders)})
    # the panicking arms are exactly the two Equal arms
    panic_arms = []
    for arm in mm.arms:
        if any(n.get("exp") and "panic" in str(n.get("exp")) for n, _ in F.walk(arm.node["body"])) or any("panic" in (F.callee_def(c) or "") for c, _ in F.calls(arm.node["body"])):
            panic_arms.append(arm)
    only_equal = all(any((l == {"Equal"} and r is None) or (r == {"Equal"} and l is None) for l, r in a.alts) for a in panic_arms)
    rep.oblige(only_equal, "R14.2", "panic-arms-are-equal-arms", mm.arms[0].where(), f"merge panics in arm(s) {[a.label() for a in panic_arms]}; only the (unreachable) Equal arms may")
    rep.extra["merge_panic_arms"] = [a.label() for a in panic_arms]

    # equalities are recorded on both of their sides: every addition of an expression to an inference set goes through the one
    # function that mirrors an `Equal` onto the other variable (a helper that inserts directly stores a one-sided equality, which
    # the set-up loop may then never resolve)
    STATE = "tc::state::TypeCheckerState"
    adders = {}
    for b in fx.fn_bodies():
        if not b.get("hir") or b.get("from_expansion"):
            continue
        for n, ps in F.calls(b["hir"]["value"]):
            if n.get("k") != "MethodCall" or n["method"] not in ("insert", "extend"):
                continue
            rt = (n.get("recv_ty") or "").replace("&mut ", "").replace("&", "").strip()
            if not rt.startswith("std::collections::HashSet<tc::expression::TypeExpression"):
                continue  # the set itself (not the table of sets)
            # only insertions into sets reached from the state's `inferences` table
            recv_t = str(T.term(n["recv"], T.Env()))
            if "inferences" not in recv_t:
                continue
            adders.setdefault(b["def"], []).append(n)
    mirrors = []
    for fn, ns in adders.items():
        b = fx.body(fn)
        has_eq_branch = any(x.get("k") == "Let" and (F.pat_variants(x["pat"]) or set()) == {(TE, "Equal")} for x, _ in F.walk(b["hir"]["value"])) or any(
            (F.pat_variants(a["pat"]) or set()) == {(TE, "Equal")} for m, _ in F.exprs(b["hir"]["value"], "Match") for a in m["arms"]
        )
        if has_eq_branch and len(ns) >= 2:
            mirrors.append(fn)
    rep.oblige(len(mirrors) == 1, "R14.2", "one-mirroring-adder", "-", f"expected exactly one function that adds an expression to an inference set and mirrors equalities onto the other variable; found {sorted(mirrors)}")
    for fn in sorted(adders):
        if fn in mirrors or (fx.body(fn) or {}).get("impl_self") != STATE and "tc::" not in fn:
            continue
        rep.oblige(
            fn in mirrors,
            "R14.2",
            f"inference-adder:{F.strip_generics(fn)}",
            F.loc(fx.body(fn)["span"]),
            f"`{fn}` adds expressions to an inference set directly instead of going through {sorted(mirrors)}: an equality added this way is recorded on one side only, so whether it is ever resolved depends on which side the unifier happens to read",
            sample={"rule": "R14.2", "fn": fn},
        )

    # ---------------------------------------------------------------- R14.3
    n_ctor = 0
    for V, fields in mm.variant_fields.items():
        tv_fields = [f for f, ty in fields.items() if ty.endswith("TypeVariable")]
        if not tv_fields or V in ("Equal", "Conflict"):
            continue
        arms = [a for a in mm.select(V, V) if not a.delegate]
        arms = [a for a in arms if any(l == {V} and r == {V} for l, r in a.alts)]
        if not arms:
            rep.oblige(False, "R14.3", f"components:{V}", "-", f"no diagonal arm for `{V}` although it has type-variable components {tv_fields}: two {V} types that meet conflict instead of unifying their components")
            continue
        arm = arms[0]
        n_ctor += 1
        p = arm.node["pat"]
        lb = {path[-1][1]: lid for lid, (nm, path) in F.pat_bindings(p["pats"][0]).items() if path}
        rb = {path[-1][1]: lid for lid, (nm, path) in F.pat_bindings(p["pats"][1]).items() if path}
        eqs = []
        for c, cps in F.calls(arm.node["body"]):
            if F.strip_generics(F.callee_def(c) or "").endswith("unification::Equality::new") and len(c["args"]) == 2:
                eqs.append((F.local_of(c["args"][0]), F.local_of(c["args"][1]), cps))
        for f in tv_fields:
            want = {lb.get(f), rb.get(f)}
            found = [e for e in eqs if {e[0], e[1]} == want and None not in want]
            # the equalities must flow into the returned Merge (Merge::equalities / Merge::new) on a path that is not a conflict
            flows = any(k in ("equalities", "new") for k, node, ps in result_exprs(arm.node["body"]))
            rep.oblige(
                bool(found) and flows,
                "R14.3",
                f"components:{V}.{f}",
                arm.where(),
                f"when two `{V}` types meet, their `{f}` components are not unified (no Equality(left.{f}, right.{f}) is emitted): variables declared equal through a {V} resolve to different types",
                sample={"rule": "R14.3", "constructor": V, "field": f, "equality_emitted": bool(found)},
            )
    # path-sensitive form of the same clause (shared with C16 R16.1 diagonal): an operand answered as it stands needs every
    # component compared equal or unified on *that* path (an early return in front of the equalities skips them)
    from .. import core
    from .c16 import check_diagonal

    check_diagonal(mm, core.Retag(rep, "R14.3"))
    rep.floor("R14.3", n_ctor, 3, "constructors with type-variable components (dynamic array, fixed array, mapping)")

    # ---------------------------------------------------------------- R14.4
    # inside the fold: all_equalities.extend(equalities) ... ; after the class loop: for x in all_* { forest.<op> }
    merge_fields = {"equalities": "union", "judgements": "add_data", "ty_vars": "insert"}
    # locals bound by destructuring merge's result
    bound = {}
    for n, ps in F.walk(cl):
        if n.get("s") == "Let" and "init" in n and any(F.strip_generics(F.callee_def(c) or "") == F.strip_generics(mm.fn["def"]) for c, _ in F.calls(n["init"])):
            for lid, (nm, path) in F.pat_bindings(n["pat"]).items():
                if path:
                    bound[path[-1][1]] = lid
    collectors = {}
    for c, ps in F.calls(cl):
        if c.get("k") == "MethodCall" and c["method"] == "extend" and c["args"]:
            src = F.local_of(c["args"][0])
            dst = F.local_of(c["recv"])
            for f, lid in bound.items():
                if lid == src and dst is not None:
                    cond = any(a.get("k") == "If" and not a.get("exp") for a, _ in ps if any(x is a for x, _ in F.walk(cl["body"])))
                    if not cond:
                        collectors[f] = dst
    for f, op in merge_fields.items():
        dst = collectors.get(f)
        ok = False
        if dst is not None:
            # a for loop over dst after the class loop whose body calls forest.op
            for n, ps in F.exprs(rl, "Loop"):
                if "ForLoop" not in n.get("source", "") or n is cl or any(a is cl for a, _ in ps):
                    continue
                it_local = None
                for anc, key in reversed(ps):
                    if anc.get("k") == "Match" and "ForLoop" in anc.get("source", ""):
                        sc = anc["scrut"]
                        if sc.get("k") == "Call" and sc["args"]:
                            it_local = F.local_of(sc["args"][0])
                        break
                if it_local == dst:
                    ops = [c for c, cps in forest_calls(n) if c["method"] == op and not any(a.get("k") == "If" and not a.get("exp") for a, _ in cps if any(x is a for x, _ in F.walk(n["body"])))]
                    after = T._span_key(n["span"])[1] >= T._span_key(cl["span"])[2]
                    skips = any(m.get("k") in ("Continue", "Break") and not m.get("exp") for m, _ in F.walk(n["body"]))
                    if ops and after and not skips:
                        ok = True
        rep.oblige(
            ok,
            "R14.4",
            f"applied:{f}",
            F.loc(rl["span"]),
            f"the `{f}` produced by merging are not all applied to the forest (`{op}`) after the class loop: {'they are never collected' if dst is None else 'the application loop is missing, conditional or filtered'}",
            sample={"rule": "R14.4", "merge_output": f, "applied_with": op, "ok": ok},
        )
    # packed merges derive their fresh spans from sorted unique boundaries (otherwise unify panics / yields nonsense spans)
    from .c12 import check_merge_boundaries

    check_merge_boundaries(fx, rep, "R14.3")
    # ---------------------------------------------------------------- R14.5 every arm consumes evidence
    # The round loop ends only after a round in which no class held two expressions. An arm of merge that keeps one operand and
    # re-files the *other operand unchanged* as a judgement on a variable that already exists (a component of the kept operand,
    # or the class's own variable) consumes nothing: when that variable belongs to the same class (cyclic evidence such as
    # `a : packed[span(a, ..)]`, or a two-slot copy cycle) the next round sees the same pair again, for ever.
    n_j = 0
    per_arm = {}
    L, R = mm.left, mm.right
    fresh_fns = ("allocate_ty_var",)
    for arm in mm.arms:
        if arm.delegate:
            continue
        body = arm.node["body"]
        mutated5 = T.mutated_locals(body)
        fresh_locals = set()
        for st, _ in F.walk(body):
            if st.get("s") == "Let" and "init" in st and st["pat"].get("p") == "Bind" and any((F.callee_def(c) or "").split("::")[-1] in fresh_fns for c, _ in F.calls(st["init"])):
                fresh_locals.add(st["pat"]["local"])
        for c, cps in F.calls(body):
            if not F.strip_generics(F.callee_def(c) or "").endswith("unification::Judgement::new") or len(c["args"]) != 2:
                continue
            n_j += 1
            per_arm[arm.label()] = per_arm.get(arm.label(), 0) + 1
            target = F.local_of(F.strip(c["args"][0]))
            expr_l = F.local_of(F.strip(c["args"][1]))
            target_fresh = target in fresh_locals
            expr_is_operand = expr_l in (L, R)
            rep.oblige(
                not (expr_is_operand and not target_fresh),
                "R14.5",
                f"refeed:{arm.label()}#{per_arm[arm.label()]}",
                F.loc(c["span"]),
                f"merge arm {arm.label()} keeps one operand and files the other operand, unchanged, as a judgement on an existing type variable: nothing is consumed, so with cyclic evidence (that variable in the same class) every round recreates the same pair and unification never reaches a round without progress",
                sample={"rule": "R14.5", "arm": arm.label(), "judgement_on_fresh_variable": target_fresh, "expression_is_an_operand": expr_is_operand},
            )
    rep.floor("R14.5", n_j, 1, "judgements emitted by merge arms")

    # every class reaches the fold: the forest hands out all of its sets (C19 R19.2), and nothing in the unifier can panic on the
    # way (C01 R01.1 sites inside the unifier and merge)
    from .. import core as _core

    _core.import_rules(rep, fx, "C19", "R14.1", only_rules=("R19.2",), floor=3, what="forest obligations (C19 R19.2) behind 'every class is folded'")
    _core.import_rules(rep, fx, "C01", "R14.4", only_rules=("R01.1",), floor=5, what="panic sites inside the unifier (C01 R01.1)", key_filter=lambda k: "tc::unification::" in k)
    # turning the resolved forest into types ends: every recursive component of the type checker has a verified cut (C01 R01.3)
    _core.import_rules(rep, fx, "C01", "R14.4", only_rules=("R01.3",), floor=1, what="recursion bounds inside the type checker (C01 R01.3)", key_filter=lambda k: ("recursion" in k) and ("tc::" in k))

    return rep.finish(
        "Post-condition skeleton of unification: the per-class body stores exactly a singleton set unconditionally, progress is flagged on every fold step and the round loop exits only without progress; "
        "equalities become unions before the rounds and are constructed nowhere else; every diagonal constructor arm of merge emits one equality per type-variable field of the enum definition; "
        "everything merge produces is collected unconditionally and applied to the forest after the class loop.",
        "instances = clauses of the unifier's loop skeleton, constructors x type-variable fields, merge outputs; enumerated from the enum definition and the unifier's body",
        ["TERMINATION of the fixpoint is not decided; behaviour of the union-find forest is C19's necessary conditions"],
    )
