#!/usr/bin/env python3
"""mkmutant.py <out.patch> <file-relative-to-repo> <old> <new> [<file> <old> <new> ...]
Builds a unified diff that replaces exactly one occurrence of <old> by <new> in /repo's current file."""
import difflib, sys
out = sys.argv[1]
args = sys.argv[2:]
chunks = []
for i in range(0, len(args), 3):
    f, old, new = args[i:i+3]
    old = old.encode().decode('unicode_escape'); new = new.encode().decode('unicode_escape')
    src = open('/repo/' + f).read()
    if src.count(old) != 1:
        sys.exit(f"{f}: {src.count(old)} occurrences of {old!r}")
    dst = src.replace(old, new)
    chunks.append(''.join(difflib.unified_diff(src.splitlines(True), dst.splitlines(True), 'a/' + f, 'b/' + f)))
open(out, 'w').write(''.join(chunks))
print("wrote", out)
