#!/usr/bin/env python3
"""Copy verified file-directed seeded changes from /tmp/mutants/G<k>/<x>/ into /verif/seeded/<property>-g<k><x>/ (the property is
the one the agent named in meta.json)."""
import glob, json, os, shutil
for d in sorted(glob.glob('/tmp/mutants/[GHIJKLN]?/[a-d]')):
    v = os.path.join(d, 'verified.json')
    if not os.path.exists(v):
        continue
    ver = json.load(open(v))
    if str(ver.get('ok')).lower() != 'true':
        print('NOT ok:', d, ver.get('why') or ver)
        continue
    meta = json.load(open(os.path.join(d, 'meta.json')))
    pid = str(meta.get('property', ''))[:3]
    g = d.split('/')[-2].lower(); x = d.split('/')[-1]
    out = f'/verif/seeded/{pid}-{g}{x}'
    os.makedirs(out, exist_ok=True)
    shutil.copy(os.path.join(d, 'patch.diff'), out)
    shutil.copy(os.path.join(d, 'demo.rs'), out)
    meta.setdefault('round', 'file-directed (wave 6)') if False else None
    meta['round'] = 'file-directed (waves 6-10): the agent was given a group of files and all property statements and chose the property'
    meta['confirmed_by_me'] = {
        'how': 'selftest/verify_mutant.sh in a scratch git worktree of /repo (removed afterwards): patch applied, full suite run, demo run with and without the change',
        **{k: ver[k] for k in ('suite_passed', 'suite_failed', 'demo_with_change', 'demo_without_change', 'repo_head') if k in ver},
    }
    json.dump(meta, open(os.path.join(out, 'meta.json'), 'w'), indent=1)
    print('adopted', out)
