#!/usr/bin/env python3
"""Copy verified seeded changes from /tmp/mutants/<ID>/<x>/ into /verif/seeded/<ID>-<x>/ (patch.diff, demo.rs, meta.json)."""
import json, os, shutil, sys, glob
for d in sorted(glob.glob('/tmp/mutants/C??/[a-l]')):
    v = os.path.join(d, 'verified.json')
    if not os.path.exists(v):
        continue
    ver = json.load(open(v))
    if str(ver.get('ok')).lower() != 'true':
        print('NOT ok:', d, ver.get('why') or ver)
        continue
    pid = d.split('/')[-2]; x = d.split('/')[-1]
    out = f'/verif/seeded/{pid}-{x}'
    try:
        if 'rebased' in json.load(open(os.path.join(out, 'meta.json'))):
            continue  # the patch was rebased by hand onto a later fix commit: keep it
    except Exception:
        pass
    os.makedirs(out, exist_ok=True)
    shutil.copy(os.path.join(d, 'patch.diff'), out)
    shutil.copy(os.path.join(d, 'demo.rs'), out)
    try:
        meta = json.load(open(os.path.join(d, 'meta.json')))
    except Exception:
        meta = {}
    meta.setdefault('property', pid)
    meta['confirmed_by_me'] = {
        'how': 'selftest/verify_mutant.sh in a scratch git worktree of /repo (removed afterwards): patch applied, full suite run, demo run with and without the change',
        **{k: ver[k] for k in ('suite_passed', 'suite_failed', 'demo_with_change', 'demo_without_change', 'repo_head') if k in ver},
    }
    json.dump(meta, open(os.path.join(out, 'meta.json'), 'w'), indent=1)
    print('adopted', out)
