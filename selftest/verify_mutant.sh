#!/bin/bash
# verify_mutant.sh <dir-with-patch.diff,demo.rs,meta.json> <name>
# Confirms in a scratch worktree of /repo (removed afterwards): patch applies and compiles, the full existing suite
# passes with it, the demo fails with it and passes without it. Writes <dir>/verified.json.
set -u
SRC=$(readlink -f "$1"); NAME=$2
D=$(mktemp -d /tmp/vmut.XXXXXX)
git -C /repo worktree add -q --detach "$D" HEAD || exit 2
cleanup() { git -C /repo worktree remove --force "$D" 2>/dev/null; rm -rf "$D"; }
trap cleanup EXIT
cp -r /repo/target "$D/target" 2>/dev/null
cd "$D"
res() { python3 - "$@" <<'PY'
import json,sys
keys=sys.argv[1::2]; vals=sys.argv[2::2]
print(json.dumps(dict(zip(keys,vals))))
PY
}
if ! git apply "$SRC/patch.diff"; then res name "$NAME" ok false why "patch does not apply" > "$SRC/verified.json"; exit 1; fi
OUT=$(CARGO_NET_OFFLINE=true cargo test --workspace --no-fail-fast --offline 2>&1)
P=$(echo "$OUT" | grep -E "^test result" | sed -E 's/.* ([0-9]+) passed.*/\1/' | paste -sd+ | bc)
Fd=$(echo "$OUT" | grep -E "^test result" | sed -E 's/.* ([0-9]+) failed.*/\1/' | paste -sd+ | bc)
if echo "$OUT" | grep -q "^error"; then res name "$NAME" ok false why "does not compile" > "$SRC/verified.json"; exit 1; fi
cp "$SRC/demo.rs" "tests/demo_$NAME.rs"
WITH_OUT=$(CARGO_NET_OFFLINE=true cargo test --offline --test "demo_$NAME" 2>&1); WITH_RC=$?
WITH=$(echo "$WITH_OUT" | grep -E "^test result" | tail -1)
# a demo that takes the whole test process down (stack overflow, abort) prints no result line
if [ -z "$WITH" ] && [ "$WITH_RC" != "0" ] && echo "$WITH_OUT" | grep -qE "overflowed its stack|SIGABRT|SIGSEGV|process didn't exit successfully"; then WITH="test result: FAILED. (test process aborted: $(echo "$WITH_OUT" | grep -oE "overflowed its stack|SIGABRT|SIGSEGV" | head -1))"; fi
git apply -R "$SRC/patch.diff"
WITHOUT=$(CARGO_NET_OFFLINE=true cargo test --offline --test "demo_$NAME" 2>&1 | grep -E "^test result" | tail -1)
OK=false
if [ "${Fd:-1}" = "0" ] && [ "${P:-0}" -ge 385 ] && echo "$WITH" | grep -q "FAILED" && echo "$WITHOUT" | grep -q "test result: ok"; then OK=true; fi
res name "$NAME" ok "$OK" suite_passed "${P:-?}" suite_failed "${Fd:-?}" demo_with_change "$WITH" demo_without_change "$WITHOUT" repo_head "$(git -C /repo rev-parse --short HEAD)" > "$SRC/verified.json"
cat "$SRC/verified.json"
