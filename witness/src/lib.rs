//! Type-level witnesses (rustdoc `compile_fail` with error codes; run with `cargo +nightly test --doc`).
//!
//! Each witness pins an encapsulation boundary that makes an in-crate who-may-write rule complete for external users.
//! Every `compile_fail` block has a compiling twin that differs only by the offending line, so that a witness whose
//! paths are merely wrong cannot pass vacuously.

/// C18 R18.1: the memoised `size` of a symbolic value can only be set by the constructors that R18.1 audits.
///
/// ```compile_fail,E0616
/// use storage_layout_extractor::vm::value::{Provenance, RSV};
/// let v = RSV::new_value(0, Provenance::Synthetic);
/// let _ = v.size; // private field
/// ```
///
/// ```
/// use storage_layout_extractor::vm::value::{Provenance, RSV};
/// let v = RSV::new_value(0, Provenance::Synthetic);
/// let _ = v.size(); // the accessor is public
/// ```
pub struct SizeIsPrivate;

/// C18 R18.1: a symbolic value cannot be built with a struct literal outside its module.
///
/// ```compile_fail,E0451
/// use storage_layout_extractor::vm::value::{Provenance, RSV, RSVD};
/// let _ = RSV { instruction_pointer: 0, provenance: Provenance::Synthetic, data: RSVD::new_value(), aux_data: (), size: 7 };
/// ```
///
/// ```
/// use storage_layout_extractor::vm::value::{Provenance, RSV, RSVD};
/// let _ = RSV::new(0, RSVD::new_value(), Provenance::Synthetic, None);
/// ```
pub struct NoStructLiteral;

/// C12 R12.1: the entries of a layout can only be added through `add` (which sorts).
///
/// ```compile_fail,E0616
/// use storage_layout_extractor::layout::StorageLayout;
/// let mut l = StorageLayout::default();
/// l.slots.clear(); // private field
/// ```
///
/// ```
/// use storage_layout_extractor::layout::StorageLayout;
/// let l = StorageLayout::default();
/// let _ = l.slots().len();
/// ```
pub struct LayoutSlotsPrivate;

/// C19 R19.1: the vector map's length counter is not writable from outside.
///
/// ```compile_fail,E0616
/// use storage_layout_extractor::data::vector_map::VectorMap;
/// use storage_layout_extractor::tc::state::type_variable::TypeVariable;
/// let mut m: VectorMap<TypeVariable, u8> = VectorMap::new();
/// m.size = 3; // private field
/// ```
///
/// ```
/// use storage_layout_extractor::data::vector_map::VectorMap;
/// use storage_layout_extractor::tc::state::type_variable::TypeVariable;
/// let m: VectorMap<TypeVariable, u8> = VectorMap::new();
/// let _ = m.len();
/// ```
pub struct VectorMapSizePrivate;

/// C03 R03.1 / C08 R08.2: a thread's instruction pointer cannot be assigned from outside the execution-thread type.
///
/// ```compile_fail,E0616
/// use storage_layout_extractor::disassembly::InstructionStream;
/// let s = InstructionStream::try_from([0x00u8, 0x00].as_slice()).unwrap();
/// let mut t = s.new_thread(0).unwrap();
/// t.instruction_pointer = 1; // private field
/// ```
///
/// ```
/// use storage_layout_extractor::disassembly::InstructionStream;
/// let s = InstructionStream::try_from([0x00u8, 0x00].as_slice()).unwrap();
/// let t = s.new_thread(0).unwrap();
/// let _ = t.instruction_pointer();
/// ```
pub struct InstructionPointerPrivate;

/// C13 R13.3 / typestate: an extractor that has not prepared its VM offers no `execute`.
///
/// ```compile_fail,E0599
/// use storage_layout_extractor as sle;
/// use sle::extractor::{chain::{Chain, version::EthereumVersion}, contract::Contract};
/// use sle::watchdog::LazyWatchdog;
/// let c = Contract::new(vec![0u8], Chain::Ethereum { version: EthereumVersion::Shanghai });
/// let e = sle::new(c, sle::vm::Config::default(), sle::tc::Config::default(), LazyWatchdog.in_rc());
/// let e = e.disassemble().unwrap();
/// let _ = e.execute(); // no such method before prepare_vm()
/// ```
///
/// ```
/// use storage_layout_extractor as sle;
/// use sle::extractor::{chain::{Chain, version::EthereumVersion}, contract::Contract};
/// use sle::watchdog::LazyWatchdog;
/// let c = Contract::new(vec![0u8], Chain::Ethereum { version: EthereumVersion::Shanghai });
/// let e = sle::new(c, sle::vm::Config::default(), sle::tc::Config::default(), LazyWatchdog.in_rc());
/// let e = e.disassemble().unwrap();
/// let _ = e.prepare_vm();
/// ```
pub struct ExtractorTypestate;
